//! Shared machinery of the execution monitors (C26, C27, C33):
//!
//! * the resolver world of `refmodel::executor` implemented for apollo's API — a synchronous
//!   `ObjectValue` and an asynchronous `AsyncObjectValue`, both driven by the same table and both
//!   logging every resolver call `(object type, field, response path)` and every list item pulled;
//! * the instrumented single-thread executor used by C27 (own `Waker`, pending counts, parked
//!   wakers drained one at a time, logical-deadlock detection);
//! * generation of valid (schema, operation, variables, world) requests;
//! * an order-sensitive JSON diff.

use crate::gen::exec_gen::{gen_executable, ExecOpts};
use crate::gen::model::*;
use crate::gen::schema_gen::{gen_schema, valid_const, SchemaOpts};
use crate::prng::Rng;
use crate::refmodel::executor::*;
use crate::rt::{self, PanicReport};
use apollo_compiler::request::coerce_variable_values;
use apollo_compiler::resolvers::{
    AsyncObjectValue, AsyncResolvedValue, Execution, FieldError, ObjectValue, ResolveInfo, ResolvedValue,
};
use apollo_compiler::response::{ExecutionResponse, JsonMap, JsonValue, ResponseDataPathSegment};
use apollo_compiler::validation::Valid;
use apollo_compiler::{ExecutableDocument, Schema};
use futures::future::BoxFuture;
use futures::stream::{BoxStream, Stream};
use serde_json::{json, Map, Value as J};
use std::collections::BTreeMap;
use std::future::Future;
use std::pin::Pin;
use std::sync::atomic::{AtomicUsize, Ordering};
use std::sync::{Arc, Mutex};
use std::task::{Context, Poll, Wake, Waker};

// ---------------------------------------------------------------------------------------------
// JSON conversions (serde_json <-> serde_json_bytes), order preserving
// ---------------------------------------------------------------------------------------------

pub fn j_to_bytes(v: &J) -> JsonValue {
    match v {
        J::Null => JsonValue::Null,
        J::Bool(b) => JsonValue::Bool(*b),
        J::Number(n) => JsonValue::Number(n.clone()),
        J::String(s) => JsonValue::String(s.as_str().into()),
        J::Array(xs) => JsonValue::Array(xs.iter().map(j_to_bytes).collect()),
        J::Object(m) => {
            let mut o = JsonMap::new();
            for (k, v) in m {
                o.insert(k.as_str(), j_to_bytes(v));
            }
            JsonValue::Object(o)
        }
    }
}

pub fn bytes_to_j(v: &JsonValue) -> J {
    match v {
        JsonValue::Null => J::Null,
        JsonValue::Bool(b) => J::Bool(*b),
        JsonValue::Number(n) => J::Number(n.clone()),
        JsonValue::String(s) => J::String(s.as_str().to_string()),
        JsonValue::Array(xs) => J::Array(xs.iter().map(bytes_to_j).collect()),
        JsonValue::Object(m) => J::Object(bytes_map_to_j(m)),
    }
}

pub fn bytes_map_to_j(m: &JsonMap) -> Map<String, J> {
    let mut o = Map::new();
    for (k, v) in m.iter() {
        o.insert(k.as_str().to_string(), bytes_to_j(v));
    }
    o
}

pub fn apollo_path(p: &[ResponseDataPathSegment]) -> Path {
    p.iter()
        .map(|s| match s {
            ResponseDataPathSegment::Field(n) => Seg::Key(n.to_string()),
            ResponseDataPathSegment::ListIndex(i) => Seg::Idx(*i),
        })
        .collect()
}

// ---------------------------------------------------------------------------------------------
// Event log shared by the sync and async worlds
// ---------------------------------------------------------------------------------------------

#[derive(Clone, Debug, PartialEq, Eq)]
pub enum Event {
    /// `resolve_field` entered.
    Call(Call),
    /// A resolver future became ready (async only). Path = the field's response path.
    Ready(Path),
    /// A list iterator / stream yielded item `index` of the list at `path`.
    Item(Path, usize),
}

impl Event {
    pub fn path(&self) -> &Path {
        match self {
            Event::Call(c) => &c.path,
            Event::Ready(p) => p,
            Event::Item(p, _) => p,
        }
    }
    pub fn to_json(&self) -> J {
        match self {
            Event::Call(c) => json!({"call": format!("{}.{}", c.object_type, c.field), "path": path_to_json(&c.path)}),
            Event::Ready(p) => json!({"ready": path_to_json(p)}),
            Event::Item(p, i) => json!({"item": i, "of": path_to_json(p)}),
        }
    }
}

pub fn calls_of(events: &[Event]) -> Vec<Call> {
    events
        .iter()
        .filter_map(|e| match e {
            Event::Call(c) => Some(c.clone()),
            _ => None,
        })
        .collect()
}

fn with_key(path: &Path, key: &str) -> Path {
    let mut p = path.clone();
    p.push(Seg::Key(key.to_string()));
    p
}

fn with_idx(path: &Path, i: usize) -> Path {
    let mut p = path.clone();
    p.push(Seg::Idx(i));
    p
}

const WORLD_ERR: &str = "world: resolver error";

// ---------------------------------------------------------------------------------------------
// Synchronous world
// ---------------------------------------------------------------------------------------------

pub struct SyncShared {
    pub world: World,
    pub log: Mutex<Vec<Event>>,
}

pub struct SyncObj {
    shared: Arc<SyncShared>,
    type_name: String,
    path: Path,
}

impl SyncObj {
    pub fn root(shared: &Arc<SyncShared>, type_name: &str) -> SyncObj {
        SyncObj {
            shared: shared.clone(),
            type_name: type_name.to_string(),
            path: vec![],
        }
    }
}

fn sync_resolved<'a>(shared: &Arc<SyncShared>, outcome: &Outcome, path: Path) -> Result<ResolvedValue<'a>, FieldError> {
    match outcome {
        Outcome::Leaf(v) => Ok(ResolvedValue::Leaf(j_to_bytes(v))),
        Outcome::Null => Ok(ResolvedValue::null()),
        Outcome::Err => Err(FieldError {
            message: WORLD_ERR.into(),
        }),
        Outcome::Object(t) => Ok(ResolvedValue::Object(Box::new(SyncObj {
            shared: shared.clone(),
            type_name: t.clone(),
            path,
        }))),
        Outcome::List(items) => Ok(ResolvedValue::List(Box::new(SyncItems {
            shared: shared.clone(),
            items: items.clone(),
            path,
            next: 0,
            _p: std::marker::PhantomData,
        }))),
    }
}

struct SyncItems<'a> {
    shared: Arc<SyncShared>,
    items: Vec<Outcome>,
    path: Path,
    next: usize,
    _p: std::marker::PhantomData<&'a ()>,
}

impl<'a> Iterator for SyncItems<'a> {
    type Item = Result<ResolvedValue<'a>, FieldError>;
    fn next(&mut self) -> Option<Self::Item> {
        if self.next >= self.items.len() {
            return None;
        }
        let i = self.next;
        self.next += 1;
        self.shared.log.lock().unwrap().push(Event::Item(self.path.clone(), i));
        Some(sync_resolved(&self.shared, &self.items[i], with_idx(&self.path, i)))
    }
    fn size_hint(&self) -> (usize, Option<usize>) {
        let n = self.items.len() - self.next;
        (n, Some(n))
    }
}

impl ObjectValue for SyncObj {
    fn type_name(&self) -> &str {
        &self.type_name
    }
    fn resolve_field<'a>(&'a self, info: &'a ResolveInfo<'a>) -> Result<ResolvedValue<'a>, FieldError> {
        let field = info.field_name();
        let key = info.field_selections()[0].response_key().as_str();
        let path = with_key(&self.path, key);
        self.shared.log.lock().unwrap().push(Event::Call(Call {
            object_type: self.type_name.clone(),
            field: field.to_string(),
            path: path.clone(),
        }));
        match self.shared.world.get(&self.type_name, field) {
            Some(o) => sync_resolved(&self.shared, o, path),
            None => Err(self.unknown_field_error(info)),
        }
    }
}

pub struct ApolloRun {
    /// `Err` = request error (message)
    pub response: Result<ExecutionResponse, String>,
    pub events: Vec<Event>,
}

pub fn run_sync(
    schema: &Valid<Schema>,
    doc: &Valid<ExecutableDocument>,
    op_name: Option<&str>,
    root_type: &str,
    vars: &Valid<JsonMap>,
    world: &World,
) -> Result<ApolloRun, PanicReport> {
    let shared = Arc::new(SyncShared {
        world: world.clone(),
        log: Mutex::new(vec![]),
    });
    let root = SyncObj::root(&shared, root_type);
    let r = rt::catch(|| {
        let ex = match Execution::new(schema, doc).operation_name(op_name) {
            Ok(e) => e,
            Err(e) => return Err(e.message().to_string()),
        };
        ex.coerced_variable_values(vars)
            .execute_sync(&root)
            .map_err(|e| e.message().to_string())
    })?;
    let events = std::mem::take(&mut *shared.log.lock().unwrap());
    Ok(ApolloRun { response: r, events })
}

// ---------------------------------------------------------------------------------------------
// Asynchronous world + instrumented executor (C27)
// ---------------------------------------------------------------------------------------------

pub struct SchedState {
    /// pending count per future id (creation order); ids beyond the vector use 0
    pub ks: Vec<u8>,
    pub next_id: usize,
    /// wakers parked by resolver futures / item streams that returned `Pending`
    pub parked: Vec<(usize, Waker)>,
    pub pending_returns: usize,
    pub max_parked: usize,
}

pub struct AsyncShared {
    pub world: World,
    pub log: Mutex<Vec<Event>>,
    pub sched: Mutex<SchedState>,
}

impl AsyncShared {
    pub fn new(world: &World, ks: Vec<u8>) -> Arc<AsyncShared> {
        Arc::new(AsyncShared {
            world: world.clone(),
            log: Mutex::new(vec![]),
            sched: Mutex::new(SchedState {
                ks,
                next_id: 0,
                parked: vec![],
                pending_returns: 0,
                max_parked: 0,
            }),
        })
    }
    fn new_future(&self) -> (usize, u8) {
        let mut s = self.sched.lock().unwrap();
        let id = s.next_id;
        s.next_id += 1;
        let k = s.ks.get(id).copied().unwrap_or(0);
        (id, k)
    }
    fn park(&self, id: usize, w: &Waker) {
        let mut s = self.sched.lock().unwrap();
        s.pending_returns += 1;
        // a future polled again before its waker fired: only the latest waker counts
        if let Some(e) = s.parked.iter_mut().find(|(i, _)| *i == id) {
            e.1 = w.clone();
        } else {
            s.parked.push((id, w.clone()));
        }
        let n = s.parked.len();
        if n > s.max_parked {
            s.max_parked = n;
        }
    }
}

pub struct AsyncObj {
    shared: Arc<AsyncShared>,
    type_name: String,
    path: Path,
}

impl AsyncObj {
    pub fn root(shared: &Arc<AsyncShared>, type_name: &str) -> AsyncObj {
        AsyncObj {
            shared: shared.clone(),
            type_name: type_name.to_string(),
            path: vec![],
        }
    }
}

fn async_resolved<'a>(shared: &Arc<AsyncShared>, outcome: &Outcome, path: Path) -> Result<AsyncResolvedValue<'a>, FieldError> {
    match outcome {
        Outcome::Leaf(v) => Ok(AsyncResolvedValue::Leaf(j_to_bytes(v))),
        Outcome::Null => Ok(AsyncResolvedValue::null()),
        Outcome::Err => Err(FieldError {
            message: WORLD_ERR.into(),
        }),
        Outcome::Object(t) => Ok(AsyncResolvedValue::Object(Box::new(AsyncObj {
            shared: shared.clone(),
            type_name: t.clone(),
            path,
        }))),
        Outcome::List(items) => {
            let s: BoxStream<'a, Result<AsyncResolvedValue<'a>, FieldError>> = Box::pin(AsyncItems {
                shared: shared.clone(),
                items: items.clone(),
                path,
                next: 0,
                cur: None,
                _p: std::marker::PhantomData,
            });
            Ok(AsyncResolvedValue::List(s))
        }
    }
}

/// A resolver future that returns `Pending` `remaining` times, each time parking its waker in the
/// executor's queue, then resolves to the world's outcome.
struct ResolverFuture<'a> {
    _p: std::marker::PhantomData<&'a ()>,
    shared: Arc<AsyncShared>,
    id: usize,
    remaining: u8,
    /// `None` = unknown field
    outcome: Option<Outcome>,
    unknown: Option<String>,
    path: Path,
    done: bool,
}

impl<'a> Future for ResolverFuture<'a> {
    type Output = Result<AsyncResolvedValue<'a>, FieldError>;
    fn poll(mut self: Pin<&mut Self>, cx: &mut Context<'_>) -> Poll<Self::Output> {
        assert!(!self.done, "resolver future polled after completion");
        if self.remaining > 0 {
            self.remaining -= 1;
            self.shared.park(self.id, cx.waker());
            return Poll::Pending;
        }
        self.done = true;
        self.shared.log.lock().unwrap().push(Event::Ready(self.path.clone()));
        Poll::Ready(match &self.outcome {
            Some(o) => async_resolved(&self.shared, o, self.path.clone()),
            None => Err(FieldError {
                message: self.unknown.clone().unwrap_or_default(),
            }),
        })
    }
}

struct AsyncItems<'a> {
    _p: std::marker::PhantomData<&'a ()>,
    shared: Arc<AsyncShared>,
    items: Vec<Outcome>,
    path: Path,
    next: usize,
    /// (future id, remaining pending polls) of the item being awaited
    cur: Option<(usize, u8)>,
}

impl<'a> Stream for AsyncItems<'a> {
    type Item = Result<AsyncResolvedValue<'a>, FieldError>;
    fn poll_next(mut self: Pin<&mut Self>, cx: &mut Context<'_>) -> Poll<Option<Self::Item>> {
        if self.next >= self.items.len() {
            return Poll::Ready(None);
        }
        let (id, remaining) = match self.cur {
            Some(c) => c,
            None => self.shared.new_future(),
        };
        if remaining > 0 {
            self.cur = Some((id, remaining - 1));
            self.shared.park(id, cx.waker());
            return Poll::Pending;
        }
        self.cur = None;
        let i = self.next;
        self.next += 1;
        self.shared.log.lock().unwrap().push(Event::Item(self.path.clone(), i));
        Poll::Ready(Some(async_resolved(&self.shared, &self.items[i], with_idx(&self.path, i))))
    }
    fn size_hint(&self) -> (usize, Option<usize>) {
        let n = self.items.len() - self.next;
        (n, Some(n))
    }
}

impl AsyncObjectValue for AsyncObj {
    fn type_name(&self) -> &str {
        &self.type_name
    }
    fn resolve_field<'a>(&'a self, info: &'a ResolveInfo<'a>) -> BoxFuture<'a, Result<AsyncResolvedValue<'a>, FieldError>> {
        let field = info.field_name();
        let key = info.field_selections()[0].response_key().as_str();
        let path = with_key(&self.path, key);
        self.shared.log.lock().unwrap().push(Event::Call(Call {
            object_type: self.type_name.clone(),
            field: field.to_string(),
            path: path.clone(),
        }));
        let (id, k) = self.shared.new_future();
        let outcome = self.shared.world.get(&self.type_name, field).cloned();
        let unknown = if outcome.is_none() { Some(self.unknown_field_error(info).message) } else { None };
        Box::pin(ResolverFuture {
            _p: std::marker::PhantomData,
            shared: self.shared.clone(),
            id,
            remaining: k,
            outcome,
            unknown,
            path,
            done: false,
        })
    }
}

struct RootWake {
    wakes: AtomicUsize,
}

impl Wake for RootWake {
    fn wake(self: Arc<Self>) {
        self.wakes.fetch_add(1, Ordering::SeqCst);
    }
    fn wake_by_ref(self: &Arc<Self>) {
        self.wakes.fetch_add(1, Ordering::SeqCst);
    }
}

#[derive(Clone, Debug, Default)]
pub struct ExecReport {
    pub polls: usize,
    /// root returned Pending with no wake recorded and nothing parked: logical deadlock
    pub deadlock: bool,
    /// parked wakers that were woken without the root waker being invoked (informational)
    pub wakes_not_reaching_root: usize,
    pub step_limit: bool,
    /// number of alternatives at each wake-order choice point (more than one waker parked)
    pub choice_arity: Vec<usize>,
    /// true if some choice point had more alternatives than the enumeration bound
    pub over_bound_choice: bool,
    pub pending_returns: usize,
    pub max_parked: usize,
    pub futures: usize,
}

pub const MAX_WAKE_PERMUTATION_WIDTH: usize = 4;

/// The instrumented single-thread executor: polls `fut` only when the root waker was invoked;
/// between polls it wakes parked wakers one at a time, in the order chosen by `choices`
/// (index among the currently parked ones at each point where more than one is parked; 0 beyond).
/// `rng` picks among more than `MAX_WAKE_PERMUTATION_WIDTH` parked wakers.
pub fn run_instrumented<F: Future>(fut: F, shared: &Arc<AsyncShared>, choices: &[usize], rng: &mut Rng) -> (Option<F::Output>, ExecReport) {
    let root = Arc::new(RootWake {
        wakes: AtomicUsize::new(0),
    });
    let waker = Waker::from(root.clone());
    let mut cx = Context::from_waker(&waker);
    let mut fut = std::pin::pin!(fut);
    let mut rep = ExecReport::default();
    let mut out = None;
    let mut choice_i = 0usize;
    'outer: loop {
        let seen = root.wakes.load(Ordering::SeqCst);
        rep.polls += 1;
        if rep.polls > 200_000 {
            rep.step_limit = true;
            break;
        }
        match fut.as_mut().poll(&mut cx) {
            Poll::Ready(v) => {
                out = Some(v);
                break;
            }
            Poll::Pending => {}
        }
        // Pending: poll again only after the root waker has been invoked.
        loop {
            if root.wakes.load(Ordering::SeqCst) != seen {
                continue 'outer;
            }
            let next = {
                let mut s = shared.sched.lock().unwrap();
                let n = s.parked.len();
                if n == 0 {
                    None
                } else {
                    let idx = if n == 1 {
                        0
                    } else if n <= MAX_WAKE_PERMUTATION_WIDTH {
                        rep.choice_arity.push(n);
                        let c = choices.get(choice_i).copied().unwrap_or(0).min(n - 1);
                        choice_i += 1;
                        c
                    } else {
                        rep.over_bound_choice = true;
                        rng.below(n)
                    };
                    Some(s.parked.remove(idx))
                }
            };
            match next {
                Some((_, w)) => {
                    let before = root.wakes.load(Ordering::SeqCst);
                    w.wake();
                    if root.wakes.load(Ordering::SeqCst) == before {
                        rep.wakes_not_reaching_root += 1;
                    }
                }
                None => {
                    rep.deadlock = true;
                    break 'outer;
                }
            }
        }
    }
    let s = shared.sched.lock().unwrap();
    rep.pending_returns = s.pending_returns;
    rep.max_parked = s.max_parked;
    rep.futures = s.next_id;
    (out, rep)
}

pub struct AsyncRun {
    /// `None` = the root future never completed (deadlock or step limit)
    pub response: Option<Result<ExecutionResponse, String>>,
    pub events: Vec<Event>,
    pub report: ExecReport,
}

#[allow(clippy::too_many_arguments)]
pub fn run_async(
    schema: &Valid<Schema>,
    doc: &Valid<ExecutableDocument>,
    op_name: Option<&str>,
    root_type: &str,
    vars: &Valid<JsonMap>,
    world: &World,
    ks: &[u8],
    choices: &[usize],
    rng: &mut Rng,
) -> Result<AsyncRun, PanicReport> {
    let shared = AsyncShared::new(world, ks.to_vec());
    let root = AsyncObj::root(&shared, root_type);
    let r = rt::catch(|| {
        let ex = match Execution::new(schema, doc).operation_name(op_name) {
            Ok(e) => e,
            Err(e) => return (Some(Err(e.message().to_string())), ExecReport::default()),
        };
        let ex = ex.coerced_variable_values(vars);
        let fut = ex.execute_async(&root);
        let (out, rep) = run_instrumented(fut, &shared, choices, rng);
        (out.map(|r| r.map_err(|e| e.message().to_string())), rep)
    })?;
    let events = std::mem::take(&mut *shared.log.lock().unwrap());
    Ok(AsyncRun {
        response: r.0,
        events,
        report: r.1,
    })
}

/// Record when a worker saw its first violation, as the share of its budget still unused (the
/// orchestrator keeps the maximum over workers = the earliest detection). Evidence only.
pub fn mark_violation_time(ctx: &mut crate::rt::Ctx) {
    if ctx.violation_count() == 0 {
        let remaining = (1.0 - ctx.used()).clamp(0.0, 1.0);
        ctx.count_max("first_violation_with_permille_of_budget_left", (remaining * 1000.0) as u64);
    }
}

// ---------------------------------------------------------------------------------------------
// Order-sensitive JSON diff
// ---------------------------------------------------------------------------------------------

#[derive(Clone, Debug)]
pub struct Diff {
    pub path: Path,
    pub kind: &'static str,
    pub detail: String,
}

fn kind_of(v: &J) -> &'static str {
    match v {
        J::Null => "null",
        J::Bool(_) => "bool",
        J::Number(_) => "number",
        J::String(_) => "string",
        J::Array(_) => "array",
        J::Object(_) => "object",
    }
}

/// First difference between `got` (code under test) and `want` (reference), object key ORDER
/// included.
pub fn diff_ordered(got: &J, want: &J, path: &Path) -> Option<Diff> {
    let d = |kind: &'static str, detail: String| Some(Diff { path: path.clone(), kind, detail });
    match (got, want) {
        (J::Null, J::Null) => None,
        (J::Null, w) => d("null-instead-of-value", format!("got null, reference has {}", kind_of(w))),
        (g, J::Null) => d("value-instead-of-null", format!("got {}, reference has null", kind_of(g))),
        (J::Object(g), J::Object(w)) => {
            let gk: Vec<&String> = g.keys().collect();
            let wk: Vec<&String> = w.keys().collect();
            if gk != wk {
                if let Some(k) = wk.iter().find(|k| !g.contains_key(k.as_str())) {
                    return d("missing-key", format!("key {k:?} of the reference is missing; got keys {gk:?}, reference {wk:?}"));
                }
                if let Some(k) = gk.iter().find(|k| !w.contains_key(k.as_str())) {
                    return d("extra-key", format!("key {k:?} is not in the reference; got keys {gk:?}, reference {wk:?}"));
                }
                return d("key-order", format!("got keys {gk:?}, reference {wk:?}"));
            }
            for (k, gv) in g {
                let mut p = path.clone();
                p.push(Seg::Key(k.clone()));
                if let Some(x) = diff_ordered(gv, &w[k], &p) {
                    return Some(x);
                }
            }
            None
        }
        (J::Array(g), J::Array(w)) => {
            if g.len() != w.len() {
                return d("list-length", format!("got {} items, reference {}", g.len(), w.len()));
            }
            for (i, (gv, wv)) in g.iter().zip(w).enumerate() {
                let mut p = path.clone();
                p.push(Seg::Idx(i));
                if let Some(x) = diff_ordered(gv, wv, &p) {
                    return Some(x);
                }
            }
            None
        }
        (g, w) if kind_of(g) != kind_of(w) => d("json-kind", format!("got {}, reference {}", kind_of(g), kind_of(w))),
        (g, w) => {
            if g == w {
                None
            } else {
                d("scalar-value", format!("got {g}, reference {w}"))
            }
        }
    }
}

// ---------------------------------------------------------------------------------------------
// Request generation
// ---------------------------------------------------------------------------------------------

pub struct SchemaCase {
    pub doc: Doc,
    pub text: String,
    pub flat: FlatSchema,
    pub schema: Valid<Schema>,
}

pub struct ExecCase {
    pub doc: Doc,
    pub text: String,
    pub exec: Valid<ExecutableDocument>,
}

/// Options for the schemas of the execution monitors: everything the type system offers, but no
/// subscription root (executing a subscription operation is a different algorithm, section 6.2.3,
/// that `execute_sync` does not claim to implement).
pub fn exec_schema_opts() -> SchemaOpts {
    SchemaOpts {
        subscription: false,
        ..SchemaOpts::default()
    }
}

pub fn build_schema(doc: Doc) -> Result<SchemaCase, String> {
    let text = print_plain(&doc);
    match Schema::parse_and_validate(&text, "schema.graphql") {
        Ok(schema) => Ok(SchemaCase {
            flat: FlatSchema::from_doc(&doc),
            doc,
            text,
            schema,
        }),
        Err(e) => Err(e.errors.to_string()),
    }
}

pub fn gen_schema_case(rng: &mut Rng, o: &SchemaOpts) -> Result<SchemaCase, String> {
    build_schema(gen_schema(rng, o))
}

pub fn build_exec(sc: &SchemaCase, doc: Doc) -> Result<ExecCase, String> {
    let text = print_plain(&doc);
    // apollo's own validation is the precondition filter (the property quantifies over valid pairs)
    match ExecutableDocument::parse_and_validate(&sc.schema, &text, "op.graphql") {
        Ok(exec) => Ok(ExecCase { doc, text, exec }),
        Err(e) => Err(e.errors.to_string()),
    }
}

pub fn gen_exec_case(rng: &mut Rng, sc: &SchemaCase, o: &ExecOpts) -> Result<ExecCase, String> {
    build_exec(sc, gen_executable(rng, &sc.flat, o))
}

/// Number of field selections in the document (operations and fragments).
pub fn count_fields(doc: &Doc) -> usize {
    fn go(sels: &[Sel]) -> usize {
        sels.iter()
            .map(|s| match s {
                Sel::Field { sels, .. } => 1 + go(sels),
                Sel::Spread { .. } => 0,
                Sel::Inline { sels, .. } => go(sels),
            })
            .sum()
    }
    doc.defs
        .iter()
        .map(|d| match d {
            Def::Op(o) => go(&o.sels),
            Def::Frag(f) => go(&f.sels),
            _ => 0,
        })
        .sum()
}

fn dirs_if_vars(dirs: &[DirApp], out: &mut Vec<String>) {
    for d in dirs {
        if d.name == "skip" || d.name == "include" {
            for (n, v) in &d.args {
                if n == "if" {
                    if let Val::Var(v) = v {
                        out.push(v.clone());
                    }
                }
            }
        }
    }
}

/// Variables used as the `if` argument of `@skip` / `@include` anywhere in the document.
pub fn skip_include_vars(doc: &Doc) -> Vec<String> {
    fn go(sels: &[Sel], out: &mut Vec<String>) {
        for s in sels {
            match s {
                Sel::Field { dirs, sels, .. } => {
                    dirs_if_vars(dirs, out);
                    go(sels, out);
                }
                Sel::Spread { dirs, .. } => dirs_if_vars(dirs, out),
                Sel::Inline { dirs, sels, .. } => {
                    dirs_if_vars(dirs, out);
                    go(sels, out);
                }
            }
        }
    }
    let mut out = vec![];
    for d in &doc.defs {
        match d {
            Def::Op(o) => go(&o.sels, &mut out),
            Def::Frag(f) => go(&f.sels, &mut out),
            _ => {}
        }
    }
    out.sort();
    out.dedup();
    out
}

pub fn has_skip_include(doc: &Doc) -> bool {
    fn d(dirs: &[DirApp]) -> bool {
        dirs.iter().any(|d| d.name == "skip" || d.name == "include")
    }
    fn go(sels: &[Sel]) -> bool {
        sels.iter().any(|s| match s {
            Sel::Field { dirs, sels, .. } => d(dirs) || go(sels),
            Sel::Spread { dirs, .. } => d(dirs),
            Sel::Inline { dirs, sels, .. } => d(dirs) || go(sels),
        })
    }
    doc.defs.iter().any(|x| match x {
        Def::Op(o) => go(&o.sels),
        Def::Frag(f) => go(&f.sels),
        _ => false,
    })
}

/// Some selection carries both `@skip` and `@include`.
pub fn has_skip_and_include_together(doc: &Doc) -> bool {
    fn d(dirs: &[DirApp]) -> bool {
        dirs.iter().any(|d| d.name == "skip") && dirs.iter().any(|d| d.name == "include")
    }
    fn go(sels: &[Sel]) -> bool {
        sels.iter().any(|s| match s {
            Sel::Field { dirs, sels, .. } => d(dirs) || go(sels),
            Sel::Spread { dirs, .. } => d(dirs),
            Sel::Inline { dirs, sels, .. } => d(dirs) || go(sels),
        })
    }
    doc.defs.iter().any(|x| match x {
        Def::Op(o) => go(&o.sels),
        Def::Frag(f) => go(&f.sels),
        _ => false,
    })
}

pub fn val_to_json(v: &Val) -> J {
    match v {
        Val::Null => J::Null,
        Val::Int(i) => json!(i),
        Val::Float(t) => t.parse::<f64>().ok().and_then(serde_json::Number::from_f64).map(J::Number).unwrap_or(J::Null),
        Val::Str(s) => json!(s),
        Val::Bool(b) => json!(b),
        Val::Enum(e) => json!(e),
        Val::List(xs) => J::Array(xs.iter().map(val_to_json).collect()),
        Val::Obj(fs) => {
            let mut m = Map::new();
            for (k, v) in fs {
                m.insert(k.clone(), val_to_json(v));
            }
            J::Object(m)
        }
        Val::Var(_) => J::Null,
    }
}

/// Raw variable values for `op`. Variables driving `@skip/@include` always get a boolean (the
/// meaning of a null `if` is outside what the specification's `CollectFields` text decides
/// unambiguously, so the generator stays out of that band); other nullable variables are sometimes
/// omitted and sometimes explicitly null, which produces argument-coercion field errors at run time.
pub fn gen_variables(rng: &mut Rng, flat: &FlatSchema, doc: &Doc, op: &OpDef) -> Map<String, J> {
    let cond_vars = skip_include_vars(doc);
    let mut m = Map::new();
    for v in &op.vars {
        if cond_vars.contains(&v.name) {
            m.insert(v.name.clone(), J::Bool(rng.bool()));
            continue;
        }
        let nullable = !v.ty.is_non_null();
        if nullable && rng.chance(1, 6) {
            m.insert(v.name.clone(), J::Null);
            continue;
        }
        if (nullable || v.default.is_some()) && rng.chance(1, 4) {
            continue;
        }
        let mut val = valid_const(rng, flat, &v.ty, 2, false);
        if val == Val::Null && !nullable {
            val = valid_const(rng, flat, &v.ty, 2, false);
        }
        m.insert(v.name.clone(), val_to_json(&val));
    }
    m
}

pub fn coerce_vars(sc: &SchemaCase, ec: &ExecCase, op_name: Option<&str>, raw: &Map<String, J>) -> Result<Valid<JsonMap>, String> {
    let op = ec.exec.operations.get(op_name).map_err(|e| e.message().to_string())?;
    let mut jm = JsonMap::new();
    for (k, v) in raw {
        jm.insert(k.as_str(), j_to_bytes(v));
    }
    coerce_variable_values(&sc.schema, op, &jm).map_err(|e| e.message().to_string())
}

// ---------------------------------------------------------------------------------------------
// Cells an operation can touch, outcome pools, worlds
// ---------------------------------------------------------------------------------------------

/// `(object type, field name) -> field type` for every resolver cell the operation can reach in
/// some world (static over-approximation: every possible object type of every abstract position).
pub fn touched_cells(flat: &FlatSchema, doc: &Doc, op: &OpDef) -> BTreeMap<(String, String), TyRef> {
    fn go(flat: &FlatSchema, doc: &Doc, sels: &[Sel], parents: &[String], depth: usize, out: &mut BTreeMap<(String, String), TyRef>) {
        if depth > 24 {
            return;
        }
        for s in sels {
            match s {
                Sel::Field { name, sels, .. } => {
                    if name.starts_with("__") {
                        continue;
                    }
                    for t in parents {
                        if let Some(fd) = flat.field(t, name) {
                            out.insert((t.clone(), name.clone()), fd.ty.clone());
                            let inner = fd.ty.inner_name();
                            if flat.is_composite(inner) && !sels.is_empty() {
                                let pts = flat.possible_types(inner);
                                go(flat, doc, sels, &pts, depth + 1, out);
                            }
                        }
                    }
                }
                Sel::Spread { name, .. } => {
                    if let Some(f) = doc.frag(name) {
                        let cond = flat.possible_types(&f.on);
                        let ps: Vec<String> = parents.iter().filter(|p| cond.contains(p)).cloned().collect();
                        if !ps.is_empty() {
                            go(flat, doc, &f.sels, &ps, depth + 1, out);
                        }
                    }
                }
                Sel::Inline { on, sels, .. } => {
                    let ps: Vec<String> = match on {
                        Some(c) => {
                            let cond = flat.possible_types(c);
                            parents.iter().filter(|p| cond.contains(p)).cloned().collect()
                        }
                        None => parents.to_vec(),
                    };
                    if !ps.is_empty() {
                        go(flat, doc, sels, &ps, depth + 1, out);
                    }
                }
            }
        }
    }
    let mut out = BTreeMap::new();
    if let Some(root) = flat.root(&op.kind) {
        go(flat, doc, &op.sels, &[root.to_string()], 0, &mut out);
    }
    out
}

/// Every outcome kind the world generator can produce (coverage floor of C26).
pub const OUTCOME_KINDS: &[&str] = &[
    "correct",
    "null",
    "err",
    "wrong_kind",
    "int_overflow",
    "enum_unknown",
    "object_right",
    "object_unknown",
    "object_nonmember",
    "leaf_where_object",
    "object_where_leaf",
    "list_unexpected",
    "leaf_where_list",
    "list_ok",
    "list_empty",
    "list_item_null",
    "list_item_err",
    "list_item_bad",
    "list_mixed",
];

fn correct_leaf(rng: &mut Rng, flat: &FlatSchema, n: &str) -> J {
    match n {
        "Int" => json!(*rng.pick(&[0i64, 1, -1, 42, 2147483647, -2147483648])),
        "Float" => json!(*rng.pick(&[1.5f64, -0.25, 2.0, 1e300, 0.0])),
        "String" => json!(rng.pick_str(&["s", "", "é🚀", "two words"])),
        "Boolean" => json!(rng.bool()),
        "ID" => {
            if rng.bool() {
                json!(rng.pick_str(&["id1", "42"]))
            } else {
                json!(rng.below(1000) as i64)
            }
        }
        _ => match flat.ty(n) {
            Some(t) if t.kind == Kind::Enum && !t.values.is_empty() => json!(rng.pick(&t.values).name),
            // custom scalar: "any JSON value is passed through as-is (including array or object)"
            _ => match rng.below(6) {
                0 => json!(5),
                1 => json!("c"),
                2 => json!([1, "x", null]),
                3 => json!({"k": 1, "a": [true]}),
                4 => json!(2.5),
                _ => json!(false),
            },
        },
    }
}

/// A value of the wrong JSON kind for a built-in scalar or an enum, chosen so that the
/// specification's result coercion *requires* a field error as well (no "may coerce" cases such as
/// an integer for Float, a number for String, or "123" for Int).
fn wrong_kind_leaf(rng: &mut Rng, n: &str) -> J {
    match n {
        "Int" => rng.pick(&[json!("x"), json!(1.5), json!([1]), json!({"a": 1})]).clone(),
        "Float" => rng.pick(&[json!("x"), json!([1.5]), json!({"a": 1})]).clone(),
        "String" => rng.pick(&[json!([1, 2]), json!({"a": 1})]).clone(),
        "Boolean" => rng.pick(&[json!("x"), json!([true]), json!({"a": 1})]).clone(),
        "ID" => rng.pick(&[json!(true), json!(1.5), json!(["a"])]).clone(),
        // enum: not a string at all
        _ => rng.pick(&[json!(7), json!(true), json!(["A"])]).clone(),
    }
}

fn is_builtin_scalar(n: &str) -> bool {
    BUILTIN_SCALARS.contains(&n)
}

/// Outcome kinds applicable at a position of type `ty`.
pub fn pool_for(flat: &FlatSchema, ty: &TyRef) -> Vec<&'static str> {
    match ty.nullable() {
        TyRef::List(_) => vec![
            "list_ok", "null", "err", "list_empty", "list_item_null", "list_item_err", "list_item_bad", "list_mixed", "leaf_where_list",
        ],
        TyRef::Named(n) => {
            if flat.is_composite(&n) {
                let mut v = vec!["object_right", "null", "err", "object_unknown", "leaf_where_object", "list_unexpected"];
                let pts = flat.possible_types(&n);
                if flat.types.iter().any(|t| t.kind == Kind::Object && !pts.contains(&t.name)) {
                    v.push("object_nonmember");
                }
                v
            } else {
                let mut v = vec!["correct", "null", "err", "list_unexpected", "object_where_leaf"];
                let is_enum = flat.kind(&n) == Some(Kind::Enum);
                if is_builtin_scalar(&n) || is_enum {
                    v.push("wrong_kind");
                }
                if n == "Int" {
                    v.push("int_overflow");
                }
                if is_enum {
                    v.push("enum_unknown");
                }
                v
            }
        }
        TyRef::NonNull(_) => unreachable!(),
    }
}

fn any_object(rng: &mut Rng, flat: &FlatSchema) -> String {
    let obs: Vec<&FlatType> = flat.types.iter().filter(|t| t.kind == Kind::Object).collect();
    rng.pick(&obs).name.clone()
}

/// Build an outcome of kind `kind` for a position of type `ty`. `depth` bounds list sizes.
pub fn make_outcome(rng: &mut Rng, flat: &FlatSchema, ty: &TyRef, kind: &str, max_len: usize) -> Outcome {
    let inner = ty.nullable();
    let n = inner.inner_name().to_string();
    let named_ok = |rng: &mut Rng| -> Outcome {
        if flat.is_composite(&n) {
            let pts = flat.possible_types(&n);
            if pts.is_empty() {
                Outcome::Null
            } else {
                Outcome::Object(rng.pick(&pts).clone())
            }
        } else {
            Outcome::Leaf(correct_leaf(rng, flat, &n))
        }
    };
    match kind {
        "null" => Outcome::Null,
        "err" => Outcome::Err,
        "correct" => Outcome::Leaf(correct_leaf(rng, flat, &n)),
        "wrong_kind" => Outcome::Leaf(wrong_kind_leaf(rng, &n)),
        "int_overflow" => Outcome::Leaf(json!(*rng.pick(&[2147483648i64, -2147483649, 4294967296, i64::MAX, i64::MIN]))),
        "enum_unknown" => Outcome::Leaf(json!(rng.pick_str(&["NOT_A_VALUE", "", "en0_v0"]))),
        "object_right" => named_ok(rng),
        "object_unknown" => Outcome::Object(rng.pick_str(&["NoSuchType", "Int", "__Schema"]).to_string()),
        "object_nonmember" => {
            let pts = flat.possible_types(&n);
            let others: Vec<&FlatType> = flat.types.iter().filter(|t| t.kind == Kind::Object && !pts.contains(&t.name)).collect();
            if others.is_empty() {
                Outcome::Object("NoSuchType".into())
            } else {
                Outcome::Object(rng.pick(&others).name.clone())
            }
        }
        "leaf_where_object" => Outcome::Leaf(rng.pick(&[json!(1), json!("x"), json!(true), json!({"a": 1})]).clone()),
        "object_where_leaf" => Outcome::Object(any_object(rng, flat)),
        "list_unexpected" => {
            let len = rng.below(3);
            Outcome::List((0..len).map(|_| named_ok(rng)).collect())
        }
        "leaf_where_list" => {
            if flat.is_composite(&n) && rng.bool() {
                named_ok(rng)
            } else {
                Outcome::Leaf(rng.pick(&[json!(1), json!("x"), json!({"a": [1]})]).clone())
            }
        }
        k if k.starts_with("list_") => {
            let item_ty = match &inner {
                TyRef::List(t) => (**t).clone(),
                _ => inner.clone(),
            };
            let ok_item = |rng: &mut Rng| -> Outcome {
                let pool = pool_for(flat, &item_ty);
                make_outcome(rng, flat, &item_ty, pool[0], max_len)
            };
            let item_pool = pool_for(flat, &item_ty);
            match k {
                "list_empty" => Outcome::List(vec![]),
                "list_ok" => {
                    let len = rng.range(1, max_len.max(1));
                    Outcome::List((0..len).map(|_| ok_item(rng)).collect())
                }
                "list_mixed" => {
                    let len = rng.range(1, max_len.max(1));
                    Outcome::List(
                        (0..len)
                            .map(|_| {
                                let kind = if rng.bool() { item_pool[0] } else { *rng.pick(&item_pool) };
                                make_outcome(rng, flat, &item_ty, kind, max_len)
                            })
                            .collect(),
                    )
                }
                _ => {
                    // exactly one special item among correct ones, at a random position
                    let special = match k {
                        "list_item_null" => Outcome::Null,
                        "list_item_err" => Outcome::Err,
                        _ => {
                            let bad: Vec<&str> = item_pool.iter().copied().filter(|x| !matches!(*x, "correct" | "object_right" | "list_ok" | "list_empty" | "null" | "err" | "list_mixed")).collect();
                            if bad.is_empty() {
                                Outcome::Err
                            } else {
                                let kind = *rng.pick(&bad);
                                make_outcome(rng, flat, &item_ty, kind, max_len)
                            }
                        }
                    };
                    let len = rng.range(1, max_len.max(1));
                    let at = rng.below(len);
                    Outcome::List((0..len).map(|i| if i == at { special.clone() } else { ok_item(rng) }).collect())
                }
            }
        }
        _ => Outcome::Err,
    }
}

/// A palette of `n` (kind, outcome) alternatives for one cell: the "correct" kind, null, Err, and
/// other applicable kinds drawn at random (repeating correct variants if the pool is small).
pub fn palette_for(rng: &mut Rng, flat: &FlatSchema, ty: &TyRef, n: usize, max_len: usize) -> Vec<Cell> {
    let pool = pool_for(flat, ty);
    let mut kinds: Vec<&str> = pool.iter().take(3).copied().collect();
    let mut rest: Vec<&str> = pool.iter().skip(3).copied().collect();
    rng.shuffle(&mut rest);
    for k in rest {
        if kinds.len() < n {
            kinds.push(k);
        }
    }
    while kinds.len() < n {
        kinds.push(pool[0]);
    }
    kinds
        .into_iter()
        .map(|k| Cell {
            kind: k.to_string(),
            outcome: make_outcome(rng, flat, ty, k, max_len),
        })
        .collect()
}

/// A random world: each cell correct with probability `p_ok`/10, otherwise any applicable kind.
pub fn random_world(rng: &mut Rng, flat: &FlatSchema, cells: &BTreeMap<(String, String), TyRef>, p_ok: usize, max_len: usize) -> World {
    let mut w = World::default();
    for ((t, f), ty) in cells {
        let pool = pool_for(flat, ty);
        let kind = if rng.chance(p_ok, 10) { pool[0] } else { *rng.pick(&pool) };
        w.set(t, f, kind, make_outcome(rng, flat, ty, kind, max_len));
    }
    w
}

/// Record the outcome kinds of a world (top level and list items) as coverage classes.
pub fn world_kinds(w: &World) -> Vec<String> {
    w.cells.values().map(|c| c.kind.clone()).collect()
}
