//! C01 — Parsing never panics, hangs or overflows the stack.
//!
//! Refuting events: a panic escaping a parse entry point; worker death by signal while a case is
//! in flight (attributed by the orchestrator through the in-flight file); a lexer iterator that
//! yields more than len+2 items or goes backwards; an unusable result tree.

use crate::gen::inputs::TextSource;
use crate::gen::text;
use crate::rt::{self, clip, Ctx};
use apollo_compiler::validation::Valid;
use apollo_compiler::{ast, executable, ExecutableDocument, Schema};
use apollo_parser::{Lexer, Parser};
use serde_json::{json, Value};
use std::sync::OnceLock;

pub const HOST_SCHEMA: &str = r#"
type Query { a: Int, b(x: Int): String, c: T, l: [T!]!, i: I, u: U }
type Mutation { m(x: In): Int }
type Subscription { s: Int }
interface I { id: ID! }
type T implements I { id: ID!, a: Int, t: T, e: E }
union U = T | Query
enum E { A B }
input In { k: Int, n: In, l: [In] }
directive @d(x: [Int], i: In) repeatable on FIELD | QUERY | FRAGMENT_SPREAD | INLINE_FRAGMENT | FRAGMENT_DEFINITION | VARIABLE_DEFINITION | MUTATION | SUBSCRIPTION
"#;

pub fn host_schema() -> &'static Valid<Schema> {
    static S: OnceLock<Valid<Schema>> = OnceLock::new();
    S.get_or_init(|| Schema::parse_and_validate(HOST_SCHEMA, "host.graphql").expect("host schema"))
}

#[derive(Clone, Debug)]
pub struct Case {
    pub text: String,
    pub token_limit: Option<usize>,
    pub recursion_limit: Option<usize>,
}

impl Case {
    pub fn to_json(&self) -> Value {
        json!({"text": self.text, "token_limit": self.token_limit, "recursion_limit": self.recursion_limit})
    }
    pub fn from_json(v: &Value) -> Option<Case> {
        Some(Case {
            text: v.get("text")?.as_str()?.to_string(),
            token_limit: v.get("token_limit").and_then(|x| x.as_u64()).map(|x| x as usize),
            recursion_limit: v
                .get("recursion_limit")
                .and_then(|x| x.as_u64())
                .map(|x| x as usize),
        })
    }
}

fn use_tree<T: apollo_parser::cst::CstNode>(
    tree: &apollo_parser::SyntaxTree<T>,
    root_text: impl FnOnce() -> String,
) -> usize {
    let mut n = 0;
    for e in tree.errors() {
        n += e.message().len() + e.data().len() + e.index();
    }
    n += root_text().len();
    n += tree.recursion_limit().high + tree.token_limit().high;
    n
}

fn lexer_driver(text: &str, limit: Option<usize>) -> Result<(), String> {
    let mut lx = Lexer::new(text);
    if let Some(l) = limit {
        lx = lx.with_limit(l);
    }
    let mut items = 0usize;
    let mut last_index = 0usize;
    let bound = text.len() + 2;
    for item in lx {
        items += 1;
        let idx = match &item {
            Ok(t) => t.index(),
            Err(e) => e.index(),
        };
        if idx < last_index {
            return Err(format!(
                "lexer item index went backwards: {idx} after {last_index}"
            ));
        }
        if idx > text.len() {
            return Err(format!("lexer item index {idx} beyond input length {}", text.len()));
        }
        last_index = idx;
        if items > bound {
            return Err(format!("lexer yielded more than len+2 = {bound} items (no progress)"));
        }
    }
    Ok(())
}

const ENTRIES: &[&str] = &[
    "lexer_lex",
    "lexer_iter",
    "parser_parse",
    "parser_parse_selection_set",
    "parser_parse_type",
    "compiler_parse_ast",
    "compiler_parse_schema",
    "compiler_parse_executable",
    "compiler_parse_type",
    "compiler_parse_field_set",
    "compiler_parse_mixed_validate",
    "static_Document_parse",
    "static_Schema_parse",
    "static_ExecutableDocument_parse",
    "static_Type_parse",
    "static_FieldSet_parse",
];

fn run_entry(entry: &str, c: &Case) -> Result<(), String> {
    let text = c.text.as_str();
    let mk_parser = || {
        let mut p = Parser::new(text);
        if let Some(t) = c.token_limit {
            p = p.token_limit(t);
        }
        if let Some(r) = c.recursion_limit {
            p = p.recursion_limit(r);
        }
        p
    };
    let mk_cparser = || {
        let mut p = apollo_compiler::parser::Parser::new();
        if let Some(t) = c.token_limit {
            p = p.token_limit(t);
        }
        if let Some(r) = c.recursion_limit {
            p = p.recursion_limit(r);
        }
        p
    };
    let q = apollo_compiler::name!("Query");
    match entry {
        "lexer_lex" => {
            let mut lx = Lexer::new(text);
            if let Some(l) = c.token_limit {
                lx = lx.with_limit(l);
            }
            let (toks, errs) = lx.lex();
            std::hint::black_box(toks.len() + errs.len());
        }
        "lexer_iter" => lexer_driver(text, c.token_limit)?,
        "parser_parse" => {
            let tree = mk_parser().parse();
            std::hint::black_box(use_tree(&tree, || {
                let d = tree.document();
                std::hint::black_box(d.definitions().count());
                apollo_parser::cst::CstNode::syntax(&d).to_string()
            }));
        }
        "parser_parse_selection_set" => {
            let tree = mk_parser().parse_selection_set();
            std::hint::black_box(use_tree(&tree, || {
                let d = tree.field_set();
                std::hint::black_box(d.selections().count());
                apollo_parser::cst::CstNode::syntax(&d).to_string()
            }));
        }
        "parser_parse_type" => {
            let tree = mk_parser().parse_type();
            std::hint::black_box(use_tree(&tree, || {
                let d = tree.ty();
                apollo_parser::cst::CstNode::syntax(&d).to_string()
            }));
        }
        "compiler_parse_ast" => {
            let mut p = mk_cparser();
            let r = p.parse_ast(text, "c01.graphql");
            let n = match &r {
                Ok(d) => d.definitions.len(),
                Err(e) => e.partial.definitions.len() + e.errors.len(),
            };
            std::hint::black_box(n + p.recursion_reached() + p.tokens_reached());
        }
        "compiler_parse_schema" => {
            let mut p = mk_cparser();
            let r = p.parse_schema(text, "c01.graphql");
            let n = match &r {
                Ok(s) => s.types.len(),
                Err(e) => e.partial.types.len() + e.errors.len(),
            };
            std::hint::black_box(n);
        }
        "compiler_parse_executable" => {
            let mut p = mk_cparser();
            let r = p.parse_executable(host_schema(), text, "c01.graphql");
            let n = match &r {
                Ok(d) => d.fragments.len(),
                Err(e) => e.partial.fragments.len() + e.errors.len(),
            };
            std::hint::black_box(n);
        }
        "compiler_parse_type" => {
            let mut p = mk_cparser();
            let r = p.parse_type(text, "c01.graphql");
            std::hint::black_box(r.is_ok());
        }
        "compiler_parse_field_set" => {
            let mut p = mk_cparser();
            let r = p.parse_field_set(host_schema(), q, text, "c01.graphql");
            std::hint::black_box(r.is_ok());
        }
        "compiler_parse_mixed_validate" => {
            let mut p = mk_cparser();
            let r = p.parse_mixed_validate(text, "c01.graphql");
            std::hint::black_box(r.is_ok());
        }
        "static_Document_parse" => {
            std::hint::black_box(ast::Document::parse(text, "c01.graphql").is_ok());
        }
        "static_Schema_parse" => {
            std::hint::black_box(Schema::parse(text, "c01.graphql").is_ok());
        }
        "static_ExecutableDocument_parse" => {
            std::hint::black_box(ExecutableDocument::parse(host_schema(), text, "c01.graphql").is_ok());
        }
        "static_Type_parse" => {
            std::hint::black_box(ast::Type::parse(text, "c01.graphql").is_ok());
        }
        "static_FieldSet_parse" => {
            std::hint::black_box(
                executable::FieldSet::parse(host_schema(), q, text, "c01.graphql").is_ok(),
            );
        }
        _ => unreachable!(),
    }
    Ok(())
}

/// What kind of input a violation was found on, for signatures.
fn input_class(text: &str) -> &'static str {
    if text.trim().is_empty() {
        "blank"
    } else if !text.is_ascii() {
        "non-ascii"
    } else {
        "ascii"
    }
}

pub fn check_case(ctx: &mut Ctx, c: &Case, all_entries: bool) {
    ctx.eval();
    let _ = host_schema();
    ctx.inflight("C01", c.to_json().to_string().as_bytes());
    let static_entries = c.token_limit.is_none() && c.recursion_limit.is_none();
    for (i, entry) in ENTRIES.iter().enumerate() {
        let is_static = entry.starts_with("static_");
        if is_static && !static_entries {
            continue;
        }
        // the compiler entry points with default config duplicate the static ones
        if !all_entries && i >= 5 && !is_static && static_entries {
            continue;
        }
        if !all_entries && *entry == "compiler_parse_mixed_validate" && c.text.len() > 4096 {
            continue;
        }
        let t0 = rt::thread_cpu_ns();
        let res = if c.text.len() > 256 {
            rt::on_stack(rt::SMALL_STACK, || run_entry(entry, c))
        } else {
            rt::catch(|| run_entry(entry, c))
        };
        let dt = rt::thread_cpu_ns().saturating_sub(t0);
        ctx.count_max("case_cpu_us", dt / 1000);
        ctx.count("entry_calls", 1);
        match res {
            Ok(Ok(())) => {}
            Ok(Err(msg)) => {
                ctx.violation(
                    format!("progress|{}|{}", entry, rt::mask_message(&msg)),
                    msg,
                    json!({"entry": entry, "case": c.to_json()}),
                );
            }
            Err(p) => {
                let mut sig = p.signature(entry_group(entry));
                sig.push('|');
                sig.push_str(input_class(&c.text));
                ctx.violation(
                    sig,
                    format!("panic in {}: {} at {}:{}", entry, p.message, p.file, p.line),
                    json!({"entry": entry, "case": c.to_json()}),
                );
            }
        }
    }
    ctx.sample(|| json!({"text": clip(&c.text, 160), "token_limit": c.token_limit, "recursion_limit": c.recursion_limit}));
    if c.text.len() <= 64 {
        ctx.nontrivial(&format!("{}|{:?}|{:?}", c.text, c.token_limit, c.recursion_limit));
    } else {
        ctx.nontrivial_hash(
            crate::prng::fnv_str(&c.text)
                ^ (c.token_limit.unwrap_or(usize::MAX) as u64).wrapping_mul(31)
                ^ (c.recursion_limit.unwrap_or(usize::MAX) as u64).wrapping_mul(131),
        );
    }
}

/// Entry points that share a code path share a signature group.
fn entry_group(entry: &str) -> &'static str {
    match entry {
        "lexer_lex" | "lexer_iter" => "lexer",
        "parser_parse" => "parse_document",
        "parser_parse_selection_set" => "parse_selection_set",
        "parser_parse_type" => "parse_type",
        "compiler_parse_type" | "static_Type_parse" => "compiler_type",
        "compiler_parse_field_set" | "static_FieldSet_parse" => "compiler_field_set",
        _ => "compiler_document",
    }
}

fn limits_for(ctx: &mut Ctx, text: &str, n_tokens_hint: usize) -> (Option<usize>, Option<usize>) {
    let rng = &mut ctx.rng;
    let tl = match rng.below(10) {
        0..=4 => None,
        5 => Some(*rng.pick(&[0usize, 1, 2, 3])),
        6 => Some(n_tokens_hint.saturating_sub(1)),
        7 => Some(n_tokens_hint),
        8 => Some(n_tokens_hint + 1),
        _ => Some(rng.below(n_tokens_hint + 2)),
    };
    let rl = match rng.below(10) {
        0..=4 => None,
        5 => Some(*rng.pick(&[0usize, 1, 2, 3])),
        6 => Some(10),
        7 => Some(*rng.pick(&[499usize, 500])),
        8 => Some(rng.below(40)),
        _ => {
            // usize::MAX only with inputs whose nesting is small: no recursive-descent parser can
            // promise stack safety for unbounded recursion limits on unbounded nesting.
            if text::open_bracket_count(text) <= 500 {
                Some(usize::MAX)
            } else {
                None
            }
        }
    };
    (tl, rl)
}

/// Witnesses of defects that were repaired in /repo (known_findings.json "fixed" entries); replayed
/// at the start of every run so that a recurrence is reported.
pub const REGRESSION_TEXTS: &[&str] = &[
    "", " ", "é", "!", "# c", "é a", "\u{0} a", ",", "\u{FEFF}", " Int", "# c\nInt", ", Int", "é Int!", "é [Int]",
    "é { a }", " { a }", "\n", "\u{0}", "\"", "$",
];

pub fn run(ctx: &mut Ctx) {
    let src = TextSource::new();
    ctx.note("corpus_files", json!(src.files.len()));

    // Phase 0: regression witnesses + tiny inputs, all entries, all small limit pairs (shard 0 only
    // for the fixed list; cheap).
    if ctx.shard == 0 {
        for t in REGRESSION_TEXTS {
            for tl in [None, Some(0), Some(1), Some(2)] {
                for rl in [None, Some(0), Some(1)] {
                    let c = Case {
                        text: t.to_string(),
                        token_limit: tl,
                        recursion_limit: rl,
                    };
                    check_case(ctx, &c, true);
                    ctx.class("source", "regression");
                }
            }
        }
    }

    // Phase 0b: every \uXXXX escape inside a string argument and a description, through every
    // entry point (the compiler's conversions decode the string).
    for cp in 0u32..=0xFFFF {
        if ctx.mine(cp as u64) {
            let c = Case {
                text: format!("\"\\u{cp:04X}\" type T {{ f(a: String = \"\\u{cp:04x}\"): Int }} {{ a(x: \"\\u{cp:04X}\") }}"),
                token_limit: None,
                recursion_limit: None,
            };
            check_case(ctx, &c, false);
            ctx.class("source", "unicode_escape_sweep");
        }
    }

    // Phase 1: nesting families at depths around every limit constant.
    let depths: &[usize] = if ctx.quick() {
        &[0, 1, 2, 31, 32, 33, 99, 100, 101, 127, 128, 129, 499, 500, 501, 600, 2000]
    } else {
        &[
            0, 1, 2, 3, 31, 32, 33, 99, 100, 101, 127, 128, 129, 250, 499, 500, 501, 502, 600, 1000,
            2000, 5000, 20000,
        ]
    };
    let mut idx = 0u64;
    for fam in text::NEST_FAMILIES {
        for &d in depths {
            // Stack safety is claimed up to the default limit (500): a user who raises the limit
            // beyond it on deeper input owns the stack budget, so larger limits are capped here.
            let cap = |x: usize| Some(x.min(500));
            let mut rls = vec![None, Some(0), Some(1), cap(d.saturating_sub(1)), cap(d), cap(d + 1), Some(500)];
            rls.dedup();
            for rl in rls {
                for tl in [None, Some(d), Some(3 * d + 2)] {
                    idx += 1;
                    if !ctx.mine(idx) {
                        continue;
                    }
                    if !ctx.until(0.35) {
                        ctx.count("nesting_phase_cases_skipped_over_time_share", 1);
                        continue;
                    }
                    if tl.is_some() && rl.is_some() && rl != Some(d) {
                        continue;
                    }
                    let c = Case {
                        text: text::nested(fam, d),
                        token_limit: tl,
                        recursion_limit: rl,
                    };
                    check_case(ctx, &c, true);
                    ctx.class("source", "nested");
                    ctx.class("nest_family", fam);
                }
            }
        }
    }
    ctx.count_max("max_nesting_depth_exercised", *depths.last().unwrap() as u64);

    // Phase 2: every (thorough) / sampled (quick) char-boundary prefix of corpus files.
    let files = src.files.clone();
    let mut pidx = 0u64;
    'outer: for f in &files {
        let bounds = text::char_boundaries(&f.text);
        let step = if ctx.quick() {
            (bounds.len() / 12).max(1)
        } else {
            (bounds.len() / 400).max(1)
        };
        let mut k = (ctx.seed as usize) % step;
        while k < bounds.len() {
            pidx += 1;
            if ctx.mine(pidx) {
                let c = Case {
                    text: f.text[..bounds[k]].to_string(),
                    token_limit: None,
                    recursion_limit: None,
                };
                check_case(ctx, &c, false);
                ctx.class("source", "corpus_prefix_sweep");
            }
            k += step;
            if !ctx.until(0.6) {
                ctx.note("prefix_sweep_cut_short", json!(true));
                break 'outer;
            }
        }
        pidx += 1;
        if ctx.mine(pidx) {
            let c = Case {
                text: f.text.clone(),
                token_limit: None,
                recursion_limit: None,
            };
            check_case(ctx, &c, true);
        }
    }

    // Phase 3: random hostile inputs with random limits until the budget is used.
    let mut n = 0u64;
    while !ctx.time_up() {
        n += 1;
        let mut rng = ctx.sub_rng("c01-random", n);
        let (kind, text) = src.random(&mut rng);
        let hint = text::crude_tokens(&text).len();
        let (tl, rl) = limits_for(ctx, &text, hint);
        let c = Case {
            text,
            token_limit: tl,
            recursion_limit: rl,
        };
        check_case(ctx, &c, n % 8 == 0);
        ctx.class("source", kind);
        ctx.class(
            "limit_config",
            &format!(
                "tl={} rl={}",
                match tl {
                    None => "none",
                    Some(0..=3) => "tiny",
                    _ => "near-n",
                },
                match rl {
                    None => "default",
                    Some(usize::MAX) => "max",
                    Some(0..=3) => "tiny",
                    _ => "mid",
                }
            ),
        );
        ctx.sample(|| json!({"source": kind, "text": clip(&c.text, 160), "token_limit": tl, "recursion_limit": rl}));
    }
}

pub fn replay(ctx: &mut Ctx, case: &Value) {
    let c = case.get("case").unwrap_or(case);
    if let Some(c) = Case::from_json(c) {
        check_case(ctx, &c, true);
    }
}
