//! C07 — Standalone type and field-set parsing consume the whole input.
//!
//! Refuting event (only this direction is claimed): apollo reports NO error
//! (`Parser::parse_type` / `Parser::parse_selection_set` with empty `errors()`, or
//! `ast::Type::parse` / `executable::FieldSet::parse` / `FieldSet::parse_and_validate` returning
//! `Ok`) while `RefGrammar` says the significant tokens of the input are NOT exactly one `Type` /
//! one selection set (outer braces optional).
//!
//! Workload: `prefix + core + suffix`; cores from a type enumerator (nesting depth ≤ 3) and a
//! selection generator over `c01::HOST_SCHEMA` (so `FieldSet::parse` can type them); prefix and
//! suffix range over ALL token sequences of length 0–2 over an 18-symbol alphabet (exhaustive
//! sub-spaces, see `run`), then random longer ones.

use crate::monitors::c01::host_schema;
use crate::prng::Rng;
use crate::refmodel::grammar::{RefGrammar, RejectInfo};
use crate::rt::{self, clip, Ctx};
use apollo_compiler::{ast, executable};
use apollo_parser::Parser;
use serde_json::{json, Value};

/// The prefix/suffix alphabet of DESIGN §6 C07.
pub const SYMBOLS: &[&str] = &[
    "]", "[", "!", "}", "{", ")", "(", ",", "b", "Int", "\"s\"", "1", "$", "@", "...", ":", "é", "# c\n",
];

#[derive(Clone, Copy, PartialEq, Eq, Debug)]
pub enum Kind {
    Type,
    FieldSet,
}

impl Kind {
    fn as_str(self) -> &'static str {
        match self {
            Kind::Type => "type",
            Kind::FieldSet => "field_set",
        }
    }
}

const TYPE_ENTRIES: &[&str] = &["Parser::parse_type", "ast::Type::parse"];
const FIELD_SET_ENTRIES: &[&str] = &[
    "Parser::parse_selection_set",
    "executable::FieldSet::parse",
    "executable::FieldSet::parse_and_validate",
];

/// Does this entry point report no error on `text`? `Err` = it panicked (C01's finding).
fn apollo_accepts(entry: &str, text: &str) -> Result<bool, rt::PanicReport> {
    rt::catch(|| match entry {
        "Parser::parse_type" => Parser::new(text).parse_type().errors().len() == 0,
        "ast::Type::parse" => ast::Type::parse(text, "c07.graphql").is_ok(),
        "Parser::parse_selection_set" => Parser::new(text).parse_selection_set().errors().len() == 0,
        "executable::FieldSet::parse" => {
            executable::FieldSet::parse(host_schema(), apollo_compiler::name!("Query"), text, "c07.graphql").is_ok()
        }
        "executable::FieldSet::parse_and_validate" => executable::FieldSet::parse_and_validate(
            host_schema(),
            apollo_compiler::name!("Query"),
            text,
            "c07.graphql",
        )
        .is_ok(),
        _ => unreachable!(),
    })
}

fn reference(kind: Kind, text: &str) -> Result<(), RejectInfo> {
    match kind {
        Kind::Type => RefGrammar::check_type(text),
        Kind::FieldSet => RefGrammar::check_field_set(text),
    }
}

pub fn check_case(ctx: &mut Ctx, kind: Kind, text: &str, source: &str) {
    ctx.eval();
    ctx.inflight("C07", json!({"kind": kind.as_str(), "text": text}).to_string().as_bytes());
    ctx.class("source", source);
    let r = reference(kind, text);
    if let Err(e) = &r {
        if e.is_oracle_limit() {
            ctx.count("skipped:reference_nesting_cap", 1);
            return;
        }
    }
    // A lone-surrogate `\uXXXX` escape is lexically valid in Oct 2021 but documented as rejected
    // by apollo: only the claimed direction is checked, and apollo rejecting more is never a
    // finding here, so no special case is needed.
    ctx.class(
        "reference_verdict",
        &format!("{}:{}", kind.as_str(), if r.is_ok() { "accept" } else { "reject" }),
    );
    if let Err(e) = &r {
        ctx.class("reject_site", &format!("{}:{}", kind.as_str(), e.site()));
    }
    let entries = if kind == Kind::Type { TYPE_ENTRIES } else { FIELD_SET_ENTRIES };
    let mut any_accept = false;
    let mut control_char_case = false;
    for entry in entries {
        match apollo_accepts(entry, text) {
            Err(_) => ctx.count("panicked_calls_skipped", 1),
            Ok(false) => {
                ctx.count("apollo_reports_error", 1);
                ctx.class(
                    "entry_outcome",
                    &format!("{entry}:error:reference-{}", if r.is_ok() { "accepts" } else { "rejects" }),
                );
            }
            Ok(true) => {
                any_accept = true;
                ctx.count("apollo_reports_no_error", 1);
                ctx.class(
                    "entry_outcome",
                    &format!("{entry}:no-error:reference-{}", if r.is_ok() { "accepts" } else { "rejects" }),
                );
                if let Err(e) = &r {
                    // A C0 control character inside a comment or string is C03's recorded finding (the
                    // lexer accepts it). It gets its own signature wherever the grammar stumbles over
                    // it, and the same text with those characters replaced by blanks is judged as a
                    // case of its own, so that nothing else hides behind that finding.
                    if let Some((lex_reason, _)) = RefGrammar::first_lexical_error(text).filter(|(r, _)| r.starts_with("lexical:control-character-in-")) {
                        ctx.violation(
                            format!("{entry}|apollo-accepts/oracle-rejects|Token|{lex_reason}"),
                            format!("{entry} reports no error, but the input has a C0 control character inside a comment or string ({lex_reason})"),
                            json!({"kind": kind.as_str(), "text": text, "entry": entry, "source": source}),
                        );
                        control_char_case = true;
                        continue;
                    }
                    ctx.violation(
                        format!("{entry}|apollo-accepts/oracle-rejects|{}|{}", e.production, e.reason),
                        format!(
                            "{entry} reports no error, but the input is not exactly one {}: {} in {} at byte {} (found {})",
                            if kind == Kind::Type { "Type" } else { "selection set" },
                            e.reason,
                            e.production,
                            e.offset,
                            e.found
                        ),
                        json!({"kind": kind.as_str(), "text": text, "entry": entry, "source": source}),
                    );
                }
            }
        }
    }
    if control_char_case && source != "control_chars_replaced_by_blanks" {
        let cleaned: String = text.chars().map(|c| if (c as u32) < 0x20 && !matches!(c, '\t' | '\n' | '\r') { ' ' } else { c }).collect();
        check_case(ctx, kind, &cleaned, "control_chars_replaced_by_blanks");
    }
    if any_accept {
        // the implication's antecedent holds: the oracle's verdict decides the case
        ctx.nontrivial(&format!("{}|{}", kind.as_str(), text));
    }
    if r.is_err() {
        ctx.count("reference_rejects", 1);
    } else {
        ctx.count("reference_accepts", 1);
    }
}

// ---------------------------------------------------------------------------------------------
// cores
// ---------------------------------------------------------------------------------------------

/// All type references over the names {Int, T} with list nesting depth ≤ `max_depth`, each level
/// nullable or non-null: 4 · (2^(d+1) − 1) shapes (60 for depth 3).
pub fn enumerate_types(max_depth: usize) -> Vec<String> {
    let mut all: Vec<String> = Vec::new();
    let mut level: Vec<String> = ["Int", "T"]
        .iter()
        .flat_map(|n| [n.to_string(), format!("{n}!")])
        .collect();
    all.extend(level.iter().cloned());
    for _ in 0..max_depth {
        level = level
            .iter()
            .flat_map(|t| [format!("[{t}]"), format!("[{t}]!")])
            .collect();
        all.extend(level.iter().cloned());
    }
    all
}

/// Fixed selection cores, all typed by `HOST_SCHEMA` on `Query`.
pub const SELECTION_CORES: &[&str] = &[
    "a",
    "{ a }",
    "a b",
    "{ a b }",
    "c { a }",
    "{ c { id t { a } } }",
    "b(x: 1)",
    "x: a",
    "a @d",
    "a @d(x: [1])",
    "... on Query { a }",
    "... { a }",
    "{ ... @d { a } }",
    "i { id ... on T { a } }",
    "u { ... on T { e } __typename }",
    "l { id e }",
];

fn gen_selections(rng: &mut Rng, ty: &str, depth: usize, out: &mut String) {
    // (field, argument, sub-selection type) per HOST_SCHEMA
    let fields: &[(&str, Option<&str>, Option<&str>)] = match ty {
        "Query" => &[
            ("a", None, None),
            ("b", Some("x: 1"), None),
            ("c", None, Some("T")),
            ("l", None, Some("T")),
            ("i", None, Some("I")),
            ("u", None, Some("U")),
            ("__typename", None, None),
        ],
        "T" => &[
            ("id", None, None),
            ("a", None, None),
            ("t", None, Some("T")),
            ("e", None, None),
            ("__typename", None, None),
        ],
        "I" => &[("id", None, None), ("__typename", None, None)],
        _ => &[("__typename", None, None)],
    };
    let n = rng.range(1, 3);
    for k in 0..n {
        if k > 0 {
            out.push(' ');
        }
        // inline fragments
        if depth < 3 && rng.chance(1, 6) {
            let cond = match ty {
                "I" | "U" => "T",
                other => other,
            };
            if rng.bool() {
                out.push_str(&format!("... on {cond} "));
            } else {
                out.push_str("... ");
            }
            if rng.chance(1, 3) {
                out.push_str("@d ");
            }
            out.push_str("{ ");
            gen_selections(rng, cond, depth + 1, out);
            out.push_str(" }");
            continue;
        }
        let mut f = *rng.pick(fields);
        if f.2.is_some() && depth >= 3 {
            f = fields[0];
            if f.2.is_some() {
                f = ("__typename", None, None);
            }
        }
        if rng.chance(1, 6) {
            out.push_str("al: ");
        }
        out.push_str(f.0);
        if let Some(arg) = f.1 {
            if rng.bool() {
                out.push_str(&format!("({arg})"));
            }
        }
        if rng.chance(1, 6) {
            out.push_str(if rng.bool() { " @d" } else { " @d(x: [1, 2])" });
        }
        if let Some(sub) = f.2 {
            out.push_str(" { ");
            gen_selections(rng, sub, depth + 1, out);
            out.push_str(" }");
        }
    }
}

pub fn random_selection_core(rng: &mut Rng) -> String {
    let mut s = String::new();
    gen_selections(rng, "Query", 0, &mut s);
    if rng.chance(1, 3) {
        format!("{{ {s} }}")
    } else {
        s
    }
}

pub fn random_type_core(rng: &mut Rng) -> String {
    let mut t = rng
        .pick_str(&["Int", "T", "String", "on", "ID", "_x", "Foo1"])
        .to_string();
    if rng.bool() {
        t.push('!');
    }
    for _ in 0..rng.below(4) {
        t = format!("[{t}]");
        if rng.bool() {
            t.push('!');
        }
    }
    t
}

// ---------------------------------------------------------------------------------------------
// prefix/suffix spaces
// ---------------------------------------------------------------------------------------------

/// All symbol sequences of length 0..=2 (1 + 18 + 324 = 343).
pub fn sequences_upto2() -> Vec<Vec<&'static str>> {
    let mut v: Vec<Vec<&'static str>> = vec![vec![]];
    for a in SYMBOLS {
        v.push(vec![a]);
    }
    for a in SYMBOLS {
        for b in SYMBOLS {
            v.push(vec![a, b]);
        }
    }
    v
}

fn is_punct(t: &str) -> bool {
    matches!(t, "]" | "[" | "!" | "}" | "{" | ")" | "(" | "," | "$" | "@" | "..." | ":")
}

/// Join prefix symbols, core and suffix symbols. `tight`: no white space where a punctuator makes
/// it unnecessary (the core is treated as starting/ending with whatever its first/last char is).
pub fn join(prefix: &[&str], core: &str, suffix: &[&str], tight: bool) -> String {
    let mut parts: Vec<&str> = Vec::with_capacity(prefix.len() + suffix.len() + 1);
    parts.extend_from_slice(prefix);
    parts.push(core);
    parts.extend_from_slice(suffix);
    let mut s = String::new();
    for (i, p) in parts.iter().enumerate() {
        if i > 0 {
            let prev = parts[i - 1];
            let edge_punct = |t: &str, last: bool| {
                let c = if last { t.chars().last() } else { t.chars().next() };
                c.map(|c| "][!}{)(,$@:".contains(c)).unwrap_or(false)
            };
            let glue = tight
                && (is_punct(prev) || is_punct(p) || edge_punct(prev, true) || edge_punct(p, false))
                && !(prev.ends_with(|c: char| c.is_ascii_digit()) && p.starts_with('.'))
                && !prev.ends_with('\n');
            if !glue && !prev.ends_with('\n') {
                s.push(' ');
            }
        }
        s.push_str(p);
    }
    s
}

/// Witnesses of the known C07 defect (DESIGN §3 row 4) and of related shapes, checked first in
/// every run.
pub const REGRESSION: &[(Kind, &str)] = &[
    (Kind::Type, "Int ]] x"),
    (Kind::Type, "Int!!"),
    (Kind::Type, "Int! !"),
    (Kind::Type, "Int Int"),
    (Kind::Type, "[Int]]"),
    (Kind::Type, "[Int] x"),
    (Kind::Type, "Int { a }"),
    (Kind::Type, "Int \"s\""),
    (Kind::Type, "Int é"),
    (Kind::Type, "Int # c"),
    (Kind::Type, "Int ,"),
    (Kind::FieldSet, "a } b"),
    (Kind::FieldSet, "{ a } b"),
    (Kind::FieldSet, "{ a } { b }"),
    (Kind::FieldSet, "a }"),
    (Kind::FieldSet, "a ]"),
    (Kind::FieldSet, "a $"),
    (Kind::FieldSet, "a 1"),
    (Kind::FieldSet, "a \"s\""),
    (Kind::FieldSet, "{ a } }"),
    (Kind::FieldSet, "{ a } ,"),
    (Kind::FieldSet, "a # c"),
    (Kind::FieldSet, "a(x)"),
    (Kind::FieldSet, "b(x: {k})"),
];

pub fn run(ctx: &mut Ctx) {
    let _ = host_schema();
    if ctx.shard == 0 {
        for (k, t) in REGRESSION {
            check_case(ctx, *k, t, "regression");
        }
    }
    let seqs = sequences_upto2();
    let types = enumerate_types(3);
    ctx.note("type_cores_enumerated", json!(types.len()));
    ctx.note("affix_sequences", json!(seqs.len()));
    let mut idx = 0u64;

    // E1: every core × every one-sided affix (prefix only, suffix only) × both joinings.
    for tight in [false, true] {
        for core in &types {
            for q in &seqs {
                idx += 1;
                if ctx.mine(idx) {
                    check_case(ctx, Kind::Type, &join(q, core, &[], tight), "exhaustive_prefix");
                    check_case(ctx, Kind::Type, &join(&[], core, q, tight), "exhaustive_suffix");
                }
            }
        }
        for core in SELECTION_CORES {
            for q in &seqs {
                idx += 1;
                if ctx.mine(idx) {
                    check_case(ctx, Kind::FieldSet, &join(q, core, &[], tight), "exhaustive_prefix");
                    check_case(ctx, Kind::FieldSet, &join(&[], core, q, tight), "exhaustive_suffix");
                }
            }
        }
    }
    ctx.note("exhaustive_one_sided_complete", json!(true));

    // E1b: one character that Unicode (but not always GraphQL) calls white space or a format/control
    // character, inserted at every character boundary of every core and at both ends, also with an
    // ordinary blank next to it. BOM, tab, CR, LF are ignored tokens; the others are not.
    const SINGLE_CHARS: &[char] = &[
        '\u{0B}', '\u{0C}', '\u{85}', '\u{A0}', '\u{1680}', '\u{2000}', '\u{2003}', '\u{200A}', '\u{2028}', '\u{2029}', '\u{202F}', '\u{205F}', '\u{3000}',
        '\u{FEFF}', '\u{200B}', '\u{0}', '\u{1F}', '\u{7F}', '\r', '\t', '\n',
    ];
    for (kind, cores) in [(Kind::Type, types.iter().map(|s| s.to_string()).collect::<Vec<_>>()), (Kind::FieldSet, SELECTION_CORES.iter().map(|s| s.to_string()).collect::<Vec<_>>())] {
        for core in &cores {
            let mut bounds: Vec<usize> = core.char_indices().map(|(i, _)| i).collect();
            bounds.push(core.len());
            for b in bounds {
                for ch in SINGLE_CHARS {
                    idx += 1;
                    if !ctx.mine(idx) {
                        continue;
                    }
                    for pad in ["", " "] {
                        let text = format!("{}{pad}{ch}{pad}{}", &core[..b], &core[b..]);
                        check_case(ctx, kind, &text, "single_unicode_space_or_control");
                    }
                }
            }
        }
    }

    // E2: a few cores × every (prefix, suffix) pair.
    let pair_type_cores: &[&str] = &["Int", "Int!", "[Int]", "[[T!]]!"];
    let pair_sel_cores: &[&str] = if ctx.quick() { &["a", "{ a }"] } else { &["a", "{ a }", "c { a }", "b(x: 1) @d"] };
    for core in pair_type_cores {
        for p in &seqs {
            for q in &seqs {
                idx += 1;
                if ctx.mine(idx) {
                    check_case(ctx, Kind::Type, &join(p, core, q, false), "exhaustive_pair");
                }
            }
        }
    }
    for core in pair_sel_cores {
        for p in &seqs {
            for q in &seqs {
                idx += 1;
                if ctx.mine(idx) {
                    check_case(ctx, Kind::FieldSet, &join(p, core, q, false), "exhaustive_pair");
                }
            }
        }
    }
    ctx.note("exhaustive_pairs_complete", json!(true));
    ctx.note("exhaustive_phases_budget_fraction_used_shard0", json!((ctx.used() * 100.0).round() / 100.0));
    ctx.note("exhaustive_pair_cores", json!({"type": pair_type_cores, "field_set": pair_sel_cores}));

    // Random: longer affixes, random cores, random separators.
    let mut n = 0u64;
    let extra: &[&str] = &["on", "a", "c", "T", "&", "|", "=", "-1", "1.5", "\"\"\"b\"\"\"", "true", "query", "\u{FEFF}", "#", "..", "\"", "x:", "\u{A0}", "\u{0C}", "\u{2028}", "\u{3000}", "\u{85}"];
    while !ctx.time_up() {
        n += 1;
        let mut rng = ctx.sub_rng("c07-random", n);
        let kind = if rng.bool() { Kind::Type } else { Kind::FieldSet };
        let core = match kind {
            Kind::Type => random_type_core(&mut rng),
            Kind::FieldSet => random_selection_core(&mut rng),
        };
        let affix = |rng: &mut Rng| -> String {
            let len = *rng.pick(&[0usize, 0, 1, 2, 3, 4, 5, 6, 8]);
            let mut s = String::new();
            for _ in 0..len {
                let t = if rng.chance(1, 4) { rng.pick_str(extra) } else { rng.pick_str(SYMBOLS) };
                s.push_str(t);
                s.push_str(rng.pick_str(&[" ", " ", "", "\n", ",", "\t"]));
            }
            s
        };
        let p = affix(&mut rng);
        let q = affix(&mut rng);
        let sep1 = rng.pick_str(&[" ", "", "\n", ","]);
        let sep2 = rng.pick_str(&[" ", "", "\n", ","]);
        let text = format!("{p}{sep1}{core}{sep2}{q}");
        check_case(ctx, kind, &text, "random_affixes");
        ctx.sample(|| json!({"kind": kind.as_str(), "text": clip(&text, 160)}));
    }
}

pub fn replay(ctx: &mut Ctx, case: &Value) {
    let kind = match case.get("kind").and_then(|k| k.as_str()) {
        Some("type") => Kind::Type,
        _ => Kind::FieldSet,
    };
    if let Some(t) = case.get("text").and_then(|t| t.as_str()) {
        check_case(ctx, kind, t, "replay");
    }
}
