//! C14 — Schema validation agrees with the specification.
//!
//! Refuting event: `Schema::parse_and_validate(text, path).is_ok()` differs from
//! `RefSchemaRules(model).is_empty()`.
//!
//! The oracle is `refmodel::schema_rules`: a reference model written in this harness from the
//! October 2021 specification text and graphql-js v16 semantics. It is NOT graphql-js or
//! graphql-core (neither exists offline).
//!
//! Two input paths, counted separately:
//!  (A) model path — documents produced by `schema_gen` and edited by `schema_mut`, printed with
//!      `print_plain` and `print_trivia`; the oracle sees the model, apollo sees the text: judged
//!      end to end independently.
//!  (B) parsed path — corpus files, apollo-smith output and re-parsed prints of model documents,
//!      converted with `from_ast::doc_from_ast` after `ast::Document::parse`; only the validation
//!      logic is independent there.

use crate::corpus;
use crate::gen::from_ast::doc_from_ast;
use crate::gen::model::*;
use crate::gen::schema_gen::{gen_schema, SchemaOpts};
use crate::gen::schema_mut as sm;
use crate::prng::{fnv_str, Rng};
use crate::refmodel::schema_rules as sr;
use crate::rt::{self, clip, Ctx};
use apollo_compiler::{ast, Schema};
use serde_json::{json, Value};

// -------------------------------------------------------------------------------------------------
// JSON codec for the type-system part of a model document (replay files carry the model)
// -------------------------------------------------------------------------------------------------

fn ty_to_json(t: &TyRef) -> Value {
    json!(t.print())
}

fn val_to_json(v: &Val) -> Value {
    match v {
        Val::Null => json!({"k": "null"}),
        Val::Int(i) => json!({"k": "int", "v": i.to_string()}),
        Val::Float(f) => json!({"k": "float", "v": f}),
        Val::Str(s) => json!({"k": "str", "v": s}),
        Val::Bool(b) => json!({"k": "bool", "v": b}),
        Val::Enum(e) => json!({"k": "enum", "v": e}),
        Val::Var(n) => json!({"k": "var", "v": n}),
        Val::List(items) => json!({"k": "list", "v": items.iter().map(val_to_json).collect::<Vec<_>>()}),
        Val::Obj(fs) => json!({"k": "obj", "v": fs.iter().map(|(k, v)| json!([k, val_to_json(v)])).collect::<Vec<_>>()}),
    }
}

fn val_from_json(v: &Value) -> Option<Val> {
    let k = v.get("k")?.as_str()?;
    let x = v.get("v");
    Some(match k {
        "null" => Val::Null,
        "int" => Val::Int(x?.as_str()?.parse().ok()?),
        "float" => Val::Float(x?.as_str()?.to_string()),
        "str" => Val::Str(x?.as_str()?.to_string()),
        "bool" => Val::Bool(x?.as_bool()?),
        "enum" => Val::Enum(x?.as_str()?.to_string()),
        "var" => Val::Var(x?.as_str()?.to_string()),
        "list" => Val::List(x?.as_array()?.iter().map(val_from_json).collect::<Option<Vec<_>>>()?),
        "obj" => Val::Obj(
            x?.as_array()?
                .iter()
                .map(|p| Some((p.get(0)?.as_str()?.to_string(), val_from_json(p.get(1)?)?)))
                .collect::<Option<Vec<_>>>()?,
        ),
        _ => return None,
    })
}

fn dirs_to_json(d: &[DirApp]) -> Value {
    json!(d
        .iter()
        .map(|a| json!({"n": a.name, "a": a.args.iter().map(|(k, v)| json!([k, val_to_json(v)])).collect::<Vec<_>>()}))
        .collect::<Vec<_>>())
}

fn dirs_from_json(v: Option<&Value>) -> Option<Vec<DirApp>> {
    let Some(v) = v else {
        return Some(vec![]);
    };
    v.as_array()?
        .iter()
        .map(|a| {
            Some(DirApp {
                name: a.get("n")?.as_str()?.to_string(),
                args: a
                    .get("a")?
                    .as_array()?
                    .iter()
                    .map(|p| Some((p.get(0)?.as_str()?.to_string(), val_from_json(p.get(1)?)?)))
                    .collect::<Option<Vec<_>>>()?,
            })
        })
        .collect()
}

fn input_to_json(a: &InputDef) -> Value {
    json!({"n": a.name, "t": ty_to_json(&a.ty), "desc": a.desc, "def": a.default.as_ref().map(val_to_json), "d": dirs_to_json(&a.dirs)})
}

fn input_from_json(v: &Value) -> Option<InputDef> {
    Some(InputDef {
        desc: v.get("desc").and_then(|x| x.as_str()).map(|s| s.to_string()),
        name: v.get("n")?.as_str()?.to_string(),
        ty: sm::t(v.get("t")?.as_str()?),
        default: match v.get("def") {
            Some(Value::Null) | None => None,
            Some(x) => Some(val_from_json(x)?),
        },
        dirs: dirs_from_json(v.get("d"))?,
    })
}

fn strs(v: Option<&Value>) -> Vec<String> {
    v.and_then(|x| x.as_array())
        .map(|a| a.iter().filter_map(|s| s.as_str().map(|s| s.to_string())).collect())
        .unwrap_or_default()
}

pub fn doc_to_json(doc: &Doc) -> Value {
    let defs: Vec<Value> = doc
        .defs
        .iter()
        .filter_map(|d| match d {
            Def::Type(t) => Some(json!({
                "def": "type", "kind": t.kind.keyword(), "ext": t.ext, "desc": t.desc, "n": t.name,
                "impl": t.implements, "members": t.members, "d": dirs_to_json(&t.dirs),
                "fields": t.fields.iter().map(|f| json!({"n": f.name, "desc": f.desc, "t": ty_to_json(&f.ty),
                    "args": f.args.iter().map(input_to_json).collect::<Vec<_>>(), "d": dirs_to_json(&f.dirs)})).collect::<Vec<_>>(),
                "values": t.values.iter().map(|x| json!({"n": x.name, "desc": x.desc, "d": dirs_to_json(&x.dirs)})).collect::<Vec<_>>(),
                "inputs": t.input_fields.iter().map(input_to_json).collect::<Vec<_>>(),
            })),
            Def::Directive(dd) => Some(json!({
                "def": "directive", "n": dd.name, "desc": dd.desc, "rep": dd.repeatable, "loc": dd.locations,
                "args": dd.args.iter().map(input_to_json).collect::<Vec<_>>(),
            })),
            Def::Schema(s) => Some(json!({
                "def": "schema", "ext": s.ext, "desc": s.desc, "d": dirs_to_json(&s.dirs),
                "roots": s.roots.iter().map(|(o, t)| json!([o, t])).collect::<Vec<_>>(),
            })),
            _ => None,
        })
        .collect();
    json!(defs)
}

pub fn doc_from_json(v: &Value) -> Option<Doc> {
    let mut doc = Doc::default();
    for d in v.as_array()? {
        let desc = d.get("desc").and_then(|x| x.as_str()).map(|s| s.to_string());
        match d.get("def")?.as_str()? {
            "type" => {
                let kind = match d.get("kind")?.as_str()? {
                    "scalar" => Kind::Scalar,
                    "type" => Kind::Object,
                    "interface" => Kind::Interface,
                    "union" => Kind::Union,
                    "enum" => Kind::Enum,
                    _ => Kind::Input,
                };
                let mut t = TypeDef::new(kind, d.get("n")?.as_str()?);
                t.ext = d.get("ext").and_then(|x| x.as_bool()).unwrap_or(false);
                t.desc = desc;
                t.implements = strs(d.get("impl"));
                t.members = strs(d.get("members"));
                t.dirs = dirs_from_json(d.get("d"))?;
                for f in d.get("fields").and_then(|x| x.as_array()).cloned().unwrap_or_default() {
                    t.fields.push(FieldDef {
                        desc: f.get("desc").and_then(|x| x.as_str()).map(|s| s.to_string()),
                        name: f.get("n")?.as_str()?.to_string(),
                        args: f
                            .get("args")
                            .and_then(|x| x.as_array())
                            .cloned()
                            .unwrap_or_default()
                            .iter()
                            .map(input_from_json)
                            .collect::<Option<Vec<_>>>()?,
                        ty: sm::t(f.get("t")?.as_str()?),
                        dirs: dirs_from_json(f.get("d"))?,
                    });
                }
                for x in d.get("values").and_then(|x| x.as_array()).cloned().unwrap_or_default() {
                    t.values.push(EnumVal {
                        desc: x.get("desc").and_then(|x| x.as_str()).map(|s| s.to_string()),
                        name: x.get("n")?.as_str()?.to_string(),
                        dirs: dirs_from_json(x.get("d"))?,
                    });
                }
                for x in d.get("inputs").and_then(|x| x.as_array()).cloned().unwrap_or_default() {
                    t.input_fields.push(input_from_json(&x)?);
                }
                doc.defs.push(Def::Type(t));
            }
            "directive" => doc.defs.push(Def::Directive(DirectiveDef {
                desc,
                name: d.get("n")?.as_str()?.to_string(),
                args: d
                    .get("args")
                    .and_then(|x| x.as_array())
                    .cloned()
                    .unwrap_or_default()
                    .iter()
                    .map(input_from_json)
                    .collect::<Option<Vec<_>>>()?,
                repeatable: d.get("rep").and_then(|x| x.as_bool()).unwrap_or(false),
                locations: strs(d.get("loc")),
            })),
            "schema" => doc.defs.push(Def::Schema(SchemaDef {
                ext: d.get("ext").and_then(|x| x.as_bool()).unwrap_or(false),
                desc,
                dirs: dirs_from_json(d.get("d"))?,
                roots: d
                    .get("roots")
                    .and_then(|x| x.as_array())
                    .cloned()
                    .unwrap_or_default()
                    .iter()
                    .map(|p| Some((p.get(0)?.as_str()?.to_string(), p.get(1)?.as_str()?.to_string())))
                    .collect::<Option<Vec<_>>>()?,
            })),
            _ => return None,
        }
    }
    Some(doc)
}

// -------------------------------------------------------------------------------------------------
// One case
// -------------------------------------------------------------------------------------------------

#[derive(Clone, Debug)]
pub struct Case {
    /// "model" (path A) or "parsed" (path B)
    pub path: &'static str,
    /// where the document comes from (generator, mutator family, corpus group, smith …)
    pub source: String,
    pub doc: Doc,
    /// path B: the text that was parsed (given to apollo as is). Path A: `None`, texts are printed.
    pub text: Option<String>,
    /// path A: seed of the trivia printer
    pub trivia_seed: u64,
}

impl Case {
    pub fn to_json(&self) -> Value {
        json!({"path": self.path, "source": self.source, "model": doc_to_json(&self.doc), "text": self.text,
               "trivia_seed": self.trivia_seed, "plain": print_plain(&self.doc)})
    }
    pub fn from_json(v: &Value) -> Option<Case> {
        Some(Case {
            path: if v.get("path")?.as_str()? == "parsed" { "parsed" } else { "model" },
            source: v.get("source").and_then(|x| x.as_str()).unwrap_or("replay").to_string(),
            doc: doc_from_json(v.get("model")?)?,
            text: v.get("text").and_then(|x| x.as_str()).map(|s| s.to_string()),
            trivia_seed: v.get("trivia_seed").and_then(|x| x.as_u64()).unwrap_or(0),
        })
    }
}

/// apollo's verdict on a text: `Some(Ok(()))` accepted, `Some(Err(kinds))` rejected with the
/// masked diagnostic messages, `None` when validation panicked (C21's business, counted).
pub fn apollo_verdict(text: &str) -> Option<Result<(), Vec<String>>> {
    let r = rt::catch(|| match Schema::parse_and_validate(text.to_string(), "schema.graphql") {
        Ok(_) => Ok(()),
        Err(e) => {
            let mut kinds: Vec<String> = e.errors.iter().map(|d| mask_diag(&d.error.to_string())).collect();
            kinds.sort();
            kinds.dedup();
            Err(kinds)
        }
    });
    r.ok()
}

/// A diagnostic message with everything between backticks and all digits dropped.
pub fn mask_diag(m: &str) -> String {
    let mut out = String::new();
    let mut in_tick = false;
    for c in m.chars() {
        if c == '`' {
            in_tick = !in_tick;
            if !in_tick {
                out.push('_');
            }
            continue;
        }
        if in_tick || c.is_ascii_digit() {
            continue;
        }
        out.push(if c == '\n' { ' ' } else { c });
        if out.len() > 90 {
            break;
        }
    }
    out
}

#[derive(Clone, Debug, PartialEq)]
pub struct Disagreement {
    pub signature: String,
    pub message: String,
}

/// Signature of a disagreement: (direction, sorted set of rule ids that decide the case, construct
/// class). When the oracle rejects, the classes are those of the deciding rules; when only apollo
/// rejects, the class is the set of masked diagnostic kinds apollo gave.
fn signature(v: &sr::Verdict, apollo: &Result<(), Vec<String>>, note: &str) -> String {
    match apollo {
        Ok(()) if !v.findings.is_empty() && v.findings.iter().all(|f| f.class == "built-in-scalar-extension") => {
            // one root cause whatever the directive rule: the directives that an extension of a
            // built-in scalar applies
            format!("apollo-accepts/oracle-rejects|directive-application-rules|built-in-scalar-extension{note}")
        }
        Ok(()) => {
            let rules: Vec<&str> = v.rule_ids().into_iter().collect();
            let classes: Vec<String> = v.findings.iter().map(|f| format!("{}@{}", f.rule, f.class)).collect();
            format!("apollo-accepts/oracle-rejects|{}|{}{}", rules.join("+"), classes.join("+"), note)
        }
        Err(kinds) => format!("apollo-rejects/oracle-accepts|-|{}{}", kinds.join("+"), note),
    }
}

fn disagreement(doc: &Doc, text: &str, note: &str) -> Option<Disagreement> {
    let v = sr::check_apollo(doc);
    if v.in_dont_care_band() {
        return None;
    }
    let a = apollo_verdict(text)?;
    if a.is_ok() == v.is_empty() {
        return None;
    }
    let sig = signature(&v, &a, note);
    let message = match &a {
        Ok(()) => format!(
            "apollo accepts a document the reference rejects for {}",
            v.findings.iter().map(|f| format!("{} at {}", f.rule, f.class)).collect::<Vec<_>>().join(", ")
        ),
        Err(k) => format!("apollo rejects a document the reference accepts; apollo says: {}", k.join(" / ")),
    };
    Some(Disagreement {
        signature: sig,
        message,
    })
}

/// Greedy reduction of the model: drop definitions, then members, while the disagreement (judged on
/// the plain print) persists with the same direction. The signature is recomputed at the end.
pub fn minimise(doc: &Doc, direction_apollo_accepts: bool) -> Doc {
    // what decides the original case: the reduction may narrow it down, never change it
    let orig_rules = sr::check_apollo(doc).rule_ids();
    let orig_kinds: Vec<String> = match apollo_verdict(&print_plain(doc)) {
        Some(Err(k)) => k,
        _ => vec![],
    };
    let still = |d: &Doc| -> bool {
        if d.defs.is_empty() {
            return false;
        }
        let v = sr::check_apollo(d);
        if v.in_dont_care_band() {
            return false;
        }
        if !v.rule_ids().iter().all(|r| orig_rules.contains(r)) {
            return false;
        }
        match apollo_verdict(&print_plain(d)) {
            Some(a) => {
                if let Err(k) = &a {
                    if !k.iter().all(|x| orig_kinds.contains(x)) {
                        return false;
                    }
                }
                a.is_ok() == direction_apollo_accepts && v.is_empty() != direction_apollo_accepts
            }
            None => false,
        }
    };
    let mut cur = doc.clone();
    let mut budget = 600usize;
    let mut progress = true;
    while progress && budget > 0 {
        progress = false;
        // definitions
        let mut i = 0;
        while i < cur.defs.len() && budget > 0 {
            let mut cand = cur.clone();
            cand.defs.remove(i);
            budget -= 1;
            if still(&cand) {
                cur = cand;
                progress = true;
            } else {
                i += 1;
            }
        }
        // members of definitions
        for di in 0..cur.defs.len() {
            let edits = member_edits(&cur.defs[di]);
            for e in (0..edits).rev() {
                if budget == 0 {
                    break;
                }
                let mut cand = cur.clone();
                if !apply_member_edit(&mut cand.defs[di], e) {
                    continue;
                }
                budget -= 1;
                if still(&cand) {
                    cur = cand;
                    progress = true;
                }
            }
        }
    }
    cur
}

/// Number of single-member removals available on a definition (upper bound; edits are addressed by
/// index and re-validated when applied).
pub fn member_edits(d: &Def) -> usize {
    match d {
        Def::Type(t) => {
            1 + t.dirs.len()
                + t.implements.len()
                + t.members.len()
                + t.values.iter().map(|v| 1 + v.dirs.len()).sum::<usize>()
                + t.input_fields.iter().map(|f| 2 + f.dirs.len()).sum::<usize>()
                + t.fields.iter().map(|f| 1 + f.dirs.len() + f.args.iter().map(|a| 2 + a.dirs.len()).sum::<usize>()).sum::<usize>()
        }
        Def::Directive(dd) => 1 + dd.locations.len() + dd.args.iter().map(|a| 2 + a.dirs.len()).sum::<usize>(),
        Def::Schema(s) => 1 + s.dirs.len() + s.roots.len(),
        _ => 0,
    }
}

pub fn apply_member_edit(d: &mut Def, mut e: usize) -> bool {
    // helper: consume `n` slots, return Some(local index) when `e` falls in them
    fn take(e: &mut usize, n: usize) -> Option<usize> {
        if *e < n {
            Some(*e)
        } else {
            *e -= n;
            None
        }
    }
    fn input_edit(list: &mut Vec<InputDef>, e: &mut usize) -> Option<bool> {
        for i in 0..list.len() {
            if take(e, 1).is_some() {
                list.remove(i);
                return Some(true);
            }
            if take(e, 1).is_some() {
                let had = list[i].default.is_some() || list[i].desc.is_some();
                list[i].default = None;
                list[i].desc = None;
                return Some(had);
            }
            let n = list[i].dirs.len();
            if let Some(k) = take(e, n) {
                list[i].dirs.remove(k);
                return Some(true);
            }
        }
        None
    }
    match d {
        Def::Type(t) => {
            if take(&mut e, 1).is_some() {
                let had = t.desc.is_some();
                t.desc = None;
                return had;
            }
            if let Some(k) = take(&mut e, t.dirs.len()) {
                t.dirs.remove(k);
                return true;
            }
            if let Some(k) = take(&mut e, t.implements.len()) {
                t.implements.remove(k);
                return true;
            }
            if let Some(k) = take(&mut e, t.members.len()) {
                t.members.remove(k);
                return true;
            }
            for i in 0..t.values.len() {
                if take(&mut e, 1).is_some() {
                    t.values.remove(i);
                    return true;
                }
                let n = t.values[i].dirs.len();
                if let Some(k) = take(&mut e, n) {
                    t.values[i].dirs.remove(k);
                    return true;
                }
            }
            if let Some(r) = input_edit(&mut t.input_fields, &mut e) {
                return r;
            }
            for i in 0..t.fields.len() {
                if take(&mut e, 1).is_some() {
                    t.fields.remove(i);
                    return true;
                }
                let n = t.fields[i].dirs.len();
                if let Some(k) = take(&mut e, n) {
                    t.fields[i].dirs.remove(k);
                    return true;
                }
                if let Some(r) = input_edit(&mut t.fields[i].args, &mut e) {
                    return r;
                }
            }
            false
        }
        Def::Directive(dd) => {
            if take(&mut e, 1).is_some() {
                let had = dd.desc.is_some();
                dd.desc = None;
                return had;
            }
            if let Some(k) = take(&mut e, dd.locations.len()) {
                if dd.locations.len() > 1 {
                    dd.locations.remove(k);
                    return true;
                }
                return false;
            }
            input_edit(&mut dd.args, &mut e).unwrap_or(false)
        }
        Def::Schema(s) => {
            if take(&mut e, 1).is_some() {
                let had = s.desc.is_some();
                s.desc = None;
                return had;
            }
            if let Some(k) = take(&mut e, s.dirs.len()) {
                s.dirs.remove(k);
                return true;
            }
            if let Some(k) = take(&mut e, s.roots.len()) {
                if s.roots.len() > 1 {
                    s.roots.remove(k);
                    return true;
                }
            }
            false
        }
        _ => false,
    }
}

// -------------------------------------------------------------------------------------------------
// Judging
// -------------------------------------------------------------------------------------------------

fn kinds_in(doc: &Doc) -> usize {
    let mut ks: Vec<Kind> = Vec::new();
    for d in &doc.defs {
        if let Def::Type(t) = d {
            if !ks.contains(&t.kind) {
                ks.push(t.kind);
            }
        }
    }
    ks.len()
}

/// What `check_case` found out, for callers that feed C15.
pub struct Judged {
    pub oracle_accepts: bool,
    pub dont_care: bool,
    /// texts apollo accepted
    pub accepted_texts: Vec<String>,
}

pub fn check_case(ctx: &mut Ctx, c: &Case) -> Judged {
    ctx.eval();
    let v = sr::check_apollo(&c.doc);
    let mut out = Judged {
        oracle_accepts: v.is_empty(),
        dont_care: v.in_dont_care_band(),
        accepted_texts: vec![],
    };
    ctx.count(&format!("cases_path_{}", c.path), 1);
    if out.dont_care {
        ctx.count("skipped_dont_care_band", 1);
        for b in &v.dont_care {
            ctx.class("dont_care_band_seen", b);
        }
        return out;
    }
    let plain = print_plain(&c.doc);
    let texts: Vec<(&'static str, String)> = match (&c.text, c.path) {
        (Some(t), _) => vec![("given", t.clone())],
        (None, _) => {
            let mut r = Rng::new(c.trivia_seed);
            vec![("plain", plain.clone()), ("trivia", print_trivia(&c.doc, &mut r))]
        }
    };
    let ids = v.rule_ids();
    let set = if c.path == "model" { "rule" } else { "rule_parsed" };
    if v.is_empty() {
        for r in &v.exercised {
            ctx.class(set, &format!("{r}:satisfied"));
        }
        if kinds_in(&c.doc) >= 3 {
            ctx.nontrivial_hash(fnv_str(&plain));
        }
    } else if ids.len() == 1 {
        let r = ids.iter().next().unwrap();
        ctx.class(set, &format!("{r}:violated"));
        ctx.nontrivial_hash(fnv_str(&plain));
    } else {
        ctx.count(&format!("rejected_for_several_rules_path_{}", c.path), 1);
        for r in &ids {
            ctx.class(&format!("{set}_with_others"), &format!("{r}:violated"));
        }
    }
    ctx.class("source", &format!("{}:{}", c.path, c.source.split('/').next().unwrap_or("")));
    ctx.inflight("C14", c.to_json().to_string().as_bytes());
    for (style, text) in &texts {
        ctx.count("texts_judged", 1);
        let Some(a) = apollo_verdict(text) else {
            ctx.count("apollo_panicked_skipped", 1);
            continue;
        };
        ctx.class(
            "verdict",
            &format!("{}:{}:{}", c.path, style, if a.is_ok() { "apollo-accepts" } else { "apollo-rejects" }),
        );
        if a.is_ok() {
            out.accepted_texts.push(text.clone());
        }
        if a.is_ok() == v.is_empty() {
            ctx.count(if a.is_ok() { "agree_accept" } else { "agree_reject" }, 1);
            continue;
        }
        // Disagreement. Minimise on the model when the plain print shows it too.
        let earliness = 1000u64.saturating_sub((ctx.used() * 1000.0) as u64);
        let apollo_accepts = a.is_ok();
        let plain_shows = *style == "plain" || disagreement(&c.doc, &plain, "").is_some();
        if plain_shows {
            let small = minimise(&c.doc, apollo_accepts);
            let small_text = print_plain(&small);
            if let Some(d) = disagreement(&small, &small_text, "") {
                // 1000 - permille of the budget used when this signature was first seen (max over shards)
                ctx.count_max(&format!("earliness_permille|{}", d.signature), earliness);
                ctx.violation(
                    d.signature,
                    d.message,
                    Case {
                        path: c.path,
                        source: format!("{} (minimised)", c.source),
                        doc: small,
                        text: Some(small_text),
                        trivia_seed: 0,
                    }
                    .to_json(),
                );
                continue;
            }
        }
        // only this particular text shows it (trivia / original corpus text): report unreduced
        let note = format!("|only-with-{style}-text");
        let sig = signature(&v, &a, &note);
        ctx.count_max(&format!("earliness_permille|{sig}"), earliness);
        ctx.violation(
            sig,
            format!(
                "apollo {} but the reference {} (visible only on the {style} text, not on the plain print of the same model)",
                if apollo_accepts { "accepts" } else { "rejects" },
                if v.is_empty() { "accepts".to_string() } else { format!("rejects for {:?}", ids) }
            ),
            Case {
                path: c.path,
                source: c.source.clone(),
                doc: c.doc.clone(),
                text: Some(text.clone()),
                trivia_seed: c.trivia_seed,
            }
            .to_json(),
        );
    }
    if ctx.evals % 64 == 1 {
        ctx.sample(|| json!({"path": c.path, "source": c.source, "oracle_rules": ids.iter().collect::<Vec<_>>(), "text": clip(&plain, 300)}));
    }
    out
}

// -------------------------------------------------------------------------------------------------
// Workload (shared with C15)
// -------------------------------------------------------------------------------------------------

pub fn opts_for(rng: &mut Rng) -> SchemaOpts {
    let mut o = SchemaOpts::default();
    o.max_each = *rng.pick(&[1usize, 2, 2, 3, 3, 4]);
    o.renamed_roots = *rng.pick(&[0usize, 2, 5]);
    if rng.chance(1, 6) {
        o.extensions = false;
    }
    if rng.chance(1, 8) {
        o.directives = false;
    }
    o
}

/// The model-path cases of iteration `n`: one valid document, its mutants for `rules_this_round`
/// plus a few random families, one neutral edit, one pair of mutators.
pub fn model_cases(rng: &mut Rng, n: u64, rules_this_round: &[&'static str]) -> Vec<Case> {
    let mut out = Vec::new();
    let o = opts_for(rng);
    let doc = gen_schema(rng, &o);
    let mk = |source: String, doc: Doc, rng: &mut Rng| Case {
        path: "model",
        source,
        doc,
        text: None,
        trivia_seed: rng.next_u64(),
    };
    out.push(mk("generated-valid".into(), doc.clone(), rng));
    for r in rules_this_round {
        if let Some((d, variant)) = sm::mutate_rule(&doc, r, rng) {
            out.push(mk(format!("mutant/{r}/{variant}"), d, rng));
        }
    }
    for _ in 0..2 {
        let m = &sm::MUTATORS[rng.below(sm::MUTATORS.len())];
        if let Some(d) = (m.f)(&doc, rng) {
            out.push(mk(format!("mutant/{}/{}", m.rule, m.variant), d, rng));
        }
    }
    if let Some((d, name)) = sm::neutral(&doc, rng) {
        // a neutral edit followed by a mutator probes the boundary from the valid side
        if n % 3 == 0 {
            let m = &sm::MUTATORS[rng.below(sm::MUTATORS.len())];
            if let Some(d2) = (m.f)(&d, rng) {
                out.push(mk(format!("neutral-then-mutant/{name}/{}", m.rule), d2, rng));
            }
        }
        out.push(mk(format!("neutral/{name}"), d, rng));
    }
    if let Some((d, [a, b])) = sm::mutate_two(&doc, rng) {
        out.push(mk(format!("two-mutants/{a}+{b}"), d, rng));
    }
    out
}

/// Parsed-path case from a text: `None` when the text has syntax errors, holds something the model
/// cannot represent, or has no type-system definition.
pub fn parsed_case(source: String, text: &str) -> Option<Case> {
    let astdoc = rt::catch(|| ast::Document::parse(text.to_string(), "doc.graphql")).ok()?.ok()?;
    let doc = doc_from_ast(&astdoc)?;
    let ts = doc.type_system();
    if ts.defs.is_empty() {
        return None;
    }
    // executable definitions are not part of a type-system document: judge the rest, re-printed
    let text = if ts.defs.len() == doc.defs.len() { text.to_string() } else { print_plain(&ts) };
    Some(Case {
        path: "parsed",
        source,
        doc: ts,
        text: Some(text),
        trivia_seed: 0,
    })
}

pub fn smith_text(rng: &mut Rng) -> Option<String> {
    let n = *rng.pick(&[256usize, 1024, 4096]);
    let bytes = rng.bytes(n);
    let mut u = arbitrary::Unstructured::new(&bytes);
    let k = rng.range(1, 4);
    let doc = rt::catch(|| {
        apollo_smith::DocumentBuilder::new(&mut u)
            .max_scalar_types(k)
            .max_enum_types(k)
            .max_interface_types(k)
            .max_object_types(k + 1)
            .max_union_types(k)
            .max_input_object_types(k)
            .max_directive_definitions(k)
            .max_fragment_definitions(1)
            .max_operation_definitions(1)
            .build()
    })
    .ok()?
    .ok()?;
    rt::catch(|| String::from(doc)).ok()
}

/// Witnesses of defects repaired in /repo (known_findings.json "fixed" entries) and of hand-picked
/// boundary documents; replayed at the start of every run through the parsed path.
pub const REGRESSION_TEXTS: &[(&str, &str)] = &[
    ("kind-mismatched-extension-before-definition", "type Query { a: Int }\nextend union X = Query\ntype X { f: Int }\n"),
    ("kind-mismatched-extension-after-definition", "type Query { a: Int }\ntype X { f: Int }\nextend union X = Query\n"),
    ("kind-mismatched-scalar-extension-before-enum", "type Query { a: E }\nextend scalar E @specifiedBy(url: \"u\")\nenum E { A }\n"),
    ("kind-mismatched-input-extension-before-interface", "type Query { a: I }\nextend input I { x: Int }\ninterface I { f: Int }\n"),
    ("matching-extension-before-definition", "extend type X { g: Int }\ntype Query { a: X }\ntype X { f: Int }\n"),
    ("duplicate-key-in-directive-argument", "directive @d(i: In) on OBJECT\ninput In { a: Int }\ntype Query @d(i: {a: 1, a: 2}) { f: Int }\n"),
    ("implicit-schema-extension", "type Query { a: Int }\ndirective @d on SCHEMA\nextend schema @d\n"),
    ("built-in-directive-redefined-once", "type Query { a: Int @deprecated }\ndirective @deprecated(reason: String) on FIELD_DEFINITION\n"),
];

pub fn run(ctx: &mut Ctx) {
    let rules = sr::rule_ids();
    ctx.note("rule_ids", json!(rules));
    ctx.note("mutator_families", json!(sm::rules_with_mutators().len()));
    ctx.note(
        "oracle",
        json!("refmodel::schema_rules — reference model written in the harness from the October 2021 spec text and graphql-js v16 semantics; not graphql-js/graphql-core"),
    );
    ctx.note(
        "oracle_parameters",
        json!({"validate_default_values": false, "builtin_directive_redefinable_once": true, "typecheck_sdl_directive_values": true}),
    );

    // Phase 0: regression witnesses (shard 0).
    if ctx.shard == 0 {
        for (name, text) in REGRESSION_TEXTS {
            if let Some(c) = parsed_case(format!("regression/{name}"), text) {
                check_case(ctx, &c);
            }
        }
    }

    // Phase 1: parsed path over the corpora.
    let files = corpus::all();
    ctx.note("corpus_files", json!(files.len()));
    for (i, f) in files.iter().enumerate() {
        if !ctx.mine(i as u64) {
            continue;
        }
        match parsed_case(format!("{}/{}", f.group, f.name), &f.text) {
            Some(c) => {
                check_case(ctx, &c);
            }
            None => ctx.count("corpus_files_skipped_syntax_or_no_type_system", 1),
        }
    }

    // Phase 2: model path, quota-driven over the rule ids, with parsed-path side cases.
    let mut n = 0u64;
    let mut next_rule = (ctx.shard as usize * 7) % rules.len();
    while !ctx.time_up() {
        n += 1;
        let mut rng = ctx.sub_rng("c14-model", n);
        // quota: first the rule ids not yet seen violated on this shard, then round-robin
        let mut round: Vec<&'static str> = Vec::new();
        for _ in 0..3 {
            let mut pick = rules[next_rule];
            next_rule = (next_rule + 1) % rules.len();
            if let Some(missing) = rules.iter().find(|r| !ctx.has_class("rule", &format!("{r}:violated")) && !round.contains(r)) {
                if n % 2 == 0 {
                    pick = missing;
                }
            }
            round.push(pick);
        }
        for c in model_cases(&mut rng, n, &round) {
            check_case(ctx, &c);
            // the same model through the parsed path: print, parse with apollo's parser, convert
            if rng.chance(1, 4) {
                let text = print_trivia(&c.doc, &mut rng);
                match parsed_case(format!("reparsed-{}", c.source), &text) {
                    Some(pc) => {
                        check_case(ctx, &pc);
                    }
                    None => ctx.count("reparse_not_convertible", 1),
                }
            }
        }
        if n % 8 == 0 {
            if let Some(text) = smith_text(&mut rng) {
                match parsed_case("smith/generated".into(), &text) {
                    Some(c) => {
                        check_case(ctx, &c);
                    }
                    None => ctx.count("smith_not_convertible", 1),
                }
            }
        }
    }
    ctx.count("model_iterations", n);
}

pub fn replay(ctx: &mut Ctx, case: &Value) {
    let c = case.get("case").unwrap_or(case);
    if let Some(c) = Case::from_json(c) {
        check_case(ctx, &c);
    }
}
