//! C10 — Names, numbers and type references are well-formed.
//!
//! * `Name::new`, `new_static`, `TryFrom<&str | String | &String | Arc<str>>`, `is_valid_syntax` and
//!   serde `Deserialize` accept a string iff the hand-written matcher for `[_A-Za-z][_0-9A-Za-z]*` does;
//! * serde deserialization of `IntValue` / `FloatValue` (documented as "a string in GraphQL
//!   IntValue / FloatValue syntax") accepts iff the hand-written literal-grammar matcher does;
//! * `IntValue::from(i32)` is a valid Int literal with `try_to_i32() == Ok(i)`;
//! * `FloatValue::from(finite f64)` is a valid Float literal, `try_to_f64() == Ok(x)` numerically, and
//!   re-lexes inside `{a(x: <lit>)}` as exactly one Float token;
//! * `Type` -> `Display` -> `Type::parse` is the identity.
//!
//! The matchers below are byte-level state machines written from the October 2021 grammar; they
//! share nothing with apollo-rs.

use crate::prng::Rng;
use crate::rt::{self, clip, Ctx};
use apollo_compiler::ast::{FloatValue, IntValue, Type};
use apollo_compiler::Name;
use serde_json::{json, Value as J};
use std::sync::Arc;

// ------------------------------------------------------------------------------------------------
// Reference matchers
// ------------------------------------------------------------------------------------------------

/// Name :: NameStart NameContinue*
pub fn ref_name(s: &str) -> Result<(), &'static str> {
    let b = s.as_bytes();
    let Some(&first) = b.first() else {
        return Err("empty");
    };
    let start = |c: u8| matches!(c, b'_' | b'A'..=b'Z' | b'a'..=b'z');
    if !start(first) {
        return Err(match first {
            b'0'..=b'9' => "starts-with-digit",
            0x80..=0xff => "starts-with-non-ascii",
            _ => "starts-with-other-ascii",
        });
    }
    for &c in &b[1..] {
        if !(start(c) || c.is_ascii_digit()) {
            return Err(if c >= 0x80 { "continues-with-non-ascii" } else { "continues-with-other-ascii" });
        }
    }
    Ok(())
}

/// IntegerPart :: NegativeSign? 0 | NegativeSign? NonZeroDigit Digit*   — returns the index after it.
fn ref_integer_part(b: &[u8]) -> Result<usize, &'static str> {
    let mut i = 0;
    if b.first() == Some(&b'-') {
        i = 1;
    }
    match b.get(i) {
        None => Err(if i == 0 { "empty" } else { "sign-without-digits" }),
        Some(b'0') => {
            i += 1;
            if matches!(b.get(i), Some(b'0'..=b'9')) {
                return Err("leading-zero");
            }
            Ok(i)
        }
        Some(b'1'..=b'9') => {
            i += 1;
            while matches!(b.get(i), Some(b'0'..=b'9')) {
                i += 1;
            }
            Ok(i)
        }
        Some(b'+') => Err("plus-sign"),
        Some(_) => Err("integer-part-does-not-start-with-digit"),
    }
}

/// IntValue :: IntegerPart   (whole string)
pub fn ref_int(s: &str) -> Result<(), &'static str> {
    let b = s.as_bytes();
    let i = ref_integer_part(b)?;
    if i != b.len() {
        return Err(match b[i] {
            b'.' | b'e' | b'E' => "float-syntax",
            _ => "trailing-characters-after-integer",
        });
    }
    Ok(())
}

/// FloatValue :: IntegerPart FractionalPart ExponentPart | IntegerPart FractionalPart | IntegerPart ExponentPart
pub fn ref_float(s: &str) -> Result<(), &'static str> {
    let b = s.as_bytes();
    let mut i = ref_integer_part(b)?;
    let mut has_frac = false;
    let mut has_exp = false;
    if b.get(i) == Some(&b'.') {
        i += 1;
        let start = i;
        while matches!(b.get(i), Some(b'0'..=b'9')) {
            i += 1;
        }
        if i == start {
            return Err("fraction-without-digits");
        }
        has_frac = true;
    }
    if matches!(b.get(i), Some(b'e' | b'E')) {
        i += 1;
        if matches!(b.get(i), Some(b'+' | b'-')) {
            i += 1;
        }
        let start = i;
        while matches!(b.get(i), Some(b'0'..=b'9')) {
            i += 1;
        }
        if i == start {
            return Err("exponent-without-digits");
        }
        has_exp = true;
    }
    if i != b.len() {
        return Err("trailing-characters-after-number");
    }
    if !has_frac && !has_exp {
        return Err("integer-syntax-without-fraction-or-exponent");
    }
    Ok(())
}

// ------------------------------------------------------------------------------------------------
// Checks
// ------------------------------------------------------------------------------------------------

fn verdict(ok: bool) -> &'static str {
    if ok {
        "accept"
    } else {
        "reject"
    }
}

pub fn check_name(ctx: &mut Ctx, s: &str, leak_ok: bool) {
    ctx.eval();
    let expected = ref_name(s);
    let exp_ok = expected.is_ok();
    if exp_ok {
        ctx.nontrivial(&format!("name|{s}"));
    }
    let mut results: Vec<(&'static str, Option<String>)> = Vec::new();
    let got = |r: Result<Name, String>| r.ok().map(|n| n.as_str().to_string());
    results.push(("Name::new", got(Name::new(s).map_err(|e| e.to_string()))));
    if leak_ok {
        let leaked: &'static str = Box::leak(s.to_string().into_boxed_str());
        results.push(("Name::new_static", got(Name::new_static(leaked).map_err(|e| e.to_string()))));
    }
    results.push(("TryFrom<&str>", got(Name::try_from(s).map_err(|e| e.to_string()))));
    results.push(("TryFrom<String>", got(Name::try_from(s.to_string()).map_err(|e| e.to_string()))));
    let owned = s.to_string();
    results.push(("TryFrom<&String>", got(Name::try_from(&owned).map_err(|e| e.to_string()))));
    results.push(("TryFrom<Arc<str>>", got(Name::try_from(Arc::<str>::from(s)).map_err(|e| e.to_string()))));
    results.push((
        "Name::is_valid_syntax",
        if Name::is_valid_syntax(s) { Some(s.to_string()) } else { None },
    ));
    results.push(("Deserialize(from_value)", got(serde_json::from_value::<Name>(J::String(s.to_string())).map_err(|e| e.to_string()))));
    let quoted = serde_json::to_string(s).expect("json string");
    results.push(("Deserialize(from_str)", got(serde_json::from_str::<Name>(&quoted).map_err(|e| e.to_string()))));
    // One root cause (the shared syntax check) shows through every constructor: group the APIs.
    let total = results.len();
    let mut wrong_accept: Vec<&str> = Vec::new();
    let mut wrong_reject: Vec<&str> = Vec::new();
    for (api, r) in results {
        ctx.count("name_api_calls", 1);
        match (&r, exp_ok) {
            (Some(v), true) => {
                if v != s {
                    ctx.violation(
                        format!("name|{api}|accepted name reads back differently"),
                        format!("{api}({s:?}) gives a Name whose as_str() is {v:?}"),
                        json!({"kind": "name", "input": s}),
                    );
                }
            }
            (None, false) => {}
            (Some(_), false) => wrong_accept.push(api),
            (None, true) => wrong_reject.push(api),
        }
    }
    let api_class = |apis: &[&str]| if apis.len() == total { "every constructor".to_string() } else { apis.join(",") };
    if !wrong_accept.is_empty() {
        ctx.violation(
            format!("name|{}|apollo-accepts ref-rejects|{}", api_class(&wrong_accept), expected.unwrap_err()),
            format!("{} accept {:?}, which is not a GraphQL Name ({})", wrong_accept.join(", "), clip(s, 60), expected.unwrap_err()),
            json!({"kind": "name", "input": s}),
        );
    }
    if !wrong_reject.is_empty() {
        ctx.violation(
            format!("name|{}|apollo-rejects ref-accepts", api_class(&wrong_reject)),
            format!("{} reject {:?}, which matches [_A-Za-z][_0-9A-Za-z]*", wrong_reject.join(", "), clip(s, 60)),
            json!({"kind": "name", "input": s}),
        );
    }
    ctx.class("name_verdict", verdict(exp_ok));
    if let Err(why) = expected {
        ctx.class("name_reject_reason", why);
    }
}

pub fn check_literal(ctx: &mut Ctx, s: &str) {
    ctx.eval();
    let quoted = serde_json::to_string(s).expect("json string");
    // IntValue
    let exp = ref_int(s);
    if exp.is_ok() {
        ctx.nontrivial(&format!("int-literal|{s}"));
    }
    let got_i: [(&str, Option<String>); 2] = [
        ("IntValue::deserialize(from_value)", serde_json::from_value::<IntValue>(J::String(s.to_string())).ok().map(|v| v.as_str().to_string())),
        ("IntValue::deserialize(from_str)", serde_json::from_str::<IntValue>(&quoted).ok().map(|v| v.as_str().to_string())),
    ];
    for (api, r) in got_i {
        judge_literal(ctx, "int", api, s, &exp, r);
    }
    ctx.class("int_literal_verdict", verdict(exp.is_ok()));
    if let Err(w) = exp {
        ctx.class("int_literal_reject_reason", w);
    }
    // FloatValue
    let exp = ref_float(s);
    if exp.is_ok() {
        ctx.nontrivial(&format!("float-literal|{s}"));
    }
    let got_f: [(&str, Option<String>); 2] = [
        ("FloatValue::deserialize(from_value)", serde_json::from_value::<FloatValue>(J::String(s.to_string())).ok().map(|v| v.as_str().to_string())),
        ("FloatValue::deserialize(from_str)", serde_json::from_str::<FloatValue>(&quoted).ok().map(|v| v.as_str().to_string())),
    ];
    for (api, r) in got_f {
        judge_literal(ctx, "float", api, s, &exp, r);
    }
    ctx.class("float_literal_verdict", verdict(exp.is_ok()));
    if let Err(w) = exp {
        ctx.class("float_literal_reject_reason", w);
    }
}

fn judge_literal(ctx: &mut Ctx, which: &str, api: &str, s: &str, exp: &Result<(), &'static str>, got: Option<String>) {
    ctx.count("literal_api_calls", 1);
    let case = json!({"kind": "literal", "input": s});
    match (got, exp) {
        (Some(v), Ok(())) => {
            if v != s {
                ctx.violation(format!("{which}-literal|{api}|accepted literal reads back differently"), format!("{api}({s:?}).as_str() == {v:?}"), case);
            }
        }
        (None, Err(_)) => {}
        (Some(_), Err(why)) => ctx.violation(
            format!("{which}-literal|deserialize|apollo-accepts ref-rejects|{why}"),
            format!("{api} accepts {:?}, which is not in the GraphQL {} literal grammar ({why})", clip(s, 60), if which == "int" { "IntValue" } else { "FloatValue" }),
            case,
        ),
        (None, Ok(())) => ctx.violation(
            format!("{which}-literal|deserialize|apollo-rejects ref-accepts"),
            format!("{api} rejects {:?}, a valid GraphQL {} literal", clip(s, 60), if which == "int" { "IntValue" } else { "FloatValue" }),
            case,
        ),
    }
}

/// Returns None when fine, else (clause, message).
#[inline]
fn i32_fault(i: i32) -> Option<(&'static str, String)> {
    let v = IntValue::from(i);
    let text = v.as_str();
    if ref_int(text).is_err() {
        return Some(("not an Int literal", format!("IntValue::from({i}) prints {text:?}")));
    }
    match v.try_to_i32() {
        Ok(j) if j == i => {}
        other => return Some(("try_to_i32 differs", format!("IntValue::from({i}).try_to_i32() == {other:?}"))),
    }
    None
}

pub fn check_i32(ctx: &mut Ctx, i: i32, record: bool) {
    ctx.eval();
    if record {
        ctx.nontrivial_hash(0x1_0000_0000u64 | (i as u32 as u64));
    }
    let r = rt::catch(|| {
        let f = i32_fault(i);
        if f.is_none() && IntValue::from(i).to_string() != IntValue::from(i).as_str() {
            return Some(("Display differs from as_str", format!("IntValue::from({i})")));
        }
        f
    });
    match r {
        Ok(None) => {}
        Ok(Some((clause, msg))) => ctx.violation(format!("i32|{clause}|{}", i32_class(i)), msg, json!({"kind": "i32", "input": i})),
        Err(p) => ctx.violation(format!("i32|{}", p.signature("IntValue::from")), format!("panic for {i}: {}", p.message), json!({"kind": "i32", "input": i})),
    }
}

fn i32_class(i: i32) -> &'static str {
    match i {
        0 => "zero",
        i32::MIN => "i32::MIN",
        i32::MAX => "i32::MAX",
        x if x < 0 => "negative",
        _ => "positive",
    }
}

fn f64_class(x: f64) -> &'static str {
    if x == 0.0 {
        if x.is_sign_negative() {
            "negative-zero"
        } else {
            "zero"
        }
    } else if x.is_subnormal() {
        "subnormal"
    } else if x.abs() >= 1e21 {
        "huge"
    } else if x.abs() < 1e-7 {
        "tiny"
    } else if x.fract() == 0.0 {
        "integer-valued"
    } else {
        "ordinary"
    }
}

fn lex_as_one_float(lit: &str) -> Result<(), String> {
    use apollo_parser::TokenKind as K;
    let src = format!("{{a(x: {lit})}}");
    let (tokens, errors) = apollo_parser::Lexer::new(&src).lex();
    if let Some(e) = errors.first() {
        return Err(format!("lexer error: {}", e.message()));
    }
    let kinds: Vec<K> = tokens.iter().map(|t| t.kind()).filter(|k| !matches!(k, K::Whitespace | K::Eof)).collect();
    let want = [K::LCurly, K::Name, K::LParen, K::Name, K::Colon, K::Float, K::RParen, K::RCurly];
    if kinds != want {
        return Err(format!("token kinds {kinds:?}"));
    }
    let f = tokens.iter().find(|t| t.kind() == K::Float).unwrap();
    if f.data() != lit {
        return Err(format!("Float token text {:?}", clip(f.data(), 60)));
    }
    Ok(())
}

pub fn check_f64(ctx: &mut Ctx, x: f64, class: &str) {
    if !x.is_finite() {
        return;
    }
    ctx.eval();
    // the evidence keeps at most F64_HASH_CAP distinct-value hashes per worker (memory of the
    // orchestrator); the rest is counted in `f64_values_checked`
    if F64_HASHES.fetch_add(1, std::sync::atomic::Ordering::Relaxed) < F64_HASH_CAP {
        ctx.nontrivial_hash(x.to_bits() ^ 0x9e37_79b9_7f4a_7c15);
    }
    let case = json!({"kind": "f64", "bits": x.to_bits().to_string(), "display": format!("{x:e}")});
    let r = rt::catch(|| -> Option<(&'static str, String)> {
        let v = FloatValue::from(x);
        let text = v.as_str().to_string();
        if v.to_string() != text {
            return Some(("Display differs from as_str", String::new()));
        }
        if let Err(why) = ref_float(&text) {
            return Some(("not a Float literal", format!("prints {:?}: {why}", clip(&text, 80))));
        }
        match v.try_to_f64() {
            Ok(y) if y == x => {}
            Ok(y) => return Some(("try_to_f64 differs", format!("prints {:?}, converts back to {y:e}", clip(&text, 80)))),
            Err(e) => return Some(("try_to_f64 fails", format!("prints {:?}, try_to_f64: {e}", clip(&text, 80)))),
        }
        if let Err(why) = lex_as_one_float(&text) {
            return Some(("does not re-lex as one Float token", format!("{:?}: {why}", clip(&text, 80))));
        }
        None
    });
    match r {
        Ok(None) => {}
        Ok(Some((clause, msg))) => ctx.violation(format!("f64|{clause}|{}", f64_class(x)), format!("FloatValue::from({x:e}) {msg}"), case),
        // the assertion message is the offending text itself: keep only the site in the signature
        Err(p) => ctx.violation(format!("f64|panic in FloatValue::from or try_to_f64|{}", rt::short_file(&p.file)), format!("panic for {x:e}: {} at {}:{}", p.message, p.file, p.line), case),
    }
    let _ = class;
}

static F64_HASHES: std::sync::atomic::AtomicU64 = std::sync::atomic::AtomicU64::new(0);
const F64_HASH_CAP: u64 = 50_000;

/// `wraps`: innermost first; 'l' = List, 'L' = NonNullList.
fn build_type(base: &str, nonnull: bool, wraps: &str) -> Type {
    let n = Name::new(base).expect("type name");
    let mut t = if nonnull { Type::NonNullNamed(n) } else { Type::Named(n) };
    for w in wraps.chars() {
        t = if w == 'L' { Type::NonNullList(Box::new(t)) } else { Type::List(Box::new(t)) };
    }
    t
}

pub fn check_type(ctx: &mut Ctx, base: &str, nonnull: bool, wraps: &str) {
    ctx.eval();
    let t = build_type(base, nonnull, wraps);
    let text = t.to_string();
    ctx.nontrivial(&format!("type|{text}"));
    let case = json!({"kind": "type", "base": base, "nonnull": nonnull, "wraps": wraps});
    // independent expectation of the printed form
    let mut want = format!("{base}{}", if nonnull { "!" } else { "" });
    for w in wraps.chars() {
        want = format!("[{want}]{}", if w == 'L' { "!" } else { "" });
    }
    if text != want {
        ctx.count("type_display_differs_from_expected_text", 1);
    }
    match rt::catch(|| Type::parse(text.as_str(), "c10.graphql")) {
        Ok(Ok(back)) => {
            if back != t {
                ctx.violation(
                    format!("type|parses back to a different type|depth-class {}", depth_class(wraps.len())),
                    format!("{t:?} prints {text:?}, which parses back to {back:?}"),
                    case,
                );
            }
        }
        Ok(Err(e)) => {
            let first = e.iter().next().map(|d| d.error.to_string()).unwrap_or_default();
            ctx.violation(
                format!("type|printed form does not parse|depth-class {}", depth_class(wraps.len())),
                format!("{t:?} prints {text:?}: {first}"),
                case,
            );
        }
        Err(p) => ctx.violation(format!("type|{}", p.signature("Type::parse")), format!("Type::parse({text:?}) panicked: {}", p.message), case),
    }
    ctx.class("type_list_depth", &wraps.len().to_string());
}

fn depth_class(d: usize) -> &'static str {
    match d {
        0 => "named",
        1 => "list",
        _ => "nested-list",
    }
}

// ------------------------------------------------------------------------------------------------
// Workload
// ------------------------------------------------------------------------------------------------

pub const NAME_ALPHABET: &[char] = &['a', 'Z', '_', '0', '9', 'é', '-', ' '];
pub const LITERAL_ALPHABET: &[char] = &['0', '1', '9', '-', '+', '.', 'e', 'E', 'a', ' '];

fn nth(alphabet: &[char], mut i: u64, len: usize) -> String {
    let mut s = String::with_capacity(len * 2);
    for _ in 0..len {
        s.push(alphabet[(i % alphabet.len() as u64) as usize]);
        i /= alphabet.len() as u64;
    }
    s
}

const EXTRA_NAMES: &[&str] = &[
    "", "_", "__", "a", "A", "0", "é", "aé", "a-b", "a b", " a", "a ", "a\n", "\na", "a\u{0}", "\u{feff}a", "a.b", "a!", "$a", "@a",
    "true", "null", "on", "query", "__typename", "Ünicode", "aÜ", "a\u{301}", "ａ", "a１", "𝐚", "a🚀", "名前", "a\t", "a,b", "a#b",
];

const EXTRA_LITERALS: &[&str] = &[
    "", "0", "-0", "00", "01", "-01", "1", "-1", "+1", "10", "-", "--1", "1-", "1.", "1.0", "1.e5", "1e", "1e+", "1e-", "1e5", "1E5", "1e+5", "1e-5",
    "1e05", "1.5e+10", "1.0e", "1.0e+", "1.0E-", "0x10", "0.0", "-0.0", ".5", "-.5", "1..0", "1.0.0", "1e5e5", "1e5.0", "1.0e5.0", "1_000", "１", "1é",
    " 1", "1 ", "1\n", "1.0 ", "1e5 ", "0e0", "0E0", "-0e-0", "00.0", "01.0", "01e5", "1.e", "e5", "E", "1ee5", "1e++5", "NaN", "inf", "Infinity",
    "1.7976931348623157e308", "1e999", "9999999999999999999999", "-9223372036854775808", "0.1e", "0.e1", "1.0f", "1.0F", "1f", "1L",
];

fn f64_specials() -> Vec<(f64, &'static str)> {
    let mut v: Vec<(f64, &'static str)> = vec![
        (0.0, "zero"),
        (-0.0, "negative-zero"),
        (f64::MIN_POSITIVE, "min-positive"),
        (-f64::MIN_POSITIVE, "min-positive"),
        (f64::MAX, "max"),
        (f64::MIN, "max"),
        (f64::EPSILON, "epsilon"),
        (f64::from_bits(1), "subnormal"),
        (-f64::from_bits(1), "subnormal"),
        (f64::from_bits(0x000f_ffff_ffff_ffff), "subnormal"),
        (1.0, "integer-valued"),
        (-1.0, "integer-valued"),
        (0.1, "ordinary"),
        (1e15, "integer-valued"),
        (1e16, "integer-valued"),
        (1e21, "huge"),
        (1e22, "huge"),
        (9007199254740992.0, "integer-valued"),
        (9007199254740993.0, "integer-valued"),
        (0.000001, "ordinary"),
        (0.0000001, "tiny"),
        (1e-7, "tiny"),
        (123456789.123456789, "ordinary"),
        (5e-324, "subnormal"),
        (2.2250738585072011e-308, "subnormal"),
        (1.7976931348623157e308, "max"),
    ];
    for k in -1074..=1023 {
        let x = 2f64.powi(k);
        v.push((x, "power-of-2"));
        v.push((-x, "power-of-2"));
    }
    for k in -323..=308 {
        if let Ok(x) = format!("1e{k}").parse::<f64>() {
            v.push((x, "power-of-10"));
            v.push((-x, "power-of-10"));
            // neighbours of powers of ten (shortest-representation edge cases)
            v.push((f64::from_bits(x.to_bits() + 1), "power-of-10-neighbour"));
            v.push((f64::from_bits(x.to_bits().wrapping_sub(1)), "power-of-10-neighbour"));
        }
    }
    v
}

fn random_f64(rng: &mut Rng) -> (f64, &'static str) {
    match rng.below(10) {
        0..=5 => (f64::from_bits(rng.next_u64()), "random-bits"),
        6 => (f64::from_bits(rng.next_u64() & 0x800f_ffff_ffff_ffff), "subnormal"),
        7 => {
            // values printing with 300+ digits: magnitude >= 1e299 or <= 1e-299
            let e = if rng.bool() { rng.range(2040 - 50, 2046) } else { rng.range(1, 30) } as u64;
            let bits = (rng.next_u64() & 0x800f_ffff_ffff_ffff) | (e << 52);
            (f64::from_bits(bits), "300+-digits")
        }
        8 => ((rng.next_u64() >> rng.below(64)) as i64 as f64, "integer-valued"),
        _ => {
            let digits = rng.range(1, 17);
            let m = (rng.next_u64() % 10u64.pow(digits as u32)) as f64;
            let e = rng.range(0, 40) as i32 - 20;
            (m * 10f64.powi(e), "decimal")
        }
    }
}

pub fn run(ctx: &mut Ctx) {
    // Phase 1: names — exhaustive over 8 symbols up to length 5, plus empty, odd and long ones.
    let mut idx = 0u64;
    for len in 0..=5usize {
        for i in 0..(NAME_ALPHABET.len() as u64).pow(len as u32) {
            idx += 1;
            if ctx.mine(idx) {
                check_name(ctx, &nth(NAME_ALPHABET, i, len), true);
            }
        }
    }
    ctx.class("exhaustive", "names:len<=5");
    // every BMP scalar (and a stride of the astral planes) as the only and as the second character
    let mut idx = 0u64;
    let astral = (0x10000u32..0x110000).step_by(251);
    for cp in (0u32..0x10000).chain(astral) {
        let Some(c) = char::from_u32(cp) else { continue };
        idx += 1;
        if ctx.mine(idx) {
            check_name(ctx, &c.to_string(), true);
            check_name(ctx, &format!("a{c}"), true);
            check_name(ctx, &format!("_{c}_"), false);
        }
    }
    ctx.class("exhaustive", "names:every BMP scalar as first/second character");
    if ctx.shard == 0 {
        for s in EXTRA_NAMES {
            check_name(ctx, s, true);
        }
        for n in [255usize, 256, 65535, 65536, 1_000_000] {
            let long = "a".repeat(n);
            check_name(ctx, &long, true);
            check_name(ctx, &format!("{long}é"), false);
            check_name(ctx, &format!("{long}-"), false);
            check_name(ctx, &format!("_{long}9"), false);
            ctx.count_max("longest_name_bytes", n as u64 + 2);
        }
    }

    // Phase 2: numeric-literal deserialization — exhaustive over 10 symbols up to length 5 (6 thorough).
    let lit_len = if ctx.quick() { 5 } else { 6 };
    let mut idx = 0u64;
    for len in 0..=lit_len {
        for i in 0..(LITERAL_ALPHABET.len() as u64).pow(len as u32) {
            idx += 1;
            if ctx.mine(idx) {
                check_literal(ctx, &nth(LITERAL_ALPHABET, i, len));
            }
        }
    }
    ctx.class("exhaustive", &format!("literals:len<={lit_len}"));
    if ctx.shard == 0 {
        for s in EXTRA_LITERALS {
            check_literal(ctx, s);
        }
        for n in [100usize, 400, 5000] {
            check_literal(ctx, &"9".repeat(n));
            check_literal(ctx, &format!("1.{}", "0".repeat(n)));
            check_literal(ctx, &format!("1e{}", "9".repeat(n)));
            check_literal(ctx, &format!("-{}e", "9".repeat(n)));
        }
    }

    // Phase 3: type references over two names, every non-null combination, to list depth 4 (8 thorough).
    let max_depth = if ctx.quick() { 4 } else { 8 };
    let mut idx = 0u64;
    for base in ["A", "b_1"] {
        for nonnull in [false, true] {
            for depth in 0..=max_depth {
                for m in 0..(1u32 << depth) {
                    idx += 1;
                    if !ctx.mine(idx) {
                        continue;
                    }
                    let wraps: String = (0..depth).map(|k| if m >> k & 1 == 1 { 'L' } else { 'l' }).collect();
                    check_type(ctx, base, nonnull, &wraps);
                }
            }
        }
    }
    ctx.class("exhaustive", &format!("types:2 names x list depth<={max_depth}"));

    // Phase 4: i32.
    for i in [0, 1, -1, 9, 10, -9, -10, i32::MAX, i32::MIN, i32::MAX - 1, i32::MIN + 1, 1_000_000_000, -1_000_000_000, 999_999_999, 2_147_483_640] {
        check_i32(ctx, i, true);
    }
    if ctx.quick() {
        let per_shard = 1_000_000 / ctx.nshards.max(1);
        for n in 0..per_shard {
            let mut rng = ctx.sub_rng("c10-i32", n);
            let i = match n % 4 {
                0 => (rng.next_u32() >> rng.below(32)) as i32,
                1 => -((rng.next_u32() >> rng.below(32)) as i64) as i32,
                _ => rng.next_u32() as i32,
            };
            check_i32(ctx, i, true);
        }
        ctx.class("i32_space", "boundaries+10^6 random");
    } else {
        // ALL 2^32 values, sharded; only counted (2^32 hashes would not fit).
        let mut u: u64 = ctx.shard;
        let step = ctx.nshards.max(1);
        let mut done: u64 = 0;
        let mut complete = true;
        while u < (1u64 << 32) {
            // chunks run under catch_unwind: a debug assertion inside `From<i32>` is a finding,
            // not a harness crash
            let chunk_end = (u + step * (1 << 20)).min(1u64 << 32);
            let start = u;
            let r = rt::catch(|| {
                let mut faults = Vec::new();
                let mut v = start;
                let mut k = 0u64;
                while v < chunk_end {
                    let i = v as u32 as i32;
                    if let Some(f) = i32_fault(i) {
                        if faults.len() < 16 {
                            faults.push((i, f));
                        }
                    }
                    k += 1;
                    v += step;
                }
                (faults, k, v)
            });
            match r {
                Ok((faults, k, v)) => {
                    for (i, (clause, msg)) in faults {
                        ctx.violation(format!("i32|{clause}|{}", i32_class(i)), msg, json!({"kind": "i32", "input": i}));
                    }
                    done += k;
                    u = v;
                }
                Err(_) => {
                    // locate the panicking value one by one
                    let mut v = start;
                    while v < chunk_end {
                        check_i32(ctx, v as u32 as i32, false);
                        ctx.evals -= 1;
                        done += 1;
                        v += step;
                    }
                    u = v;
                }
            }
            if ctx.used() > 3.0 && u < (1u64 << 32) {
                complete = false;
                break;
            }
        }
        ctx.evals += done;
        ctx.count("i32_values_checked_exhaustively", done);
        if complete {
            ctx.class("exhaustive", "i32:all 2^32 values");
        } else {
            ctx.inconclusive("i32 enumeration did not finish within 3x the budget", json!({"shard": ctx.shard, "done": done}));
        }
    }

    // Phase 5: f64 — specials (sharded), then random finite values until the budget is used.
    for (k, (x, class)) in f64_specials().into_iter().enumerate() {
        if ctx.mine(k as u64) {
            check_f64(ctx, x, class);
            ctx.class("f64_class", class);
            ctx.class("f64_magnitude", f64_class(x));
        }
    }
    let mut n = 0u64;
    let min_random: u64 = if ctx.quick() { 200_000 } else { 10_000_000 } / ctx.nshards.max(1);
    while !ctx.time_up() || (n < min_random && ctx.used() < 3.0) {
        n += 1;
        let mut rng = ctx.sub_rng("c10-f64", n);
        let (x, class) = random_f64(&mut rng);
        if !x.is_finite() {
            continue;
        }
        check_f64(ctx, x, class);
        if n % 64 == 0 {
            ctx.class("f64_class", class);
            ctx.class("f64_magnitude", f64_class(x));
            let len = rt::catch(|| FloatValue::from(x).as_str().len() as u64).unwrap_or(0);
            ctx.count_max("longest_float_literal", len);
            // judged with std's own printing, not with the code under test
            if x.to_string().len() >= 300 {
                ctx.class("f64_class", "printed-with-300+-chars");
            }
        }
        if n % 4096 == 0 {
            let lit = rt::catch(|| FloatValue::from(x).as_str().to_string()).unwrap_or_default();
            ctx.sample(|| json!({"kind": "f64", "value": format!("{x:e}"), "literal": clip(&lit, 80)}));
        }
    }
    ctx.count("f64_random_values_checked", n);
}

pub fn replay(ctx: &mut Ctx, case: &J) {
    match case.get("kind").and_then(|k| k.as_str()) {
        Some("name") => {
            if let Some(s) = case.get("input").and_then(|s| s.as_str()) {
                check_name(ctx, s, true);
            }
        }
        Some("literal") => {
            if let Some(s) = case.get("input").and_then(|s| s.as_str()) {
                check_literal(ctx, s);
            }
        }
        Some("i32") => {
            if let Some(i) = case.get("input").and_then(|s| s.as_i64()) {
                check_i32(ctx, i as i32, true);
            }
        }
        Some("f64") => {
            if let Some(b) = case.get("bits").and_then(|s| s.as_str()).and_then(|s| s.parse::<u64>().ok()) {
                check_f64(ctx, f64::from_bits(b), "replay");
            }
        }
        Some("type") => {
            let base = case.get("base").and_then(|s| s.as_str()).unwrap_or("A");
            let nonnull = case.get("nonnull").and_then(|s| s.as_bool()).unwrap_or(false);
            let wraps = case.get("wraps").and_then(|s| s.as_str()).unwrap_or("");
            check_type(ctx, base, nonnull, wraps);
        }
        _ => {}
    }
}
