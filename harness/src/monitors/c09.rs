//! C09 — String values and descriptions survive serialization.
//!
//! A Unicode string `S` is placed PROGRAMMATICALLY (AST values, no parsing) in every description
//! slot and every string-value slot of a host document (plain, inside a list, inside an object,
//! nested deeper), the host is serialized with every C08 configuration, re-parsed, and every slot is
//! read back: it must be exactly `S`.
//!
//! Oracle: the identity on strings (the property itself). Slots are located by the harness's own
//! walk over the AST (`astgen::collect_strings`), in both the host and the re-parsed document.

use crate::gen::astgen::{self, name, Indent, SerCfg};
use crate::prng::Rng;
use crate::rt::{self, clip, Ctx};
use apollo_compiler::ast::{self, Definition as D, Type, Value};
use apollo_compiler::Node;
use serde_json::{json, Value as J};
use std::collections::BTreeMap;

/// The configurations with distinct behaviour (C08's list without exact duplicates).
pub fn configs() -> Vec<SerCfg> {
    let mut v = vec![
        SerCfg::default_cfg(),
        SerCfg { indent: Indent::None, level: None },
        SerCfg { indent: Indent::None, level: Some(3) },
    ];
    for p in astgen::PREFIXES {
        for &l in astgen::LEVELS {
            v.push(SerCfg { indent: Indent::Prefix(p.to_string()), level: Some(l) });
        }
    }
    v
}

/// Hands out `S` for every slot, or `S` for slot `only` and a benign string elsewhere.
struct Slots<'s> {
    s: &'s str,
    only: Option<usize>,
    next: usize,
}

impl Slots<'_> {
    fn take(&mut self) -> String {
        let k = self.next;
        self.next += 1;
        match self.only {
            Some(o) if o != k => "x".to_string(),
            _ => self.s.to_string(),
        }
    }
    fn desc(&mut self) -> Option<Node<str>> {
        Some(Node::new_str(&self.take()))
    }
    fn val(&mut self) -> Node<Value> {
        Node::new(Value::String(self.take()))
    }
    fn list(&mut self) -> Node<Value> {
        Node::new(Value::List(vec![self.val(), Node::new(Value::Int(ast::IntValue::new_parsed("1"))), self.val()]))
    }
    fn object(&mut self) -> Node<Value> {
        Node::new(Value::Object(vec![(name("k"), self.val()), (name("n"), Node::new(Value::Null)), (name("k2"), self.val())]))
    }
    /// `{k: [S, {k: S}], l: [[S]]}`
    fn deep(&mut self) -> Node<Value> {
        let inner_obj = Node::new(Value::Object(vec![(name("k"), self.val())]));
        let l1 = Node::new(Value::List(vec![self.val(), inner_obj]));
        let l2 = Node::new(Value::List(vec![Node::new(Value::List(vec![self.val()]))]));
        Node::new(Value::Object(vec![(name("k"), l1), (name("l"), l2)]))
    }
    fn arg(&mut self, n: &str, v: Node<Value>) -> Node<ast::Argument> {
        let _ = &self.s;
        Node::new(ast::Argument { name: name(n), value: v })
    }
    /// `@d(a: S, l: [S, 1, S], o: {k: S, n: null, k2: S}, deep: {...})`
    fn dir_full(&mut self) -> ast::DirectiveList {
        let a = self.val();
        let l = self.list();
        let o = self.object();
        let d = self.deep();
        ast::DirectiveList(vec![Node::new(ast::Directive {
            name: name("d"),
            arguments: vec![self.arg("a", a), self.arg("l", l), self.arg("o", o), self.arg("deep", d)],
        })])
    }
    /// `@d(a: S)`
    fn dir1(&mut self) -> ast::DirectiveList {
        let a = self.val();
        ast::DirectiveList(vec![Node::new(ast::Directive { name: name("d"), arguments: vec![self.arg("a", a)] })])
    }
    fn ivd(&mut self, n: &str, default: Option<Node<Value>>, with_dir: bool, with_desc: bool) -> Node<ast::InputValueDefinition> {
        let description = if with_desc { self.desc() } else { None };
        let directives = if with_dir { self.dir1() } else { ast::DirectiveList::default() };
        Node::new(ast::InputValueDefinition {
            description,
            name: name(n),
            ty: Node::new(Type::Named(name("String"))),
            default_value: default,
            directives,
        })
    }
}

fn none_dirs() -> ast::DirectiveList {
    ast::DirectiveList::default()
}

/// The host document. Every description slot and every string value is taken from `slots`.
fn build_host(sl: &mut Slots) -> ast::Document {
    let mut d = ast::Document::new();
    let string_ty = || Type::Named(name("String"));
    // schema definition: description + directive arguments
    d.definitions.push(D::SchemaDefinition(Node::new(ast::SchemaDefinition {
        description: sl.desc(),
        directives: sl.dir1(),
        root_operations: vec![Node::new((ast::OperationType::Query, name("T")))],
    })));
    // object type: description, directive application (plain/list/object/deep), field and
    // argument descriptions, argument default values
    {
        let description = sl.desc();
        let directives = sl.dir_full();
        let f_desc = sl.desc();
        let dv = sl.val();
        let a1 = sl.ivd("a", Some(dv), true, true);
        let dl = sl.list();
        let a2 = sl.ivd("l", Some(dl), false, false);
        let dobj = sl.object();
        let a3 = sl.ivd("o", Some(dobj), false, true);
        let f_dirs = sl.dir1();
        // a field whose arguments carry no description/directive (single-line argument list)
        let g_dv = sl.val();
        let g_a = sl.ivd("a", Some(g_dv), false, false);
        let g_desc = sl.desc();
        d.definitions.push(D::ObjectTypeDefinition(Node::new(ast::ObjectTypeDefinition {
            description,
            name: name("T"),
            implements_interfaces: vec![],
            directives,
            fields: vec![
                Node::new(ast::FieldDefinition {
                    description: f_desc,
                    name: name("f"),
                    arguments: vec![a1, a2, a3],
                    ty: string_ty(),
                    directives: f_dirs,
                }),
                Node::new(ast::FieldDefinition {
                    description: g_desc,
                    name: name("g"),
                    arguments: vec![g_a],
                    ty: string_ty(),
                    directives: none_dirs(),
                }),
            ],
        })));
    }
    {
        let description = sl.desc();
        let f_desc = sl.desc();
        d.definitions.push(D::InterfaceTypeDefinition(Node::new(ast::InterfaceTypeDefinition {
            description,
            name: name("I"),
            implements_interfaces: vec![],
            directives: none_dirs(),
            fields: vec![Node::new(ast::FieldDefinition {
                description: f_desc,
                name: name("f"),
                arguments: vec![],
                ty: string_ty(),
                directives: none_dirs(),
            })],
        })));
    }
    d.definitions.push(D::UnionTypeDefinition(Node::new(ast::UnionTypeDefinition {
        description: sl.desc(),
        name: name("U"),
        directives: sl.dir1(),
        members: vec![name("T")],
    })));
    d.definitions.push(D::ScalarTypeDefinition(Node::new(ast::ScalarTypeDefinition {
        description: sl.desc(),
        name: name("Sc"),
        directives: sl.dir1(),
    })));
    {
        let description = sl.desc();
        let v_desc = sl.desc();
        let v_dirs = sl.dir1();
        d.definitions.push(D::EnumTypeDefinition(Node::new(ast::EnumTypeDefinition {
            description,
            name: name("E"),
            directives: none_dirs(),
            values: vec![Node::new(ast::EnumValueDefinition { description: v_desc, value: name("V"), directives: v_dirs })],
        })));
    }
    {
        let description = sl.desc();
        let dv = sl.val();
        let f1 = sl.ivd("f", Some(dv), false, true);
        let dl = sl.list();
        let f2 = sl.ivd("l", Some(dl), false, false);
        let dobj = sl.object();
        let f3 = sl.ivd("o", Some(dobj), true, true);
        let dd = sl.deep();
        let f4 = sl.ivd("deep", Some(dd), false, false);
        d.definitions.push(D::InputObjectTypeDefinition(Node::new(ast::InputObjectTypeDefinition {
            description,
            name: name("In"),
            directives: none_dirs(),
            fields: vec![f1, f2, f3, f4],
        })));
    }
    {
        let description = sl.desc();
        let dv = sl.val();
        let a1 = sl.ivd("a", Some(dv), false, true);
        let dl = sl.list();
        let a2 = sl.ivd("l", Some(dl), false, false);
        let dobj = sl.object();
        let a3 = sl.ivd("o", Some(dobj), false, false);
        d.definitions.push(D::DirectiveDefinition(Node::new(ast::DirectiveDefinition {
            description,
            name: name("d"),
            arguments: vec![a1, a2, a3],
            repeatable: true,
            locations: vec![ast::DirectiveLocation::Object, ast::DirectiveLocation::Field],
        })));
    }
    {
        // a directive definition whose arguments have no descriptions (single-line argument list)
        let description = sl.desc();
        let dv = sl.val();
        let a1 = sl.ivd("a", Some(dv), false, false);
        d.definitions.push(D::DirectiveDefinition(Node::new(ast::DirectiveDefinition {
            description,
            name: name("e"),
            arguments: vec![a1],
            repeatable: false,
            locations: vec![ast::DirectiveLocation::Scalar],
        })));
    }
    d.definitions.push(D::ObjectTypeExtension(Node::new(ast::ObjectTypeExtension {
        name: name("T"),
        implements_interfaces: vec![],
        directives: sl.dir1(),
        fields: vec![],
    })));
    {
        let mk_var = |n: &str, dv: Node<Value>, dirs: ast::DirectiveList| {
            Node::new(ast::VariableDefinition {
                name: name(n),
                ty: Node::new(Type::Named(name("String"))),
                default_value: Some(dv),
                directives: dirs,
            })
        };
        let v1 = sl.val();
        let v1d = sl.dir1();
        let v2 = sl.list();
        let v3 = sl.object();
        let v4 = sl.deep();
        let op_dirs = sl.dir1();
        let fa = sl.val();
        let fl = sl.list();
        let fo = sl.object();
        let fd = sl.deep();
        let f_dirs = sl.dir1();
        let inner_a = sl.val();
        let inl_dirs = sl.dir1();
        let spread_dirs = sl.dir1();
        let field = ast::Selection::Field(Node::new(ast::Field {
            alias: None,
            name: name("f"),
            arguments: vec![sl.arg("a", fa), sl.arg("l", fl), sl.arg("o", fo), sl.arg("deep", fd)],
            directives: f_dirs,
            selection_set: vec![ast::Selection::Field(Node::new(ast::Field {
                alias: Some(name("al")),
                name: name("g"),
                arguments: vec![sl.arg("a", inner_a)],
                directives: none_dirs(),
                selection_set: vec![],
            }))],
        }));
        let inline = ast::Selection::InlineFragment(Node::new(ast::InlineFragment {
            type_condition: None,
            directives: inl_dirs,
            selection_set: vec![ast::Selection::FragmentSpread(Node::new(ast::FragmentSpread {
                fragment_name: name("F"),
                directives: spread_dirs,
            }))],
        }));
        d.definitions.push(D::OperationDefinition(Node::new(ast::OperationDefinition {
            operation_type: ast::OperationType::Query,
            name: Some(name("Q")),
            variables: vec![
                mk_var("v", v1, v1d),
                mk_var("l", v2, none_dirs()),
                mk_var("o", v3, none_dirs()),
                mk_var("deep", v4, none_dirs()),
            ],
            directives: op_dirs,
            selection_set: vec![field, inline],
        })));
    }
    {
        let dirs = sl.dir1();
        let a = sl.val();
        d.definitions.push(D::FragmentDefinition(Node::new(ast::FragmentDefinition {
            name: name("F"),
            type_condition: name("T"),
            directives: dirs,
            selection_set: vec![ast::Selection::Field(Node::new(ast::Field {
                alias: None,
                name: name("f"),
                arguments: vec![sl.arg("a", a)],
                directives: none_dirs(),
                selection_set: vec![],
            }))],
        })));
    }
    d
}

pub fn host(s: &str, only: Option<usize>) -> (ast::Document, usize) {
    let mut sl = Slots { s, only, next: 0 };
    let d = build_host(&mut sl);
    (d, sl.next)
}

#[derive(Debug, Clone)]
pub struct SlotFailure {
    pub label: String,
    pub kind: String,
    pub detail: String,
}

/// Serialize `doc` with `cfg`, re-parse, read every slot back. Returns the failing slots.
pub fn readback(doc: &ast::Document, cfg: &SerCfg) -> Result<usize, Vec<SlotFailure>> {
    let expected = astgen::collect_strings(doc);
    let text = match rt::catch(|| cfg.ser_doc(doc)) {
        Ok(t) => t,
        Err(p) => {
            return Err(vec![SlotFailure {
                label: "(serialize)".into(),
                kind: p.signature("ast_serialize"),
                detail: format!("serialization panicked: {} at {}:{}", p.message, p.file, p.line),
            }])
        }
    };
    let parsed = match rt::catch(|| ast::Document::parse(text.as_str(), "c09.graphql")) {
        Err(p) => {
            return Err(vec![SlotFailure {
                label: "(reparse)".into(),
                kind: p.signature("reparse_serialized"),
                detail: format!("parsing the serialized text panicked: {}", p.message),
            }])
        }
        Ok(Err(e)) => {
            let first = e.errors.iter().next().map(|d| d.error.to_string()).unwrap_or_default();
            return Err(vec![SlotFailure {
                label: String::new(),
                kind: format!("reparse-error: {}", super::c08::error_class(&first)),
                detail: format!("serialized text does not parse: {first}; text: {:?}", clip(&text, 400)),
            }]);
        }
        Ok(Ok(d)) => d,
    };
    let got = astgen::collect_strings(&parsed);
    let mut fails = Vec::new();
    if got.len() != expected.len() || got.iter().zip(&expected).any(|(g, e)| g.0 != e.0) {
        let first = got
            .iter()
            .zip(&expected)
            .find(|(g, e)| g.0 != e.0)
            .map(|(_, e)| e.0.clone())
            .unwrap_or_else(|| expected.get(got.len()).map(|e| e.0.clone()).unwrap_or("(extra slot)".into()));
        fails.push(SlotFailure {
            label: first,
            kind: "string slot missing or moved".into(),
            detail: format!("{} string slots written, {} read back; text: {:?}", expected.len(), got.len(), clip(&text, 400)),
        });
        return Err(fails);
    }
    for (g, e) in got.iter().zip(&expected) {
        if g.1 != e.1 {
            fails.push(SlotFailure {
                label: e.0.clone(),
                kind: format!("read back differs ({})", astgen::string_diff_kind(&e.1, &g.1)),
                detail: format!("wrote {:?}, read back {:?}", clip(&e.1, 120), clip(&g.1, 120)),
            });
        }
    }
    if fails.is_empty() {
        Ok(expected.len())
    } else {
        Err(fails)
    }
}

/// In a single-slot host (every other slot holds "x"): the label of the slot holding `s`.
fn label_of_single_slot(doc: &ast::Document, s: &str) -> String {
    let hits: Vec<String> = astgen::collect_strings(doc).into_iter().filter(|x| x.1 == s).map(|x| x.0).collect();
    if hits.len() == 1 {
        hits[0].clone()
    } else {
        "(slot not identified)".into()
    }
}

fn role(label: &str) -> &'static str {
    if label.starts_with("description:") {
        "description"
    } else {
        "value"
    }
}

/// Summarise which slots fail by role only (description / string value): the failing set of
/// individual slots depends on the string, the role does not.
fn slot_class(fails: &[SlotFailure], _doc: &ast::Document) -> String {
    if let Some(f) = fails.iter().find(|f| f.label.starts_with('(')) {
        return f.label.clone();
    }
    let d = fails.iter().any(|f| role(&f.label) == "description");
    let v = fails.iter().any(|f| role(&f.label) == "value");
    match (d, v) {
        (true, true) => "description+string value".into(),
        (true, false) => "description".into(),
        _ => "string value".into(),
    }
}

pub fn string_features(s: &str, out: &mut Vec<&'static str>) {
    if s.is_empty() {
        out.push("empty");
    }
    if s.contains('"') {
        out.push("quote");
    }
    if s.contains("\"\"\"") {
        out.push("triple-quote");
    }
    if s.contains("\"\"\"\"") {
        out.push("four-quotes");
    }
    if s.contains('\\') {
        out.push("backslash");
    }
    if s.contains('\n') {
        out.push("LF");
    }
    if s.contains('\r') {
        out.push("CR");
    }
    if s.contains("\r\n") {
        out.push("CRLF");
    }
    if s.chars().any(|c| (c as u32) < 0x20 && !matches!(c, '\n' | '\r' | '\t')) {
        out.push("C0-control");
    }
    if s.contains('\u{7f}') {
        out.push("U+007F");
    }
    if s.contains('\u{2028}') {
        out.push("U+2028");
    }
    if s.starts_with([' ', '\t']) {
        out.push("leading-whitespace");
    }
    if s.ends_with([' ', '\t']) {
        out.push("trailing-whitespace");
    }
    if s.starts_with('\n') {
        out.push("leading-LF");
    }
    if s.ends_with('\n') {
        out.push("trailing-LF");
    }
    if s.ends_with('"') {
        out.push("trailing-quote");
    }
    if s.ends_with('\\') {
        out.push("trailing-backslash");
    }
    if s.contains('\n') && s.split('\n').filter(|l| !l.trim().is_empty()).all(|l| l.starts_with([' ', '\t'])) {
        out.push("common-indent");
    }
    if s.split('\n').any(|l| !l.is_empty() && l.trim_matches([' ', '\t']).is_empty()) {
        out.push("whitespace-only-line");
    }
    match s.len() {
        66..=69 => out.push("len-just-below-70"),
        70 => out.push("len-70"),
        71..=75 => out.push("len-just-above-70"),
        76.. => out.push("len-long"),
        _ => {}
    }
    if !s.is_ascii() {
        out.push("non-ascii");
    }
    if s.chars().any(|c| c as u32 > 0xFFFF) {
        out.push("astral");
    }
}

pub fn needs_care(s: &str) -> bool {
    s.len() > 70
        || s.starts_with([' ', '\t'])
        || s.ends_with([' ', '\t'])
        || s.chars().any(|c| (c as u32) < 0x20 || matches!(c, '"' | '\\' | '\u{7f}' | '\u{2028}' | '\u{2029}' | '\u{85}' | '\u{feff}'))
}

static LOCALISATIONS: std::sync::atomic::AtomicU64 = std::sync::atomic::AtomicU64::new(0);

/// Check one string in one host layout. `only`: place S in that slot only.
pub fn check_case(ctx: &mut Ctx, s: &str, only: Option<usize>, source: &str) {
    ctx.eval();
    let (doc, nslots) = host(s, only);
    ctx.count_max("string_slots_in_host", nslots as u64);
    if needs_care(s) {
        ctx.nontrivial(s);
    }
    ctx.class("source", source);
    ctx.class("layout", if only.is_some() { "single-slot" } else { "every-slot" });
    let cfgs = configs();
    // (slot class, kind) -> failing configs
    let mut failures: BTreeMap<(String, String), Vec<(SerCfg, String)>> = BTreeMap::new();
    for cfg in &cfgs {
        match readback(&doc, cfg) {
            Ok(n) => ctx.count("slot_readbacks", n as u64),
            Err(mut fs) => {
                if fs[0].label.is_empty() {
                    // a parse error: find the slot(s) responsible with single-slot hosts
                    let mut guilty = Vec::new();
                    if only.is_none() && LOCALISATIONS.fetch_add(1, std::sync::atomic::Ordering::Relaxed) < 12 {
                        for k in 0..nslots {
                            let (dk, _) = host(s, Some(k));
                            if let Err(fk) = readback(&dk, cfg) {
                                let label = label_of_single_slot(&dk, s);
                                guilty.push(SlotFailure { label, kind: fk[0].kind.clone(), detail: fk[0].detail.clone() });
                            }
                        }
                    }
                    if guilty.is_empty() {
                        fs[0].label = match only {
                            Some(_) => label_of_single_slot(&doc, s),
                            None => "(only in combination)".into(),
                        };
                    } else {
                        fs = guilty;
                    }
                }
                let class = slot_class(&fs, &doc);
                let mut labels: Vec<&str> = fs.iter().map(|f| f.label.as_str()).collect();
                labels.sort();
                labels.dedup();
                let shown = if labels.len() > 4 { format!("{} slots, e.g. {}", labels.len(), labels[..3].join(", ")) } else { labels.join(", ") };
                failures.entry((class, fs[0].kind.clone())).or_default().push((cfg.clone(), format!("slots [{shown}]: {}", fs[0].detail)));
            }
        }
        ctx.count("config_serializations", 1);
    }
    for ((class, kind), fs) in failures {
        let failing: Vec<&SerCfg> = fs.iter().map(|(c, _)| c).collect();
        let cfg_class = astgen::cfg_class_of(&failing, cfgs.len());
        ctx.violation(
            format!("{cfg_class}|{class}|{kind}"),
            format!("config {} (and {} more): {}", fs[0].0.label(), fs.len() - 1, fs[0].1),
            json!({"string": s, "only_slot": only, "config": fs[0].0.to_json()}),
        );
    }
}

pub const ALPHABET: &[char] = &['"', '\\', '\n', '\r', ' ', '\t', 'a', 'é'];

/// The `i`-th string of length `len` over ALPHABET.
fn nth_string(mut i: u64, len: usize) -> String {
    let mut s = String::with_capacity(len * 2);
    for _ in 0..len {
        s.push(ALPHABET[(i % ALPHABET.len() as u64) as usize]);
        i /= ALPHABET.len() as u64;
    }
    s
}

const PIECES: &[(&str, usize)] = &[
    ("\"", 12),
    ("\\", 10),
    ("\n", 10),
    ("\r", 4),
    ("\r\n", 3),
    (" ", 10),
    ("\t", 5),
    ("\u{7f}", 2),
    ("\u{2028}", 2),
    ("\u{2029}", 1),
    ("\u{85}", 1),
    ("\u{feff}", 1),
    ("\u{c}", 1),
    ("\u{b}", 1),
    ("\"\"\"", 4),
    ("\"\"\"\"", 1),
    ("\\\"\"\"", 2),
    ("\\\"", 1),
    ("a", 10),
    ("word", 3),
    ("é", 4),
    ("中", 2),
    ("🚀", 2),
    ("#", 1),
    ("\\u0041", 1),
    ("\\n", 1),
    ("  ", 3),
    ("\n  ", 3),
    ("\n\t", 2),
    ("\n\n", 2),
    (",", 1),
    ("<C0>", 6),
    ("<ANY>", 4),
];

fn piece(rng: &mut Rng, out: &mut String) {
    let total: usize = PIECES.iter().map(|p| p.1).sum();
    let mut k = rng.below(total);
    for (p, w) in PIECES {
        if k < *w {
            match *p {
                "<C0>" => out.push(char::from_u32(rng.below(0x20) as u32).unwrap()),
                "<ANY>" => loop {
                    let c = match rng.below(4) {
                        0 => rng.below(0x80) as u32,
                        1 => rng.below(0x800) as u32,
                        2 => rng.below(0x10000) as u32,
                        _ => rng.below(0x110000) as u32,
                    };
                    if let Some(c) = char::from_u32(c) {
                        out.push(c);
                        break;
                    }
                },
                p => out.push_str(p),
            }
            return;
        }
        k -= *w;
    }
}

pub fn random_string(rng: &mut Rng) -> String {
    let mut s = String::new();
    match rng.below(10) {
        0..=3 => {
            for _ in 0..rng.range(1, 8) {
                piece(rng, &mut s);
            }
        }
        4..=5 => {
            for _ in 0..rng.range(8, 40) {
                piece(rng, &mut s);
            }
        }
        6..=8 => {
            // byte length straddling 70 (the serializer's single-line block string limit)
            let target = rng.range(66, 75);
            let filler = *rng.pick(&["a", "é", " x", "a\"", "中"]);
            let pre = rng.below(6);
            for _ in 0..pre {
                piece(rng, &mut s);
            }
            while s.len() < target {
                if target - s.len() >= filler.len() && !rng.chance(1, 12) {
                    s.push_str(filler);
                } else if target - s.len() >= 1 {
                    s.push('b');
                }
            }
        }
        _ => {
            for _ in 0..rng.range(40, 200) {
                piece(rng, &mut s);
            }
        }
    }
    // shape edits
    if rng.chance(1, 5) {
        s.insert_str(0, rng.pick_str(&[" ", "\t", "\n", "  ", " \n", "\n ", "\r"]));
    }
    if rng.chance(1, 5) {
        s.push_str(rng.pick_str(&[" ", "\t", "\n", "  ", "\n ", " \n", "\n  \n", "\r", "\n\t"]));
    }
    if rng.chance(1, 8) {
        s.push_str(rng.pick_str(&["\"", "\"\"", "\"\"\"", "\\", "\\\\", "\\\""]));
    }
    if rng.chance(1, 8) {
        // uniform indentation of every line
        let ind = rng.pick_str(&[" ", "  ", "\t", "    ", " \t"]);
        s = s.split('\n').map(|l| format!("{ind}{l}")).collect::<Vec<_>>().join("\n");
    }
    if rng.chance(1, 8) {
        // the same indentation for every non-empty line; empty lines stay empty
        let ind = rng.pick_str(&[" ", "  ", "\t"]);
        s = s.split('\n').map(|l| if l.is_empty() { String::new() } else { format!("{ind}{l}") }).collect::<Vec<_>>().join("\n");
    }
    if rng.chance(1, 10) {
        // indentation of all lines but the first
        let ind = rng.pick_str(&[" ", "  ", "\t"]);
        let mut it = s.split('\n');
        let first = it.next().unwrap_or("").to_string();
        let rest: Vec<String> = it.map(|l| format!("{ind}{l}")).collect();
        s = std::iter::once(first).chain(rest).collect::<Vec<_>>().join("\n");
    }
    s
}

pub const REGRESSION_STRINGS: &[&str] = &[
    "",
    "\"",
    "\\",
    "\"\"\"",
    "\\\"\"\"",
    "a\n",
    "\na",
    " a",
    "a ",
    "a\n b",
    " a\n b",
    "a\n \nb",
    "a\n\n",
    "a\r\nb",
    "a\rb",
    "a\"",
    "a\\",
    "\u{0}",
    "\u{8}\u{c}\u{1f}\u{7f}",
    "\u{2028}",
    "a\n\"\"\"\nb",
    "a\n\"\"\"\"\nb",
    "line\n\ttabbed",
];

pub fn run(ctx: &mut Ctx) {
    ctx.note("configurations", json!(configs().iter().map(|c| c.label()).collect::<Vec<_>>()));
    let (h, nslots) = host("S", None);
    let labels: Vec<String> = astgen::collect_strings(&h).into_iter().map(|x| x.0).collect();
    for l in &labels {
        ctx.class("slot", l);
    }
    ctx.note("host_document", json!(SerCfg::default_cfg().ser_doc(&h)));
    if labels.len() != nslots {
        ctx.inconclusive("harness: slot count and collected labels disagree", json!({"slots": nslots, "labels": labels.len()}));
        return;
    }

    if ctx.shard == 0 {
        for s in REGRESSION_STRINGS {
            check_case(ctx, s, None, "fixed");
            for k in [0usize, 1, 2, 3] {
                check_case(ctx, s, Some(k), "fixed");
            }
        }
    }

    // Phase 0: a fixed quota of random Unicode strings first, so that the random part of the
    // workload does not depend on how long the enumeration takes on a loaded machine.
    let quota = if ctx.quick() { 160 } else { 2000 };
    for n in 0..quota {
        random_case(ctx, n, nslots);
    }

    // Phase 1: EXHAUSTIVE over the 8-symbol alphabet up to the tier's length, sharded.
    let max_len = if ctx.quick() { 5 } else { 6 };
    // the enumeration is allowed to overrun the budget (a loaded machine must not turn the
    // exhaustive claim into a partial one), but stays inside the orchestrator's watchdog
    let limit = if ctx.quick() { 5.5 } else { 3.5 };
    let mut idx = 0u64;
    let mut done = true;
    'outer: for len in 0..=max_len {
        let count = (ALPHABET.len() as u64).pow(len as u32);
        for i in 0..count {
            idx += 1;
            if !ctx.mine(idx) {
                continue;
            }
            let s = nth_string(i, len);
            check_case(ctx, &s, None, "exhaustive");
            ctx.count("exhaustive_strings_done", 1);
            let mut f = Vec::new();
            string_features(&s, &mut f);
            for x in f {
                ctx.class("string_feature", x);
            }
            // never cut short silently: the evidence claims the whole sub-space
            if ctx.used() > limit {
                done = false;
                break 'outer;
            }
        }
    }
    ctx.note("exhaustive_max_len", json!(max_len));
    if !done {
        ctx.inconclusive("exhaustive enumeration did not finish within the allowed overrun of the budget", json!({"shard": ctx.shard, "index": idx}));
        return;
    }
    ctx.class("exhaustive", &format!("complete:len<={max_len}"));

    // Phase 1b: EXHAUSTIVE over strings of 1-3 (thorough: 1-4) lines drawn from 10 line shapes
    // (empty, blank, text at several indentations): 1110 / 11110 strings.
    let max_lines = if ctx.quick() { 3 } else { 4 };
    for n in 1..=max_lines {
        for i in 0..(astgen::LINE_SHAPES.len() as u64).pow(n as u32) {
            idx += 1;
            if ctx.mine(idx) {
                check_case(ctx, &astgen::nth_line_shape_string(i, n), None, "exhaustive_line_shapes");
                ctx.count("exhaustive_line_shape_strings_done", 1);
            }
        }
    }
    ctx.class("exhaustive", &format!("complete:line-shapes<={max_lines}"));

    // Phase 2: random Unicode strings until the budget is used.
    let mut n = 1_000_000u64;
    while !ctx.time_up() {
        n += 1;
        random_case(ctx, n, nslots);
    }
}

fn random_case(ctx: &mut Ctx, n: u64, nslots: usize) {
    let mut rng = ctx.sub_rng("c09-random", n);
    let s = random_string(&mut rng);
    let only = if n % 4 == 0 { Some(rng.below(nslots)) } else { None };
    check_case(ctx, &s, only, "random");
    let mut f = Vec::new();
    string_features(&s, &mut f);
    for x in f {
        ctx.class("string_feature", x);
    }
    ctx.sample(|| json!({"string": clip(&s, 120), "only_slot": only}));
}

pub fn replay(ctx: &mut Ctx, case: &J) {
    if let Some(s) = case.get("string").and_then(|s| s.as_str()) {
        let only = case.get("only_slot").and_then(|x| x.as_u64()).map(|x| x as usize);
        check_case(ctx, s, only, "replay");
        if only.is_some() {
            check_case(ctx, s, None, "replay");
        }
    }
}
