//! C32 — apollo-smith generates valid documents deterministically.
//!
//! Refuting events: `DocumentBuilder::new(bytes).build()` panics; returns a document whose text has
//! syntax errors or fails `to_mixed_validate`; two builds from the same bytes differ; an operation
//! from `with_document(parsed schema).operation_definition()` that does not validate against that
//! schema (or generating it panics). Any `arbitrary::Error` is the allowed "input exhausted" outcome.

use crate::gen::inputs::TextSource;
use crate::gen::model::*;
use crate::gen::schema_gen::{gen_schema, SchemaOpts};
use crate::prng::Rng;
use crate::rt::{self, clip, Ctx};
use apollo_compiler::{ast, ExecutableDocument, Schema};
use apollo_smith::DocumentBuilder;
use arbitrary::Unstructured;
use serde_json::{json, Value};

fn hex(b: &[u8]) -> String {
    b.iter().map(|x| format!("{x:02x}")).collect()
}

fn unhex(s: &str) -> Vec<u8> {
    (0..s.len() / 2).filter_map(|i| u8::from_str_radix(&s[2 * i..2 * i + 2], 16).ok()).collect()
}

fn build(bytes: &[u8], max: usize) -> Result<String, String> {
    let mut u = Unstructured::new(bytes);
    if max == 0 {
        // the default configuration
        return match DocumentBuilder::new(&mut u).build() {
            Ok(doc) => Ok(String::from(doc)),
            Err(e) => Err(format!("{e:?}")),
        };
    }
    let b = DocumentBuilder::new(&mut u)
        .max_scalar_types(max)
        .max_enum_types(max)
        .max_interface_types(max)
        .max_object_types(max)
        .max_union_types(max)
        .max_input_object_types(max)
        .max_fragment_definitions(max)
        .max_directive_definitions(max)
        .max_operation_definitions(max);
    match b.build() {
        Ok(doc) => Ok(String::from(doc)),
        Err(e) => Err(format!("{e:?}")),
    }
}

fn msg_class(m: &str) -> String {
    // backtick-quoted names dropped; bare words that are not plain lower-case English (generated
    // identifiers) replaced by `_`
    let mut out = String::new();
    let mut inside = false;
    for c in m.chars() {
        if c == '`' {
            inside = !inside;
            out.push('`');
        } else if !inside {
            out.push(c);
        }
    }
    let words: Vec<String> = out
        .split(' ')
        .map(|w| {
            let core = w.trim_matches(|c: char| !c.is_alphanumeric() && c != '_');
            if core.is_empty() || core.chars().all(|c| c.is_ascii_lowercase()) || core.chars().all(|c| c.is_ascii_uppercase()) {
                w.to_string()
            } else {
                "_".to_string()
            }
        })
        .collect();
    words.join(" ").chars().take(80).collect()
}

pub fn check_document(ctx: &mut Ctx, bytes: &[u8], max: usize, source: &str) {
    ctx.eval();
    let case = json!({"kind": "document", "bytes_hex": hex(bytes), "max_per_kind": max});
    ctx.inflight("C32", case.to_string().as_bytes());
    let r = rt::on_stack(8 * 1024 * 1024, || {
        let a = build(bytes, max);
        let b = build(bytes, max);
        (a, b)
    });
    match r {
        Err(p) => ctx.violation(p.signature("smith-build"), format!("DocumentBuilder::build panicked: {} at {}:{}", p.message, p.file, p.line), case),
        Ok((a, b)) => {
            if a != b {
                ctx.violation("nondeterministic-in-process", "two builds from the same bytes differ", case.clone());
            }
            match a {
                Err(e) => {
                    ctx.count("input_exhausted_or_arbitrary_error", 1);
                    ctx.class("outcome", &format!("arbitrary-error:{}", e.split('(').next().unwrap_or("")));
                }
                Ok(text) => {
                    ctx.class("outcome", "document");
                    ctx.class("source", source);
                    ctx.nontrivial(&text);
                    ctx.count("documents_generated", 1);
                    ctx.count("document_bytes", text.len() as u64);
                    let v = rt::catch(|| {
                        let tree = apollo_parser::Parser::new(&text).parse();
                        let syn: Vec<String> = tree.errors().map(|e| e.message().to_string()).collect();
                        if tree.errors().any(|e| e.is_limit()) {
                            return None; // deeper than the parser's default limit: not judged
                        }
                        if !syn.is_empty() {
                            return Some((format!("syntax-error|{}", msg_class(&syn[0])), format!("generated document has syntax errors: {:?}", syn)));
                        }
                        let ast = match ast::Document::parse(text.clone(), "smith.graphql") {
                            Ok(a) => a,
                            Err(e) => return Some(("syntax-error|compiler".into(), e.errors.to_string())),
                        };
                        match ast.to_mixed_validate() {
                            Ok(_) => None,
                            Err(e) => {
                                let first = e.iter().next().map(|d| d.error.to_string()).unwrap_or_default();
                                Some((format!("invalid-document|{}", msg_class(&first)), format!("generated document does not validate: {first}")))
                            }
                        }
                    });
                    match v {
                        Err(p) => ctx.violation(p.signature("smith-validate"), format!("panic while validating the generated document: {}", p.message), case),
                        Ok(None) => {
                            for k in ["type ", "interface ", "union ", "enum ", "input ", "scalar ", "directive ", "fragment ", "query", "mutation", "subscription", "extend "] {
                                if text.contains(k) {
                                    ctx.class("definition_kind_generated", k.trim());
                                }
                            }
                            ctx.sample(|| json!({"bytes": bytes.len(), "document": clip(&text, 300)}));
                        }
                        Ok(Some((sig, msg))) => {
                            let mut c = case.clone();
                            c["document"] = json!(text);
                            ctx.violation(sig, msg, c);
                        }
                    }
                }
            }
        }
    }
}

pub fn check_operation(ctx: &mut Ctx, schema_text: &str, bytes: &[u8], source: &str) {
    ctx.eval();
    let case = json!({"kind": "operation", "schema": schema_text, "bytes_hex": hex(bytes)});
    ctx.inflight("C32", case.to_string().as_bytes());
    let r = rt::on_stack(8 * 1024 * 1024, || {
        let schema = Schema::parse_and_validate(schema_text, "schema.graphql").ok()?;
        let cst = apollo_parser::Parser::new(schema_text).parse();
        if cst.errors().len() > 0 {
            return None;
        }
        let doc: apollo_smith::Document = cst.document().try_into().ok()?;
        let mut u = Unstructured::new(bytes);
        let mut b = DocumentBuilder::with_document(&mut u, doc).ok()?;
        let op = match b.operation_definition() {
            Ok(Some(op)) => op,
            Ok(None) => return Some(Err("no-operation".to_string())),
            Err(_) => return Some(Err("exhausted".to_string())),
        };
        let text = String::from(op);
        Some(Ok(match ExecutableDocument::parse_and_validate(&schema, text.clone(), "op.graphql") {
            Ok(_) => (text, None),
            Err(e) => {
                let mut first = e.errors.iter().next().map(|d| d.error.to_string()).unwrap_or_default();
                if e.errors.iter().any(|d| d.error.to_string().contains("recursion limit reached")) {
                    first = "parser recursion limit reached".to_string();
                }
                (text, Some(first))
            }
        }))
    });
    match r {
        Err(p) => ctx.violation(p.signature("smith-operation"), format!("operation generation panicked: {} at {}:{}", p.message, p.file, p.line), case),
        Ok(None) => ctx.count("operation_schema_not_usable_skipped", 1),
        Ok(Some(Err(why))) => {
            ctx.class("operation_outcome", &why);
        }
        Ok(Some(Ok((text, err)))) => {
            ctx.class("operation_outcome", "operation");
            ctx.class("operation_schema_source", source);
            ctx.nontrivial(&format!("{schema_text}\u{1}{text}"));
            ctx.count("operations_generated", 1);
            if let Some(first) = err {
                if first.contains("recursion limit reached") {
                    // Deeper than apollo's default parser recursion limit: apollo cannot judge the
                    // operation; GraphQL itself has no nesting limit. Not a verdict.
                    ctx.count("operation_deeper_than_parser_limit_not_judged", 1);
                    return;
                }
                let mut c = case.clone();
                c["operation"] = json!(text);
                ctx.violation(format!("invalid-operation|{}", msg_class(&first)), format!("generated operation is not valid against its schema: {first}\n{}", clip(&text, 400)), c);
            }
        }
    }
}

fn shaped_bytes(rng: &mut Rng) -> Vec<u8> {
    let n = match rng.below(6) {
        0 => rng.range(0, 16),
        1 => rng.range(16, 256),
        2 | 3 => rng.range(256, 2048),
        4 => rng.range(2048, 4096),
        _ => rng.range(4096, 16384),
    };
    match rng.below(8) {
        6 | 7 => {
            // a tiny byte alphabet: short names over few characters, so that generated names
            // collide with each other and with their own numbered variants (`A`, `A0`, `A7`, ...)
            let pool = [0u8, 1, 2, 26, 53, 54, 60, 61, rng.next_u32() as u8, rng.next_u32() as u8];
            let k = rng.range(2, 6);
            let alpha: Vec<u8> = (0..k).map(|_| *rng.pick(&pool)).collect();
            let tail_random = rng.chance(1, 3);
            (0..n).map(|i| if tail_random && i > n / 2 { rng.next_u32() as u8 } else { *rng.pick(&alpha) }).collect()
        }
        0 => vec![*rng.pick(&[0u8, 1, 0x7f, 0x80, 0xff]); n],
        1 => (0..n).map(|i| i as u8).collect(),
        2 => {
            // sparse
            let mut v = vec![0u8; n];
            for _ in 0..n / 16 + 1 {
                if n > 0 {
                    let i = rng.below(n);
                    v[i] = rng.next_u32() as u8;
                }
            }
            v
        }
        _ => rng.bytes(n),
    }
}

pub fn run(ctx: &mut Ctx) {
    let src = TextSource::new();
    // schemas for operation generation: explicit `schema` definitions are needed by smith
    let mut schemas: Vec<(String, String)> = Vec::new();
    for f in &src.files {
        if matches!(f.group, "compiler_ok" | "examples_smith" | "parser_ok") && f.text.contains("schema") && f.text.len() < 30_000 {
            if let Some(ts) = crate::monitors::util::type_system_part(&f.text) {
                schemas.push(("corpus".into(), ts));
            }
        }
    }
    if ctx.shard == 0 {
        // witness of the known finding (todo!() for union / custom scalar field types)
        check_operation(ctx, "schema { query: Q } union U = Q type Q { u: U }", &[], "known-finding-witness");
        // witnesses of the two repaired stack overflows
        check_operation(ctx, "schema { query: Q } input I { next: I } type Q { f(i: I!): Int }", &[], "regression");
        check_operation(ctx, "schema { query: Q } type Q { t: Q }", &[], "regression");
    }
    let mut interesting: Vec<Vec<u8>> = Vec::new();
    let mut n = 0u64;
    while !ctx.time_up() {
        n += 1;
        let mut rng = ctx.sub_rng("c32", n);
        match rng.below(10) {
            0..=5 => {
                let bytes = if !interesting.is_empty() && rng.chance(1, 3) {
                    // mutate a previously interesting input
                    let mut b = rng.pick(&interesting).clone();
                    for _ in 0..rng.range(1, 8) {
                        if !b.is_empty() {
                            let i = rng.below(b.len());
                            b[i] = rng.next_u32() as u8;
                        }
                    }
                    b
                } else {
                    shaped_bytes(&mut rng)
                };
                // 0 = DocumentBuilder's default configuration
                let max = *rng.pick(&[1usize, 2, 2, 3, 3, 4, 6, 0, 0]);
                ctx.class("configuration", if max == 0 { "default" } else { "max-per-kind" });
                let before = ctx.class_len("definition_kind_generated");
                check_document(ctx, &bytes, max, "bytes");
                if ctx.class_len("definition_kind_generated") > before && interesting.len() < 64 {
                    interesting.push(bytes);
                }
            }
            6..=7 => {
                // operation against a model-generated schema with an explicit schema definition
                let opts = SchemaOpts {
                    renamed_roots: 10,
                    extensions: false,
                    ..SchemaOpts::default()
                };
                let doc = gen_schema(&mut rng, &opts);
                let text = print_plain(&doc);
                let bytes = shaped_bytes(&mut rng);
                check_operation(ctx, &text, &bytes, "model");
            }
            8 => {
                if !schemas.is_empty() {
                    let (_, s) = rng.pick(&schemas).clone();
                    let bytes = shaped_bytes(&mut rng);
                    check_operation(ctx, &s, &bytes, "corpus");
                }
            }
            _ => {
                // operation against smith's own schema
                let b0 = shaped_bytes(&mut rng);
                if let Ok(t) = build(&b0, 3) {
                    if let Some(ts) = crate::monitors::util::type_system_part(&t) {
                        let bytes = shaped_bytes(&mut rng);
                        check_operation(ctx, &ts, &bytes, "smith");
                    }
                }
            }
        }
    }
}

pub fn replay(ctx: &mut Ctx, case: &Value) {
    let bytes = unhex(case.get("bytes_hex").and_then(|b| b.as_str()).unwrap_or(""));
    match case.get("kind").and_then(|k| k.as_str()) {
        Some("operation") => check_operation(ctx, case["schema"].as_str().unwrap_or(""), &bytes, "replay"),
        _ => check_document(ctx, &bytes, case.get("max_per_kind").and_then(|m| m.as_u64()).unwrap_or(3) as usize, "replay"),
    }
}
