//! C05 — Syntax acceptance matches the GraphQL grammar.
//!
//! Refuting events: `apollo_parser::Parser::new(s).parse().errors().len() == 0` differs from
//! `RefGrammar` accepting `s`; or both accept and the ordered list of top-level (definition kind,
//! name) read from the CST (`tree.document().definitions()`) differs from the reference's list.
//!
//! Oracle: `refmodel::grammar::RefGrammar` (independent recogniser written from the Oct-2021 spec).
//!
//! Out of the claim (counted, never a verdict): inputs on which apollo reports a *limit* error
//! (recursion limit 500: a resource bound, not a grammar verdict), inputs beyond the reference's own
//! nesting cap, inputs the reference accepts that contain a lone-surrogate `\uXXXX` escape (apollo's
//! documented limitation, DESIGN Appendix B), and inputs on which the parser panics (C01's finding).

use crate::corpus;
use crate::gen::syntax::{self, Coverage};
use crate::gen::text;
use crate::prng::Rng;
use crate::refmodel::grammar::{DocInfo, RefGrammar, RejectInfo};
use crate::rt::{self, clip, Ctx};
use apollo_parser::cst;
use apollo_parser::Parser;
use serde_json::{json, Value};
use std::collections::HashMap;

type Defs = Vec<(&'static str, Option<String>)>;

struct Apollo {
    n_errors: usize,
    limit: bool,
    first_error: Option<(String, usize)>,
    defs: Defs,
}

fn text_of(n: Option<cst::Name>) -> Option<String> {
    n.map(|n| n.text().to_string())
}

fn apollo_defs(doc: &cst::Document) -> Defs {
    doc.definitions()
        .map(|d| match d {
            cst::Definition::OperationDefinition(x) => ("OperationDefinition", text_of(x.name())),
            cst::Definition::FragmentDefinition(x) => (
                "FragmentDefinition",
                text_of(x.fragment_name().and_then(|f| f.name())),
            ),
            cst::Definition::DirectiveDefinition(x) => ("DirectiveDefinition", text_of(x.name())),
            cst::Definition::SchemaDefinition(_) => ("SchemaDefinition", None),
            cst::Definition::ScalarTypeDefinition(x) => ("ScalarTypeDefinition", text_of(x.name())),
            cst::Definition::ObjectTypeDefinition(x) => ("ObjectTypeDefinition", text_of(x.name())),
            cst::Definition::InterfaceTypeDefinition(x) => ("InterfaceTypeDefinition", text_of(x.name())),
            cst::Definition::UnionTypeDefinition(x) => ("UnionTypeDefinition", text_of(x.name())),
            cst::Definition::EnumTypeDefinition(x) => ("EnumTypeDefinition", text_of(x.name())),
            cst::Definition::InputObjectTypeDefinition(x) => ("InputObjectTypeDefinition", text_of(x.name())),
            cst::Definition::SchemaExtension(_) => ("SchemaExtension", None),
            cst::Definition::ScalarTypeExtension(x) => ("ScalarTypeExtension", text_of(x.name())),
            cst::Definition::ObjectTypeExtension(x) => ("ObjectTypeExtension", text_of(x.name())),
            cst::Definition::InterfaceTypeExtension(x) => ("InterfaceTypeExtension", text_of(x.name())),
            cst::Definition::UnionTypeExtension(x) => ("UnionTypeExtension", text_of(x.name())),
            cst::Definition::EnumTypeExtension(x) => ("EnumTypeExtension", text_of(x.name())),
            cst::Definition::InputObjectTypeExtension(x) => ("InputObjectTypeExtension", text_of(x.name())),
        })
        .collect()
}

fn run_apollo(text: &str) -> Result<Apollo, rt::PanicReport> {
    rt::catch(|| {
        let tree = Parser::new(text).parse();
        let n_errors = tree.errors().len();
        let limit = tree.errors().any(|e| e.is_limit());
        let first_error = tree
            .errors()
            .min_by_key(|e| e.index())
            .map(|e| (e.message().to_string(), e.index()));
        let defs = if n_errors == 0 {
            apollo_defs(&tree.document())
        } else {
            Vec::new()
        };
        Apollo {
            n_errors,
            limit,
            first_error,
            defs,
        }
    })
}

/// Static part of an apollo error message: digits masked, anything from the first quote on dropped.
fn message_class(m: &str) -> String {
    // `Parser::expect` formats "expected R_CURLY, got <token text>": the token text is input data
    let m = m.find(", got ").map(|i| &m[..i]).unwrap_or(m);
    let cut = m.find(['"', '`', '\'']).unwrap_or(m.len());
    rt::mask_message(m[..cut].trim_end())
}

pub enum Outcome {
    /// Both sides gave the same verdict (and, on accept, the same definition list).
    Agree { accept: bool },
    /// Outside the claim; the label says why.
    Skip(&'static str),
    Violation { signature: String, message: String },
}

pub struct Judgement {
    pub outcome: Outcome,
    pub reference: Result<DocInfo, RejectInfo>,
}

/// Judge one text. Pure: used by `check_case` and by the reducer.
pub fn judge(text: &str) -> Judgement {
    let reference = RefGrammar::parse_document(text);
    let outcome = (|| {
        if let Err(r) = &reference {
            if r.is_oracle_limit() {
                return Outcome::Skip("reference_nesting_cap");
            }
        }
        let ap = match run_apollo(text) {
            Ok(a) => a,
            Err(_) => return Outcome::Skip("parser_panicked"),
        };
        if ap.limit {
            return Outcome::Skip("apollo_limit_error");
        }
        match &reference {
            Ok(doc) => {
                if doc.surrogate_escape {
                    return Outcome::Skip("dont_care_surrogate_escape");
                }
                if ap.n_errors > 0 {
                    let (msg, idx) = ap.first_error.clone().unwrap_or_default();
                    let site = doc
                        .defs
                        .iter()
                        .find(|d| d.start <= idx && idx < d.end.max(d.start + 1))
                        .map(|d| d.kind.as_str())
                        .unwrap_or("between-definitions");
                    return Outcome::Violation {
                        signature: format!("oracle-accepts/apollo-rejects|{}|{}", site, message_class(&msg)),
                        message: format!(
                            "the reference grammar accepts this document ({} definitions) but apollo-parser reports {} error(s), first: {:?} at byte {}",
                            doc.defs.len(),
                            ap.n_errors,
                            msg,
                            idx
                        ),
                    };
                }
                let want: Defs = doc.defs.iter().map(|d| (d.kind.as_str(), d.name.clone())).collect();
                if want != ap.defs {
                    let i = want.iter().zip(ap.defs.iter()).position(|(a, b)| a != b);
                    let (rk, ak, what) = match i {
                        Some(i) if want[i].0 != ap.defs[i].0 => (want[i].0, ap.defs[i].0, "kind-differs"),
                        Some(i) => (want[i].0, ap.defs[i].0, "name-differs"),
                        None if want.len() > ap.defs.len() => (want[ap.defs.len()].0, "none", "definition-missing"),
                        None => ("none", ap.defs[want.len()].0, "definition-extra"),
                    };
                    return Outcome::Violation {
                        signature: format!("both-accept/definitions-differ|reference={rk}|apollo={ak}|{what}"),
                        message: format!(
                            "both accept, but the top-level definitions differ: reference {:?}, apollo CST {:?}",
                            want, ap.defs
                        ),
                    };
                }
                Outcome::Agree { accept: true }
            }
            Err(r) => {
                if ap.n_errors == 0 {
                    return Outcome::Violation {
                        signature: format!("apollo-accepts/oracle-rejects|{}|{}", r.production, r.reason),
                        message: format!(
                            "apollo-parser reports no error (definitions {:?}) but the document is not in the Oct-2021 grammar: {} in {} at byte {} (found {})",
                            ap.defs, r.reason, r.production, r.offset, r.found
                        ),
                    };
                }
                Outcome::Agree { accept: false }
            }
        }
    })();
    Judgement { outcome, reference }
}

/// Greedy token-deletion reducer keeping the same violation signature.
fn minimise(text: &str, signature: &str) -> String {
    let same = |t: &str| matches!(&judge(t).outcome, Outcome::Violation { signature: s, .. } if s == signature);
    let mut cur = text.to_string();
    let mut budget = 3000usize;
    let mut chunk = 8usize;
    loop {
        let toks: Vec<String> = text::crude_tokens(&cur).iter().map(|t| t.to_string()).collect();
        let mut progress = false;
        let mut i = 0;
        while i < toks.len() && budget > 0 {
            let end = (i + chunk).min(toks.len());
            let cand: String = toks[..i].concat() + &toks[end..].concat();
            budget -= 1;
            if cand.len() < cur.len() && same(&cand) {
                cur = cand;
                progress = true;
                break;
            }
            i += 1;
        }
        if budget == 0 {
            break;
        }
        if !progress {
            if chunk == 1 {
                break;
            }
            chunk /= 2;
        }
    }
    cur
}

pub struct State {
    /// Smallest witness length reported so far per signature (this worker).
    best: HashMap<String, usize>,
}

impl State {
    pub fn new() -> Self {
        State { best: HashMap::new() }
    }
}

impl Default for State {
    fn default() -> Self {
        Self::new()
    }
}

/// Returns the reference verdict (`Some(true)` accept, `Some(false)` reject, `None` skipped).
pub fn check_case(ctx: &mut Ctx, st: &mut State, text: &str, source: &str) -> Option<bool> {
    ctx.eval();
    ctx.inflight("C05", text.as_bytes());
    let j = judge(text);
    ctx.class("source", source);
    let verdict = match &j.reference {
        Ok(doc) => {
            ctx.class("verdict", "accept");
            for d in &doc.defs {
                ctx.class("production_verdict", &format!("{}:accept", d.kind.as_str()));
            }
            ctx.count("reference_accepts", 1);
            ctx.count_max("definitions_per_document", doc.defs.len() as u64);
            ctx.nontrivial(text);
            true
        }
        Err(r) => {
            if !r.is_oracle_limit() {
                ctx.class("verdict", "reject");
                ctx.class("production_verdict", &format!("{}:reject", r.production));
                ctx.class("reject_site", &r.site());
                ctx.count("reference_rejects", 1);
                if r.is_lexical() {
                    ctx.count("reference_rejects_lexical", 1);
                } else {
                    ctx.nontrivial(text);
                }
            }
            false
        }
    };
    match j.outcome {
        Outcome::Agree { accept } => {
            ctx.count(if accept { "agree_accept" } else { "agree_reject" }, 1);
            Some(verdict)
        }
        Outcome::Skip(why) => {
            ctx.count(&format!("skipped:{why}"), 1);
            None
        }
        Outcome::Violation { signature, message } => {
            ctx.count("disagreements", 1);
            let best = st.best.get(&signature).copied();
            if best.map(|b| text.len() < b).unwrap_or(true) {
                let min = if ctx.replay_mode { text.to_string() } else { minimise(text, &signature) };
                let (min, message) = if min != text {
                    match judge(&min).outcome {
                        Outcome::Violation { message: m, .. } => (min, m),
                        _ => (text.to_string(), message),
                    }
                } else {
                    (min, message)
                };
                let b = st.best.entry(signature.clone()).or_insert(usize::MAX);
                *b = (*b).min(min.len());
                ctx.violation(signature, message, json!({"text": min, "source": source}));
            } else {
                // same signature, not smaller: only counted
                ctx.violation(signature, message, json!({"text": text, "source": source}));
            }
            Some(verdict)
        }
    }
}

/// Hand-written boundary documents (valid and invalid, judged by hand against the spec) that are
/// checked at the start of every run: every known disagreement class has a witness here so that a
/// run never depends on generator luck to re-observe it.
pub const BOUNDARY_TEXTS: &[&str] = &[
    "{ a }",
    "{ }",
    "query Q",
    "query Q() { a }",
    "{ a() }",
    "{ a(x) }",
    "{ a(x:) }",
    "{ a(x: {k}) }",
    "{ a(x: {k:}) }",
    "{ a @d() }",
    "query ($v: Int = $w) { a }",
    "query ($v: Int @d(x: $w)) { a }",
    "type T @d(x: [$w]) { a: Int }",
    "type T { a(b: Int = $w): Int }",
    "fragment on on T { a }",
    "fragment F T { a }",
    "fragment F on T",
    "fragment F on { a }",
    "{ ... on { a } }",
    "{ ... on on { a } }",
    "{ ... }",
    "{ ... @d }",
    "{ ...on }",
    "\"d\" query { a }",
    "\"d\" { a }",
    "\"d\" fragment F on T { a }",
    "\"d\" fragment on T { a }",
    "\"d\" extend type T @d",
    "\"d\" extend on T @d",
    "\"d\"",
    "\"d\" \"e\" type T",
    "schema",
    "schema @d",
    "schema { }",
    "schema { query: }",
    "schema { query }",
    "schema { query: Q mutation: }",
    "schema { foo: Q }",
    "\"d\" schema { query: Q }",
    "extend schema",
    "extend schema @d",
    "extend schema @d { }",
    "extend schema { }",
    "extend schema { query: }",
    "extend scalar S",
    "extend type T",
    "extend interface I",
    "extend union U",
    "extend enum E",
    "extend input I",
    "extend foo",
    "extend",
    "type T",
    "type T { }",
    "type T { a }",
    "type T { a: }",
    "type T { a() : Int }",
    "type T { a(b): Int }",
    "type T implements { a: Int }",
    "type T implements A B { a: Int }",
    "type T implements A & { a: Int }",
    "type T implements & A",
    "type T { a: Int!! }",
    "type T { a: [] }",
    "type T { a: [Int }",
    "type",
    "type { a: Int }",
    "interface I implements A & B",
    "union U",
    "union U =",
    "union U = |",
    "union U = A |",
    "union U = | A | B",
    "enum E",
    "enum E { }",
    "enum E { true }",
    "enum E { A null }",
    "input I { }",
    "input I { a }",
    "directive @d FIELD",
    "directive @d on",
    "directive @d on |",
    "directive @d on FOO",
    "directive @d on FIELD |",
    "directive d on FIELD",
    "directive @ on FIELD",
    "directive @d() on FIELD",
    "directive @d repeatable repeatable on FIELD",
    "directive @repeatable repeatable on | FIELD",
    "foo",
    "{ a } }",
    "{ a: }",
    "{ a: b: c }",
    "{ a(x: $) }",
    "{ a(x: [1 }",
    "{ a(x: [1,,2]) }",
    "{ a(x: true, y: null, z: on) }",
    "query on { on }",
    "query query { query }",
    "scalar S { a }",
    "scalar",
    "mutation { a } subscription S @d { a }",
    "{ a @ d }",
    "query ( $ v : Int ) { a }",
    "{ a @ }",
    "{ a(x: $ ) }",
    "query ($v: Int!!) { a }",
    "query ($v) { a }",
    "query ($v:) { a }",
    "query ($: Int) { a }",
    // lexical boundary (the lexer proper is C03's subject; these only pin the interface)
    "{ a \u{FEFF} b }",
    "\u{FEFF}{ a }",
    "{ a \u{000C} }",
    "{ a(x: 1.0e) }",
    "{ a(x: -) }",
    "{ a(x: .5) }",
    "{ a(x: 01) }",
    "{ a(x: 1a) }",
    "{ a(x: 1.5.) }",
    "{ a(x: 1)...F }",
    "{ a(x: \"\\u{1F600}\") }",
    "{ a(x: \"\\uD800\") }",
    "{ a(x: \"é\") # é\n }",
    "{ a(x: \"\"\" \\\"\"\" \"\"\") }",
    "{ a(x: \"\"\"\"\"\"\") }",
    "{ a(x: \"a\nb\") }",
    "{ a(x: \"a\u{0}b\") }",
    "{ a(x: \"\"\"a\u{0}b\"\"\") }",
    "{ a } # c\u{1}",
    "{ a \u{0} }",
];

fn finish_coverage(ctx: &mut Ctx, cov: &Coverage) {
    if cov.complete() {
        ctx.class("checklist", "all-decision-outcomes-generated");
    } else {
        ctx.note("checklist_missing", json!(cov.missing()));
    }
    for (k, n) in &cov.keyword_names {
        if *n > 0 {
            ctx.class("keyword_as_name", k);
        }
    }
}

/// Token-level mutants aimed at grammar boundaries, derived from one valid document.
fn targeted_mutants(ctx: &mut Ctx, st: &mut State, base: &str, doc: &DocInfo, pairs: bool) {
    let toks: Vec<&str> = text::crude_tokens(base);
    let significant: Vec<usize> = (0..toks.len())
        .filter(|&i| !toks[i].trim().is_empty() && !toks[i].starts_with('#') && toks[i] != ",")
        .collect();
    // (a) delete each significant token
    for &i in &significant {
        let s: String = toks[..i].concat() + " " + &toks[i + 1..].concat();
        check_case(ctx, st, &s, "delete_one");
    }
    // (b) empty each bracket group: ( … ) → ( ), { … } → { }, [ … ] → [ ]
    let mut stack: Vec<usize> = Vec::new();
    for &i in &significant {
        match toks[i] {
            "(" | "{" | "[" => stack.push(i),
            ")" | "}" | "]" => {
                if let Some(o) = stack.pop() {
                    if i > o + 1 {
                        let s: String = toks[..=o].concat() + " " + &toks[i..].concat();
                        check_case(ctx, st, &s, "empty_group");
                        // and drop the group with its brackets
                        let s: String = toks[..o].concat() + " " + &toks[i + 1..].concat();
                        check_case(ctx, st, &s, "drop_group");
                    }
                }
            }
            _ => {}
        }
    }
    // (c) a description in front of each top-level definition
    for d in &doc.defs {
        for desc in ["\"d\" ", "\"\"\"d\"\"\" "] {
            let s = format!("{}{}{}", &base[..d.start], desc, &base[d.start..]);
            check_case(ctx, st, &s, "describe_definition");
        }
    }
    // (d) replace each value-ish token after a `:` or `=` or `[` by a variable
    for w in significant.windows(2) {
        if matches!(toks[w[0]], ":" | "=" | "[") && !matches!(toks[w[1]], "[" | "{" | "$" | "]" | "}") {
            let s: String = toks[..w[1]].concat() + "$v" + &toks[w[1] + 1..].concat();
            check_case(ctx, st, &s, "variable_for_value");
        }
    }
    // (e) thorough: delete every pair of significant tokens of small documents
    if pairs && significant.len() <= 40 {
        for (a, &i) in significant.iter().enumerate() {
            for &k in &significant[a + 1..] {
                let s: String = toks[..i].concat() + " " + &toks[i + 1..k].concat() + " " + &toks[k + 1..].concat();
                check_case(ctx, st, &s, "delete_two");
            }
        }
    }
}

pub fn run(ctx: &mut Ctx) {
    let mut st = State::new();
    let mut cov = Coverage::default();

    // Phase 0: hand-judged boundary documents.
    if ctx.shard == 0 {
        for t in BOUNDARY_TEXTS {
            check_case(ctx, &mut st, t, "boundary");
        }
    }

    // Phase 1: corpora as they are (calibration: parser_ok must be accepted by the reference,
    // parser_err rejected — a disagreement there is either an oracle bug or a finding; it is
    // reported like any other disagreement).
    let files = corpus::all();
    ctx.note("corpus_files", json!(files.len()));
    for (i, f) in files.iter().enumerate() {
        if !ctx.mine(i as u64) {
            continue;
        }
        if let Some(v) = check_case(ctx, &mut st, &f.text, "corpus") {
            ctx.count(&format!("corpus:{}:{}", f.group, if v { "reference_accepts" } else { "reference_rejects" }), 1);
        }
    }

    // Phase 2: generated valid documents, their targeted and random token-level mutants, and
    // mutants of corpus files, until the budget is used.
    let thorough = !ctx.quick();
    let mut n = 0u64;
    while !ctx.time_up() {
        n += 1;
        let mut rng = ctx.sub_rng("c05-gen", n);
        let d = syntax::gen_document(&mut rng, &mut cov, if thorough { 6 } else { 4 });
        for h in &d.hits {
            ctx.class("production", h);
        }
        ctx.count("generated_documents", 1);
        let j = RefGrammar::parse_document(&d.text);
        check_case(ctx, &mut st, &d.text, "generated");
        ctx.sample(|| json!({"source": "generated", "text": clip(&d.text, 300)}));
        match &j {
            Ok(doc) => {
                // by-construction cross-check of the reference's definition list
                let got: Vec<(&str, Option<String>)> = doc.defs.iter().map(|x| (x.kind.as_str(), x.name.clone())).collect();
                if got != d.defs {
                    ctx.inconclusive(
                        "harness self-check: reference definition list differs from the generator's by-construction list",
                        json!({"text": d.text}),
                    );
                }
                targeted_mutants(ctx, &mut st, &d.text, doc, thorough && n % 4 == 0);
            }
            Err(r) => {
                ctx.inconclusive(
                    "harness self-check: generated document rejected by the reference grammar",
                    json!({"text": d.text, "site": r.site()}),
                );
            }
        }
        // ≥ 20 random token-level mutants of each generated document (1–3 mutation steps each)
        for k in 0..24u64 {
            let mut s = text::mutate_tokens(&mut rng, &d.text);
            for _ in 0..(k % 3) {
                s = text::mutate_tokens(&mut rng, &s);
            }
            check_case(ctx, &mut st, &s, "mutant");
        }
        // mutants of corpus documents
        if n % 4 == 0 && !files.is_empty() {
            let f = &files[rng.below(files.len())];
            if f.text.len() <= 6000 {
                for _ in 0..6 {
                    let mut s = text::mutate_tokens(&mut rng, &f.text);
                    if rng.bool() {
                        s = text::mutate_tokens(&mut rng, &s);
                    }
                    check_case(ctx, &mut st, &s, "corpus_mutant");
                }
            }
        }
        // splice of two generated documents at token boundaries (both sides of the boundary)
        if n % 8 == 0 {
            let d2 = syntax::gen_document(&mut rng, &mut cov, 2);
            let s = splice_tokens(&mut rng, &d.text, &d2.text);
            check_case(ctx, &mut st, &s, "splice");
        }
    }
    finish_coverage(ctx, &cov);
}

fn splice_tokens(rng: &mut Rng, a: &str, b: &str) -> String {
    let ta = text::crude_tokens(a);
    let tb = text::crude_tokens(b);
    let i = rng.below(ta.len() + 1);
    let j = rng.below(tb.len() + 1);
    ta[..i].concat() + " " + &tb[j..].concat()
}

pub fn replay(ctx: &mut Ctx, case: &Value) {
    if let Some(t) = case.get("text").and_then(|t| t.as_str()) {
        let mut st = State::new();
        check_case(ctx, &mut st, t, "replay");
    }
}
