//! Counting global allocator (C30's allocator-accounting monitor).
//!
//! Only two integers are kept: bytes currently live and the number of allocation calls. No
//! addresses are remembered, so the allocator cannot hide a leak from LSan/memcheck/Miri and does
//! not interfere with ASan's quarantine. `live_bytes()` is meaningful as a *difference* between two
//! points at which no other thread of the process allocates.

use std::alloc::{GlobalAlloc, Layout, System};
use std::sync::atomic::{AtomicIsize, AtomicUsize, Ordering};

static LIVE: AtomicIsize = AtomicIsize::new(0);
static CALLS: AtomicUsize = AtomicUsize::new(0);

pub struct Counting;

unsafe impl GlobalAlloc for Counting {
    unsafe fn alloc(&self, layout: Layout) -> *mut u8 {
        let p = System.alloc(layout);
        if !p.is_null() {
            LIVE.fetch_add(layout.size() as isize, Ordering::Relaxed);
            CALLS.fetch_add(1, Ordering::Relaxed);
        }
        p
    }

    unsafe fn alloc_zeroed(&self, layout: Layout) -> *mut u8 {
        let p = System.alloc_zeroed(layout);
        if !p.is_null() {
            LIVE.fetch_add(layout.size() as isize, Ordering::Relaxed);
            CALLS.fetch_add(1, Ordering::Relaxed);
        }
        p
    }

    unsafe fn dealloc(&self, ptr: *mut u8, layout: Layout) {
        System.dealloc(ptr, layout);
        LIVE.fetch_sub(layout.size() as isize, Ordering::Relaxed);
    }

    unsafe fn realloc(&self, ptr: *mut u8, layout: Layout, new_size: usize) -> *mut u8 {
        let p = System.realloc(ptr, layout, new_size);
        if !p.is_null() {
            LIVE.fetch_add(new_size as isize - layout.size() as isize, Ordering::Relaxed);
            CALLS.fetch_add(1, Ordering::Relaxed);
        }
        p
    }
}

#[global_allocator]
static GLOBAL: Counting = Counting;

/// Bytes allocated through the Rust global allocator and not yet freed, process-wide.
pub fn live_bytes() -> isize {
    LIVE.load(Ordering::Relaxed)
}

/// Number of allocation calls so far (alloc + alloc_zeroed + realloc), process-wide.
pub fn alloc_calls() -> usize {
    CALLS.load(Ordering::Relaxed)
}
