pub mod alloc_count;
pub mod corpus;
pub mod gen;
pub mod monitors;
pub mod prng;
pub mod refmodel;
pub mod rt;
