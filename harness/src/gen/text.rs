//! Text-level workload sources: character soup, lexeme soup, token mutators, nesting generators.

use crate::prng::Rng;

pub const HOSTILE_CHARS: &[&str] = &[
    "{", "}", "(", ")", "[", "]", "!", "$", "&", ":", "=", "@", "|", "...", ".", "..", ",", "\"",
    "\"\"\"", "\\", "#", " ", "\t", "\n", "\r", "\r\n", "\u{FEFF}", "\u{000C}", "\u{0085}",
    "\u{2028}", "\u{0}", "\u{1}", "\u{7f}", "é", "中", "🚀", "a", "Z", "_", "0", "1", "9", "e", "E",
    "+", "-", "u", "n", "x", "on", "\\u", "\\\"", "*", "?", "%", "~", "<", ">", "/", "'", "`", ";",
    "^",
];

pub const LEXEMES: &[&str] = &[
    "0", "-0", "00", "1", "-1", "12", "1.", "1.0", "1.e5", "1e", "1e+", "1e5", "1E-3", "1.5e+10",
    "0x", "0.0", "-0.0", ".5", "..", "...", "....", "1a", "1_", "0e0", "9999999999999999999999",
    "\"", "\"\"", "\"\"\"", "\"a\"", "\"\\n\"", "\"\\u12\"", "\"\\u0041\"", "\"\\uD800\"",
    "\"\\u{1F600}\"", "\"\\q\"", "\"a\nb\"", "\"\"\"a\"\"\"", "\"\"\"\\\"\"\"\"\"\"", "\"\"\"\n  a\n   b\n\"\"\"",
    "\"\"\"\"\"\"", "\"\"\"\"", "\"\"\"\"\"", "# c", "#", "# é\n", ",", ",,", "!", "$", "$a", "&", "(", ")", ":",
    "=", "@", "@a", "[", "]", "{", "}", "|", "name", "_x", "__typename", "query", "mutation",
    "subscription", "fragment", "on", "type", "interface", "union", "enum", "input", "scalar",
    "schema", "extend", "directive", "implements", "repeatable", "true", "false", "null", "Int",
    "String", "é", "\u{FEFF}", "\u{0}", "a1", "A", "x", "y", "T", "Q",
];

pub fn char_soup(rng: &mut Rng, max_items: usize) -> String {
    let n = rng.range(0, max_items);
    let mut s = String::new();
    for _ in 0..n {
        s.push_str(rng.pick_str(HOSTILE_CHARS));
    }
    s
}

pub fn lexeme_soup(rng: &mut Rng, max_items: usize) -> String {
    let n = rng.range(0, max_items);
    let seps = ["", " ", " ", "\n", ",", "  ", "\t"];
    let mut s = String::new();
    for _ in 0..n {
        s.push_str(rng.pick_str(LEXEMES));
        s.push_str(rng.pick_str(&seps));
    }
    s
}

/// Crude tokenizer for mutation purposes only (not an oracle): name/number runs, whitespace runs,
/// quoted strings (single line or block, no escape handling beyond `\"`), comments, `...`, single chars.
pub fn crude_tokens(s: &str) -> Vec<&str> {
    let b = s.as_bytes();
    let mut out = Vec::new();
    let mut i = 0;
    while i < b.len() {
        let start = i;
        let c = b[i];
        if c.is_ascii_alphanumeric() || c == b'_' {
            while i < b.len() && (b[i].is_ascii_alphanumeric() || b[i] == b'_') {
                i += 1;
            }
        } else if c == b' ' || c == b'\t' || c == b'\n' || c == b'\r' {
            while i < b.len() && matches!(b[i], b' ' | b'\t' | b'\n' | b'\r') {
                i += 1;
            }
        } else if c == b'#' {
            while i < b.len() && b[i] != b'\n' && b[i] != b'\r' {
                i += 1;
            }
        } else if b[i..].starts_with(b"\"\"\"") {
            i += 3;
            loop {
                if i >= b.len() {
                    break;
                }
                if b[i..].starts_with(b"\\\"\"\"") {
                    i += 4;
                } else if b[i..].starts_with(b"\"\"\"") {
                    i += 3;
                    break;
                } else {
                    i += 1;
                }
            }
        } else if c == b'"' {
            i += 1;
            while i < b.len() {
                if b[i] == b'\\' && i + 1 < b.len() {
                    i += 2;
                } else if b[i] == b'"' {
                    i += 1;
                    break;
                } else if b[i] == b'\n' || b[i] == b'\r' {
                    break;
                } else {
                    i += 1;
                }
            }
        } else if b[i..].starts_with(b"...") {
            i += 3;
        } else {
            i += 1;
        }
        while i < b.len() && !s.is_char_boundary(i) {
            i += 1;
        }
        out.push(&s[start..i]);
    }
    out
}

pub const MUT_TOKENS: &[&str] = &[
    "{", "}", "(", ")", "[", "]", "!", "$", "&", ":", "=", "@", "|", "...", ",", "on", "x", "T",
    "1", "1.5", "\"s\"", "\"\"\"b\"\"\"", "true", "null", "$v", "@d", "type", "extend", "query",
    "fragment", "implements", "repeatable", "schema", "é", "# c\n", "\n", " ", "", "-", ".", "\"",
    "union", "enum", "input", "interface", "scalar", "directive", "mutation", "subscription",
];

/// One random token-level mutation.
pub fn mutate_tokens(rng: &mut Rng, s: &str) -> String {
    let toks = crude_tokens(s);
    if toks.is_empty() {
        return rng.pick(MUT_TOKENS).to_string();
    }
    let mut v: Vec<String> = toks.iter().map(|t| t.to_string()).collect();
    // bias towards non-whitespace targets
    let pick_idx = |rng: &mut Rng, v: &Vec<String>| {
        for _ in 0..4 {
            let i = rng.below(v.len());
            if !v[i].trim().is_empty() {
                return i;
            }
        }
        rng.below(v.len())
    };
    match rng.below(8) {
        0 => {
            let i = pick_idx(rng, &v);
            v.remove(i);
        }
        1 => {
            let i = rng.below(v.len() + 1);
            v.insert(i, format!(" {} ", rng.pick(MUT_TOKENS)));
        }
        2 => {
            let i = pick_idx(rng, &v);
            let j = pick_idx(rng, &v);
            v.swap(i, j);
        }
        3 => {
            let i = pick_idx(rng, &v);
            let t = v[i].clone();
            v.insert(i, t);
        }
        4 => {
            let i = pick_idx(rng, &v);
            v[i] = rng.pick(MUT_TOKENS).to_string();
        }
        5 => {
            let i = rng.below(v.len());
            v.truncate(i);
        }
        6 => {
            // delete a run
            let i = rng.below(v.len());
            let n = rng.range(1, 6).min(v.len() - i);
            v.drain(i..i + n);
        }
        _ => {
            // insert without spaces (tests token adjacency)
            let i = rng.below(v.len() + 1);
            v.insert(i, rng.pick(MUT_TOKENS).to_string());
        }
    }
    v.concat()
}

/// All char-boundary prefixes offsets of `s`.
pub fn char_boundaries(s: &str) -> Vec<usize> {
    let mut v: Vec<usize> = s.char_indices().map(|(i, _)| i).collect();
    v.push(s.len());
    v
}

pub fn splice(rng: &mut Rng, a: &str, b: &str) -> String {
    let ab = char_boundaries(a);
    let bb = char_boundaries(b);
    let i = *rng.pick(&ab);
    let j = *rng.pick(&bb);
    format!("{}{}", &a[..i], &b[j..])
}

/// Families of deeply nested / long-chain inputs; `d` = depth or chain length.
pub const NEST_FAMILIES: &[&str] = &[
    "selection", "list_value", "object_value", "list_type", "var_list_type", "mixed_value",
    "inline_fragments", "open_selection", "open_list_value", "open_object_value", "open_list_type",
    "directive_args", "default_value", "field_set", "type_only", "parens", "extend_chain",
    "desc_chain", "alias_chain", "bang_chain", "open_parens", "dollar_chain", "at_chain",
    "implements_chain", "union_chain", "spread_chain", "colon_chain", "eq_chain",
];

pub fn nested(family: &str, d: usize) -> String {
    let rep = |s: &str, n: usize| s.repeat(n);
    match family {
        "selection" => format!("{}a{}", rep("{a", d), rep("}", d)).replacen("{a", "{ a", 0),
        "list_value" => format!("{{a(x:{}1{})}}", rep("[", d), rep("]", d)),
        "object_value" => format!("{{a(x:{}1{})}}", rep("{k:", d), rep("}", d)),
        "list_type" => format!("type T{{f:{}Int{}}}", rep("[", d), rep("]", d)),
        "var_list_type" => format!("query($v:{}Int{}){{a}}", rep("[", d), rep("]", d)),
        "mixed_value" => {
            let mut s = String::from("{a(x:");
            for i in 0..d {
                s.push_str(if i % 2 == 0 { "[" } else { "{k:" });
            }
            s.push('1');
            for i in (0..d).rev() {
                s.push_str(if i % 2 == 0 { "]" } else { "}" });
            }
            s.push_str(")}");
            s
        }
        "inline_fragments" => format!("{}a{}", rep("{...on T", d), rep("}", d)),
        "open_selection" => rep("{a", d),
        "open_list_value" => format!("{{a(x:{}", rep("[", d)),
        "open_object_value" => format!("{{a(x:{}", rep("{k:", d)),
        "open_list_type" => format!("type T{{f:{}", rep("[", d)),
        "directive_args" => format!("{{a {}}}", rep("@d(x:[1]) ", d)),
        "default_value" => format!("query($v:Int={}1{}){{a}}", rep("[", d), rep("]", d)),
        "field_set" => format!("{}a{}", rep("a{", d), rep("}", d)),
        "type_only" => format!("{}Int{}", rep("[", d), rep("]", d)),
        "parens" => format!("{{a{}}}", rep("(x:1)", d)),
        "extend_chain" => rep("extend ", d),
        "desc_chain" => rep("\"d\" ", d),
        "alias_chain" => format!("{{{}a}}", rep("a:", d)),
        "bang_chain" => format!("type T{{f:Int{}}}", rep("!", d)),
        "open_parens" => format!("{{a{}", rep("(", d)),
        "dollar_chain" => format!("query({}){{a}}", rep("$", d)),
        "at_chain" => format!("{{a{}}}", rep("@", d)),
        "implements_chain" => format!("type T implements {} {{f:Int}}", rep("I&", d)),
        "union_chain" => format!("union U = {}", rep("|A", d)),
        "spread_chain" => format!("{{{}}}", rep("...", d)),
        "colon_chain" => format!("{{a(x{}1)}}", rep(":", d)),
        "eq_chain" => format!("query($v:Int{}1){{a}}", rep("=", d)),
        _ => String::new(),
    }
}

/// Maximum bracket nesting of any of `{ [ (` ignoring strings/comments (crude; used only to decide
/// which recursion limits are fair to combine with an input).
pub fn bracket_nesting(s: &str) -> usize {
    let mut depth: usize = 0;
    let mut max = 0;
    for t in crude_tokens(s) {
        match t {
            "{" | "[" | "(" => {
                depth += 1;
                max = max.max(depth);
            }
            "}" | "]" | ")" => depth = depth.saturating_sub(1),
            _ => {}
        }
    }
    max
}

/// Count of opening brackets of any kind (upper bound on any nesting notion).
pub fn open_bracket_count(s: &str) -> usize {
    s.bytes().filter(|b| matches!(b, b'{' | b'[' | b'(')).count()
}
