//! Programmatic `apollo_compiler::ast` workload for the serialization monitors (C08, C09):
//!
//! * `SerCfg`: the serialization configurations of DESIGN §6 C08;
//! * `AstGen`: a quota-friendly random generator of syntactically valid `ast::Document` values
//!   (every definition and extension kind, directives at every location, all value kinds nested);
//! * `print_doc`: a small printer of its own (random trivia, never the code under test), so that
//!   model documents reach the monitors as text that apollo's serializer did not produce;
//! * `first_diff`: a structural diff naming the path class of the first differing component
//!   (violation signatures, Appendix C);
//! * `collect_strings`: every description / string value slot of a document, with a path label.

use crate::prng::Rng;
use apollo_compiler::ast::{self, Definition as D, Type, Value};
use apollo_compiler::{Name, Node};
use serde_json::{json, Value as J};

// ------------------------------------------------------------------------------------------------
// Serialization configurations
// ------------------------------------------------------------------------------------------------

#[derive(Clone, Debug, PartialEq, Eq)]
pub enum Indent {
    /// no builder call at all
    Default,
    /// `.no_indent()`
    None,
    /// `.indent_prefix(p)`, p made of GraphQL WhiteSpace (space, tab) only
    Prefix(String),
}

#[derive(Clone, Debug, PartialEq, Eq)]
pub struct SerCfg {
    pub indent: Indent,
    /// `.initial_indent_level(n)` when `Some`
    pub level: Option<usize>,
}

pub const PREFIXES: &[&str] = &["", " ", "\t", "    ", " \t", "  "];
pub const LEVELS: &[usize] = &[0, 1, 3];

impl SerCfg {
    pub fn default_cfg() -> SerCfg {
        SerCfg {
            indent: Indent::Default,
            level: None,
        }
    }

    /// 22 configurations: default (no builder call) and default x levels {1,3}; no_indent and
    /// no_indent x levels {1,3}; the five non-default whitespace prefixes x levels {0,1,3}; the
    /// default prefix given explicitly.
    pub fn all() -> Vec<SerCfg> {
        let mut v = vec![SerCfg::default_cfg()];
        for &l in &LEVELS[1..] {
            v.push(SerCfg { indent: Indent::Default, level: Some(l) });
        }
        v.push(SerCfg { indent: Indent::None, level: None });
        for &l in &LEVELS[1..] {
            v.push(SerCfg { indent: Indent::None, level: Some(l) });
        }
        for p in PREFIXES {
            if *p == "  " {
                v.push(SerCfg { indent: Indent::Prefix(p.to_string()), level: Some(0) });
                continue;
            }
            for &l in LEVELS {
                v.push(SerCfg { indent: Indent::Prefix(p.to_string()), level: Some(l) });
            }
        }
        v
    }

    pub fn ser_doc(&self, d: &ast::Document) -> String {
        let mut s = d.serialize();
        match &self.indent {
            Indent::Default => {}
            Indent::None => s = s.no_indent(),
            Indent::Prefix(p) => s = s.indent_prefix(p),
        }
        if let Some(l) = self.level {
            s = s.initial_indent_level(l);
        }
        s.to_string()
    }

    /// Configuration class used in signatures.
    pub fn class(&self) -> &'static str {
        match (&self.indent, self.level.unwrap_or(0)) {
            (Indent::None, _) => "no-indent",
            (_, 0) => "indent",
            (_, _) => "indent+level",
        }
    }

    pub fn label(&self) -> String {
        let i = match &self.indent {
            Indent::Default => "default".to_string(),
            Indent::None => "none".to_string(),
            Indent::Prefix(p) => format!("{p:?}"),
        };
        match self.level {
            None => i,
            Some(l) => format!("{i}@{l}"),
        }
    }

    pub fn to_json(&self) -> J {
        let i = match &self.indent {
            Indent::Default => json!("default"),
            Indent::None => json!("none"),
            Indent::Prefix(p) => json!({ "prefix": p }),
        };
        json!({"indent": i, "level": self.level})
    }

    pub fn from_json(v: &J) -> Option<SerCfg> {
        let i = v.get("indent")?;
        let indent = if let Some(s) = i.as_str() {
            match s {
                "default" => Indent::Default,
                "none" => Indent::None,
                _ => return None,
            }
        } else {
            Indent::Prefix(i.get("prefix")?.as_str()?.to_string())
        };
        let level = v.get("level").and_then(|l| l.as_u64()).map(|l| l as usize);
        Some(SerCfg { indent, level })
    }
}

/// Summarise the classes of the failing configurations among `all`: "any-config" when every
/// configuration fails, otherwise the sorted distinct classes joined with `+`.
pub fn cfg_class_of(failing: &[&SerCfg], total: usize) -> String {
    if failing.len() == total && total > 1 {
        return "any-config".to_string();
    }
    let mut c: Vec<&str> = failing.iter().map(|c| c.class()).collect();
    c.sort();
    c.dedup();
    c.join("+")
}

// ------------------------------------------------------------------------------------------------
// Random AST generator
// ------------------------------------------------------------------------------------------------

/// Names usable anywhere a Name is allowed (keywords included on purpose: they are contextual).
const NAMES: &[&str] = &[
    "a", "b", "c1", "_d", "__e", "T", "U", "Query", "Int", "String", "x", "y", "id", "type", "query", "fragment",
    "extend", "schema", "input", "enum", "implements", "repeatable", "directive", "mutation", "subscription",
    "interface", "union", "scalar", "True", "nul", "on", "A_1", "veryLongNameWithManyCharacters_0123456789",
];

pub const DEF_KINDS: &[&str] = &[
    "OperationDefinition",
    "FragmentDefinition",
    "DirectiveDefinition",
    "SchemaDefinition",
    "ScalarTypeDefinition",
    "ObjectTypeDefinition",
    "InterfaceTypeDefinition",
    "UnionTypeDefinition",
    "EnumTypeDefinition",
    "InputObjectTypeDefinition",
    "SchemaExtension",
    "ScalarTypeExtension",
    "ObjectTypeExtension",
    "InterfaceTypeExtension",
    "UnionTypeExtension",
    "EnumTypeExtension",
    "InputObjectTypeExtension",
];

pub fn def_kind(d: &D) -> &'static str {
    match d {
        D::OperationDefinition(_) => "OperationDefinition",
        D::FragmentDefinition(_) => "FragmentDefinition",
        D::DirectiveDefinition(_) => "DirectiveDefinition",
        D::SchemaDefinition(_) => "SchemaDefinition",
        D::ScalarTypeDefinition(_) => "ScalarTypeDefinition",
        D::ObjectTypeDefinition(_) => "ObjectTypeDefinition",
        D::InterfaceTypeDefinition(_) => "InterfaceTypeDefinition",
        D::UnionTypeDefinition(_) => "UnionTypeDefinition",
        D::EnumTypeDefinition(_) => "EnumTypeDefinition",
        D::InputObjectTypeDefinition(_) => "InputObjectTypeDefinition",
        D::SchemaExtension(_) => "SchemaExtension",
        D::ScalarTypeExtension(_) => "ScalarTypeExtension",
        D::ObjectTypeExtension(_) => "ObjectTypeExtension",
        D::InterfaceTypeExtension(_) => "InterfaceTypeExtension",
        D::UnionTypeExtension(_) => "UnionTypeExtension",
        D::EnumTypeExtension(_) => "EnumTypeExtension",
        D::InputObjectTypeExtension(_) => "InputObjectTypeExtension",
    }
}

const STRINGS: &[&str] = &[
    "",
    "s",
    "two words",
    "with \"quotes\"",
    "line1\nline2",
    " leading",
    "trailing ",
    "back\\slash",
    "tab\there",
    "cr\rhere",
    "é🚀中",
    "\"\"\"",
    "ends with quote\"",
    "a\n  b\n c",
    "\n",
    "  indented\n  block",
    "\u{0}\u{7}\u{1f}\u{7f}\u{2028}",
    "This description is longer than seventy characters so that the block string goes multi-line.",
    "first\n\nthird",
    "#not a comment",
    "a, b",
];

/// Line shapes a multi-line string is assembled from: empty, blank, text at several indentations,
/// text with trailing blanks.
pub const LINE_SHAPES: &[&str] = &["", " ", "  ", "a", " a", "  b", "\tc", "d ", "    e", "\"q"];

/// The `i`-th string of `n` lines over LINE_SHAPES (joined with `\n`).
pub fn nth_line_shape_string(mut i: u64, n: usize) -> String {
    let mut parts = Vec::with_capacity(n);
    for _ in 0..n {
        parts.push(LINE_SHAPES[(i % LINE_SHAPES.len() as u64) as usize]);
        i /= LINE_SHAPES.len() as u64;
    }
    parts.join("\n")
}

/// A random string of 2-5 lines over LINE_SHAPES, sometimes with every non-empty line indented
/// alike (empty lines stay empty).
pub fn line_shape_string(rng: &mut Rng) -> String {
    let n = rng.range(2, 5);
    let total = (LINE_SHAPES.len() as u64).pow(n as u32);
    let s = nth_line_shape_string(rng.below(total as usize) as u64, n);
    if rng.chance(1, 3) {
        let ind = rng.pick_str(&[" ", "  ", "\t"]);
        return s.split('\n').map(|l| if l.is_empty() { String::new() } else { format!("{ind}{l}") }).collect::<Vec<_>>().join("\n");
    }
    s
}

const INTS: &[&str] = &["0", "-0", "1", "-1", "7", "42", "2147483647", "-2147483648", "9999999999999999999999"];
const FLOATS: &[&str] = &["0.0", "-0.0", "1e5", "1E5", "1.5e+10", "1.0E-3", "0e0", "123.456", "-7.25", "1e-7", "6.02E23"];

const LOCATIONS: &[ast::DirectiveLocation] = &[
    ast::DirectiveLocation::Query,
    ast::DirectiveLocation::Mutation,
    ast::DirectiveLocation::Subscription,
    ast::DirectiveLocation::Field,
    ast::DirectiveLocation::FragmentDefinition,
    ast::DirectiveLocation::FragmentSpread,
    ast::DirectiveLocation::InlineFragment,
    ast::DirectiveLocation::VariableDefinition,
    ast::DirectiveLocation::Schema,
    ast::DirectiveLocation::Scalar,
    ast::DirectiveLocation::Object,
    ast::DirectiveLocation::FieldDefinition,
    ast::DirectiveLocation::ArgumentDefinition,
    ast::DirectiveLocation::Interface,
    ast::DirectiveLocation::Union,
    ast::DirectiveLocation::Enum,
    ast::DirectiveLocation::EnumValue,
    ast::DirectiveLocation::InputObject,
    ast::DirectiveLocation::InputFieldDefinition,
];

pub fn name(s: &str) -> Name {
    Name::new(s).expect("generator name")
}

pub struct AstGen<'r> {
    pub rng: &'r mut Rng,
    /// probability (percent) that an optional component is present
    pub density: usize,
}

impl<'r> AstGen<'r> {
    pub fn new(rng: &'r mut Rng) -> Self {
        let density = *rng.pick(&[15usize, 40, 60, 85]);
        AstGen { rng, density }
    }

    fn maybe(&mut self) -> bool {
        self.rng.below(100) < self.density
    }

    fn count(&mut self, max: usize) -> usize {
        if self.maybe() {
            self.rng.range(1, max)
        } else {
            0
        }
    }

    pub fn any_name(&mut self) -> Name {
        name(self.rng.pick_str(NAMES))
    }

    /// A name that is not `on` (fragment names) and not `true`/`false`/`null` (never in the pool).
    pub fn name_not_on(&mut self) -> Name {
        loop {
            let n = self.rng.pick_str(NAMES);
            if n != "on" {
                return name(n);
            }
        }
    }

    pub fn string(&mut self) -> String {
        if self.rng.chance(1, 4) {
            return line_shape_string(self.rng);
        }
        self.rng.pick_str(STRINGS).to_string()
    }

    pub fn description(&mut self) -> Option<Node<str>> {
        if self.maybe() {
            let s = self.string();
            Some(Node::new_str(&s))
        } else {
            None
        }
    }

    pub fn ty(&mut self) -> Type {
        let mut t = if self.rng.bool() {
            Type::Named(self.any_name())
        } else {
            Type::NonNullNamed(self.any_name())
        };
        let depth = *self.rng.pick(&[0usize, 0, 0, 1, 1, 2, 3]);
        for _ in 0..depth {
            t = if self.rng.bool() {
                Type::List(Box::new(t))
            } else {
                Type::NonNullList(Box::new(t))
            };
        }
        t
    }

    pub fn value(&mut self, depth: usize, allow_var: bool) -> Value {
        let k = if depth == 0 { self.rng.below(7) } else { self.rng.below(9) };
        match k {
            0 => Value::Null,
            1 => Value::Boolean(self.rng.bool()),
            2 => Value::Enum(self.any_name()),
            3 => {
                if allow_var {
                    Value::Variable(self.any_name())
                } else {
                    Value::Enum(self.any_name())
                }
            }
            4 => Value::String(self.string()),
            5 => {
                if self.rng.bool() {
                    Value::Int(ast::IntValue::new_parsed(self.rng.pick_str(INTS)))
                } else {
                    Value::Int(ast::IntValue::new_parsed(&(self.rng.next_u32() as i32).to_string()))
                }
            }
            6 => {
                if self.rng.bool() {
                    Value::Float(ast::FloatValue::new_parsed(self.rng.pick_str(FLOATS)))
                } else {
                    // printed here, not through `From<f64>` (that conversion is C10's subject)
                    let x = (self.rng.f64_unit() - 0.5) * 10f64.powi(self.rng.range(0, 12) as i32 - 4);
                    let prec = self.rng.range(1, 6);
                    Value::Float(ast::FloatValue::new_parsed(&format!("{x:.prec$}")))
                }
            }
            7 => {
                let n = self.rng.below(4);
                Value::List((0..n).map(|_| Node::new(self.value(depth - 1, allow_var))).collect())
            }
            _ => {
                let n = self.rng.below(4);
                Value::Object(
                    (0..n)
                        .map(|_| (self.any_name(), Node::new(self.value(depth - 1, allow_var))))
                        .collect(),
                )
            }
        }
    }

    pub fn arguments(&mut self, allow_var: bool) -> Vec<Node<ast::Argument>> {
        let n = self.count(3);
        (0..n)
            .map(|_| {
                Node::new(ast::Argument {
                    name: self.any_name(),
                    value: Node::new(self.value(3, allow_var)),
                })
            })
            .collect()
    }

    pub fn directives(&mut self, allow_var: bool) -> ast::DirectiveList {
        let n = self.count(2);
        ast::DirectiveList(
            (0..n)
                .map(|_| {
                    Node::new(ast::Directive {
                        name: self.any_name(),
                        arguments: self.arguments(allow_var),
                    })
                })
                .collect(),
        )
    }

    /// Directives, at least one.
    fn directives1(&mut self, allow_var: bool) -> ast::DirectiveList {
        let mut d = self.directives(allow_var);
        if d.is_empty() {
            d.push(ast::Directive {
                name: self.any_name(),
                arguments: self.arguments(allow_var),
            });
        }
        d
    }

    pub fn input_value_definition(&mut self) -> Node<ast::InputValueDefinition> {
        Node::new(ast::InputValueDefinition {
            description: self.description(),
            name: self.any_name(),
            ty: Node::new(self.ty()),
            default_value: if self.maybe() { Some(Node::new(self.value(3, false))) } else { None },
            directives: self.directives(false),
        })
    }

    pub fn field_definition(&mut self) -> Node<ast::FieldDefinition> {
        let n = self.count(3);
        Node::new(ast::FieldDefinition {
            description: self.description(),
            name: self.any_name(),
            arguments: (0..n).map(|_| self.input_value_definition()).collect(),
            ty: self.ty(),
            directives: self.directives(false),
        })
    }

    pub fn enum_value_definition(&mut self) -> Node<ast::EnumValueDefinition> {
        Node::new(ast::EnumValueDefinition {
            description: self.description(),
            value: self.any_name(),
            directives: self.directives(false),
        })
    }

    pub fn selection_set(&mut self, depth: usize) -> Vec<ast::Selection> {
        let n = self.rng.range(1, 3);
        (0..n).map(|_| self.selection(depth)).collect()
    }

    pub fn selection(&mut self, depth: usize) -> ast::Selection {
        match self.rng.below(if depth == 0 { 4 } else { 6 }) {
            0..=2 => ast::Selection::Field(Node::new(ast::Field {
                alias: if self.maybe() { Some(self.any_name()) } else { None },
                name: self.any_name(),
                arguments: self.arguments(true),
                directives: self.directives(true),
                selection_set: if depth > 0 && self.maybe() { self.selection_set(depth - 1) } else { Vec::new() },
            })),
            3 => ast::Selection::FragmentSpread(Node::new(ast::FragmentSpread {
                fragment_name: self.name_not_on(),
                directives: self.directives(true),
            })),
            _ => ast::Selection::InlineFragment(Node::new(ast::InlineFragment {
                type_condition: if self.rng.bool() { Some(self.any_name()) } else { None },
                directives: self.directives(true),
                selection_set: self.selection_set(depth - 1),
            })),
        }
    }

    pub fn variable_definition(&mut self) -> Node<ast::VariableDefinition> {
        Node::new(ast::VariableDefinition {
            name: self.any_name(),
            ty: Node::new(self.ty()),
            default_value: if self.maybe() { Some(Node::new(self.value(3, false))) } else { None },
            directives: self.directives(false),
        })
    }

    pub fn operation_type(&mut self) -> ast::OperationType {
        *self.rng.pick(&[
            ast::OperationType::Query,
            ast::OperationType::Query,
            ast::OperationType::Mutation,
            ast::OperationType::Subscription,
        ])
    }

    fn root_operations(&mut self, min: usize) -> Vec<Node<(ast::OperationType, Name)>> {
        let n = self.rng.range(min, 3);
        (0..n).map(|_| Node::new((self.operation_type(), self.any_name()))).collect()
    }

    fn names(&mut self, max: usize) -> Vec<Name> {
        let n = self.count(max);
        (0..n).map(|_| self.any_name()).collect()
    }

    fn fields(&mut self) -> Vec<Node<ast::FieldDefinition>> {
        let n = self.count(3);
        (0..n).map(|_| self.field_definition()).collect()
    }

    fn input_fields(&mut self) -> Vec<Node<ast::InputValueDefinition>> {
        let n = self.count(3);
        (0..n).map(|_| self.input_value_definition()).collect()
    }

    fn enum_values(&mut self) -> Vec<Node<ast::EnumValueDefinition>> {
        let n = self.count(3);
        (0..n).map(|_| self.enum_value_definition()).collect()
    }

    /// One definition of the given kind (index into `DEF_KINDS`), syntactically valid.
    pub fn definition(&mut self, kind: usize) -> D {
        match kind {
            0 => {
                let nv = self.count(3);
                D::OperationDefinition(Node::new(ast::OperationDefinition {
                    operation_type: self.operation_type(),
                    name: if self.rng.bool() { Some(self.any_name()) } else { None },
                    variables: (0..nv).map(|_| self.variable_definition()).collect(),
                    directives: self.directives(true),
                    selection_set: self.selection_set(3),
                }))
            }
            1 => D::FragmentDefinition(Node::new(ast::FragmentDefinition {
                name: self.name_not_on(),
                type_condition: self.any_name(),
                directives: self.directives(true),
                selection_set: self.selection_set(3),
            })),
            2 => {
                let na = self.count(3);
                let nl = self.rng.range(1, 4);
                D::DirectiveDefinition(Node::new(ast::DirectiveDefinition {
                    description: self.description(),
                    name: self.any_name(),
                    arguments: (0..na).map(|_| self.input_value_definition()).collect(),
                    repeatable: self.rng.bool(),
                    locations: (0..nl).map(|_| *self.rng.pick(LOCATIONS)).collect(),
                }))
            }
            3 => D::SchemaDefinition(Node::new(ast::SchemaDefinition {
                description: self.description(),
                directives: self.directives(false),
                root_operations: self.root_operations(1),
            })),
            4 => D::ScalarTypeDefinition(Node::new(ast::ScalarTypeDefinition {
                description: self.description(),
                name: self.any_name(),
                directives: self.directives(false),
            })),
            5 => D::ObjectTypeDefinition(Node::new(ast::ObjectTypeDefinition {
                description: self.description(),
                name: self.any_name(),
                implements_interfaces: self.names(3),
                directives: self.directives(false),
                fields: self.fields(),
            })),
            6 => D::InterfaceTypeDefinition(Node::new(ast::InterfaceTypeDefinition {
                description: self.description(),
                name: self.any_name(),
                implements_interfaces: self.names(3),
                directives: self.directives(false),
                fields: self.fields(),
            })),
            7 => D::UnionTypeDefinition(Node::new(ast::UnionTypeDefinition {
                description: self.description(),
                name: self.any_name(),
                directives: self.directives(false),
                members: self.names(3),
            })),
            8 => D::EnumTypeDefinition(Node::new(ast::EnumTypeDefinition {
                description: self.description(),
                name: self.any_name(),
                directives: self.directives(false),
                values: self.enum_values(),
            })),
            9 => D::InputObjectTypeDefinition(Node::new(ast::InputObjectTypeDefinition {
                description: self.description(),
                name: self.any_name(),
                directives: self.directives(false),
                fields: self.input_fields(),
            })),
            10 => {
                let root_operations = if self.rng.bool() { self.root_operations(1) } else { Vec::new() };
                let directives = if root_operations.is_empty() { self.directives1(false) } else { self.directives(false) };
                D::SchemaExtension(Node::new(ast::SchemaExtension {
                    directives,
                    root_operations,
                }))
            }
            11 => D::ScalarTypeExtension(Node::new(ast::ScalarTypeExtension {
                name: self.any_name(),
                directives: self.directives1(false),
            })),
            12 | 13 => {
                let implements_interfaces = self.names(3);
                let fields = self.fields();
                let directives = if implements_interfaces.is_empty() && fields.is_empty() {
                    self.directives1(false)
                } else {
                    self.directives(false)
                };
                if kind == 12 {
                    D::ObjectTypeExtension(Node::new(ast::ObjectTypeExtension {
                        name: self.any_name(),
                        implements_interfaces,
                        directives,
                        fields,
                    }))
                } else {
                    D::InterfaceTypeExtension(Node::new(ast::InterfaceTypeExtension {
                        name: self.any_name(),
                        implements_interfaces,
                        directives,
                        fields,
                    }))
                }
            }
            14 => {
                let members = self.names(3);
                let directives = if members.is_empty() { self.directives1(false) } else { self.directives(false) };
                D::UnionTypeExtension(Node::new(ast::UnionTypeExtension {
                    name: self.any_name(),
                    directives,
                    members,
                }))
            }
            15 => {
                let values = self.enum_values();
                let directives = if values.is_empty() { self.directives1(false) } else { self.directives(false) };
                D::EnumTypeExtension(Node::new(ast::EnumTypeExtension {
                    name: self.any_name(),
                    directives,
                    values,
                }))
            }
            _ => {
                let fields = self.input_fields();
                let directives = if fields.is_empty() { self.directives1(false) } else { self.directives(false) };
                D::InputObjectTypeExtension(Node::new(ast::InputObjectTypeExtension {
                    name: self.any_name(),
                    directives,
                    fields,
                }))
            }
        }
    }

    /// An anonymous operation with the requested extras.
    pub fn anonymous_operation(&mut self, ty: ast::OperationType, with_vars: bool, with_dirs: bool) -> D {
        D::OperationDefinition(Node::new(ast::OperationDefinition {
            operation_type: ty,
            name: None,
            variables: if with_vars { vec![self.variable_definition()] } else { Vec::new() },
            directives: if with_dirs { self.directives1(true) } else { ast::DirectiveList::default() },
            selection_set: self.selection_set(2),
        }))
    }

    /// A document of 1..=max random definitions.
    pub fn document(&mut self, max: usize) -> ast::Document {
        let n = self.rng.range(1, max);
        let mut d = ast::Document::new();
        for _ in 0..n {
            // operations are over-represented: shorthand placement is the delicate part
            let k = if self.rng.chance(1, 4) { 0 } else { self.rng.below(DEF_KINDS.len()) };
            d.definitions.push(self.definition(k));
        }
        d
    }

    /// One definition of every kind in random order.
    pub fn full_document(&mut self) -> ast::Document {
        let mut kinds: Vec<usize> = (0..DEF_KINDS.len()).collect();
        self.rng.shuffle(&mut kinds);
        let mut d = ast::Document::new();
        for k in kinds {
            d.definitions.push(self.definition(k));
        }
        d
    }

    /// The shorthand-placement scenarios of DESIGN §6 C08; `which` in 0..SHORTHAND_SCENARIOS.
    pub fn shorthand_scenario(&mut self, which: usize) -> (&'static str, ast::Document) {
        use ast::OperationType::*;
        let mut d = ast::Document::new();
        let label = match which {
            0 => {
                d.definitions.push(self.anonymous_operation(Query, false, false));
                "anon_query_only"
            }
            1 => {
                d.definitions.push(self.anonymous_operation(Query, false, false));
                let k = self.rng.below(DEF_KINDS.len());
                d.definitions.push(self.definition(k));
                "anon_query_first"
            }
            2 => {
                let k = self.rng.range(1, DEF_KINDS.len() - 1);
                d.definitions.push(self.definition(k));
                d.definitions.push(self.anonymous_operation(Query, false, false));
                "anon_query_not_first"
            }
            3 => {
                // after a description-bearing definition
                let k = *self.rng.pick(&[2usize, 3, 4, 5, 6, 7, 8, 9]);
                let mut def = self.definition(k);
                set_description(&mut def, Some(Node::new_str("described")));
                d.definitions.push(def);
                d.definitions.push(self.anonymous_operation(Query, false, false));
                "anon_query_after_description"
            }
            4 => {
                d.definitions.push(self.anonymous_operation(Query, false, true));
                "anon_query_with_directives"
            }
            5 => {
                d.definitions.push(self.anonymous_operation(Query, true, false));
                "anon_query_with_variables"
            }
            6 => {
                d.definitions.push(self.anonymous_operation(Mutation, false, false));
                d.definitions.push(self.anonymous_operation(Subscription, true, true));
                "anon_mutation_subscription"
            }
            7 => {
                // anonymous query after definitions that end without a closing brace
                let k = *self.rng.pick(&[4usize, 7, 11, 14, 2]);
                d.definitions.push(self.definition(k));
                d.definitions.push(self.anonymous_operation(Query, false, false));
                d.definitions.push(self.anonymous_operation(Query, false, false));
                "anon_query_twice_after_braceless"
            }
            _ => {
                // field-less type definitions followed by an anonymous query
                d.definitions.push(D::ObjectTypeDefinition(Node::new(ast::ObjectTypeDefinition {
                    description: None,
                    name: self.any_name(),
                    implements_interfaces: Vec::new(),
                    directives: ast::DirectiveList::default(),
                    fields: Vec::new(),
                })));
                d.definitions.push(self.anonymous_operation(Query, false, false));
                "anon_query_after_fieldless_type"
            }
        };
        (label, d)
    }
}

pub const SHORTHAND_SCENARIOS: usize = 9;

pub fn set_description(def: &mut D, desc: Option<Node<str>>) {
    match def {
        D::DirectiveDefinition(x) => x.make_mut().description = desc,
        D::SchemaDefinition(x) => x.make_mut().description = desc,
        D::ScalarTypeDefinition(x) => x.make_mut().description = desc,
        D::ObjectTypeDefinition(x) => x.make_mut().description = desc,
        D::InterfaceTypeDefinition(x) => x.make_mut().description = desc,
        D::UnionTypeDefinition(x) => x.make_mut().description = desc,
        D::EnumTypeDefinition(x) => x.make_mut().description = desc,
        D::InputObjectTypeDefinition(x) => x.make_mut().description = desc,
        _ => {}
    }
}

// ------------------------------------------------------------------------------------------------
// Feature classes of a document (coverage evidence)
// ------------------------------------------------------------------------------------------------

/// Coverage classes reached by a document: definition kinds, directive locations, value kinds,
/// shorthand placement classes.
pub fn features(doc: &ast::Document, out: &mut Vec<String>) {
    let mut w = Walker { out, ctx: Vec::new() };
    for (i, def) in doc.definitions.iter().enumerate() {
        w.out.push(format!("def:{}", def_kind(def)));
        if let D::OperationDefinition(op) = def {
            if op.name.is_none() {
                let plain = op.variables.is_empty() && op.directives.is_empty();
                let q = op.operation_type == ast::OperationType::Query;
                w.out.push(
                    match (q && plain, i == 0) {
                        (true, true) => "op:shorthand-eligible-first",
                        (true, false) => "op:shorthand-eligible-not-first",
                        (false, _) => "op:anonymous-with-type-vars-or-directives",
                    }
                    .to_string(),
                );
                if i > 0 && has_description(&doc.definitions[i - 1]) {
                    w.out.push("op:anonymous-after-described-definition".to_string());
                }
                if !op.variables.is_empty() {
                    w.out.push("op:anonymous-with-variables".to_string());
                }
                if !op.directives.is_empty() {
                    w.out.push("op:anonymous-with-directives".to_string());
                }
            }
        }
        w.definition(def);
    }
}

fn has_description(def: &D) -> bool {
    match def {
        D::DirectiveDefinition(x) => x.description.is_some(),
        D::SchemaDefinition(x) => x.description.is_some(),
        D::ScalarTypeDefinition(x) => x.description.is_some(),
        D::ObjectTypeDefinition(x) => x.description.is_some(),
        D::InterfaceTypeDefinition(x) => x.description.is_some(),
        D::UnionTypeDefinition(x) => x.description.is_some(),
        D::EnumTypeDefinition(x) => x.description.is_some(),
        D::InputObjectTypeDefinition(x) => x.description.is_some(),
        _ => false,
    }
}

struct Walker<'o> {
    out: &'o mut Vec<String>,
    ctx: Vec<&'static str>,
}

impl Walker<'_> {
    fn dirs(&mut self, loc: &'static str, d: &ast::DirectiveList) {
        for dir in d.iter() {
            self.out.push(format!("directive-at:{loc}"));
            for a in &dir.arguments {
                self.value(&a.value, 0);
            }
        }
    }
    fn value(&mut self, v: &Value, depth: usize) {
        let k = value_kind(v);
        self.out.push(if depth == 0 { format!("value:{k}") } else { format!("value-nested:{k}") });
        match v {
            Value::List(l) => l.iter().for_each(|x| self.value(x, depth + 1)),
            Value::Object(o) => o.iter().for_each(|(_, x)| self.value(x, depth + 1)),
            _ => {}
        }
    }
    fn ivd(&mut self, loc: &'static str, v: &ast::InputValueDefinition) {
        if v.description.is_some() {
            self.out.push(format!("description-at:{loc}"));
        }
        if let Some(d) = &v.default_value {
            self.out.push(format!("default-at:{loc}"));
            self.value(d, 0);
        }
        self.dirs(loc, &v.directives);
    }
    fn fields(&mut self, fields: &[Node<ast::FieldDefinition>]) {
        for f in fields {
            if f.description.is_some() {
                self.out.push("description-at:FIELD_DEFINITION".into());
            }
            self.dirs("FIELD_DEFINITION", &f.directives);
            for a in &f.arguments {
                self.ivd("ARGUMENT_DEFINITION", a);
            }
        }
    }
    fn selections(&mut self, s: &[ast::Selection]) {
        for sel in s {
            match sel {
                ast::Selection::Field(f) => {
                    self.dirs("FIELD", &f.directives);
                    for a in &f.arguments {
                        self.value(&a.value, 0);
                    }
                    self.selections(&f.selection_set);
                }
                ast::Selection::FragmentSpread(f) => self.dirs("FRAGMENT_SPREAD", &f.directives),
                ast::Selection::InlineFragment(f) => {
                    self.dirs("INLINE_FRAGMENT", &f.directives);
                    self.out.push(
                        if f.type_condition.is_some() { "inline-fragment:typed" } else { "inline-fragment:untyped" }.into(),
                    );
                    self.selections(&f.selection_set);
                }
            }
        }
    }
    fn definition(&mut self, def: &D) {
        let _ = &self.ctx;
        match def {
            D::OperationDefinition(op) => {
                let loc = match op.operation_type {
                    ast::OperationType::Query => "QUERY",
                    ast::OperationType::Mutation => "MUTATION",
                    ast::OperationType::Subscription => "SUBSCRIPTION",
                };
                self.dirs(loc, &op.directives);
                for v in &op.variables {
                    self.dirs("VARIABLE_DEFINITION", &v.directives);
                    if let Some(d) = &v.default_value {
                        self.out.push("default-at:VARIABLE_DEFINITION".into());
                        self.value(d, 0);
                    }
                }
                self.selections(&op.selection_set);
            }
            D::FragmentDefinition(f) => {
                self.dirs("FRAGMENT_DEFINITION", &f.directives);
                self.selections(&f.selection_set);
            }
            D::DirectiveDefinition(d) => {
                for a in &d.arguments {
                    self.ivd("ARGUMENT_DEFINITION(directive)", a);
                }
                if d.repeatable {
                    self.out.push("directive-definition:repeatable".into());
                }
            }
            D::SchemaDefinition(s) => self.dirs("SCHEMA", &s.directives),
            D::SchemaExtension(s) => self.dirs("SCHEMA(extension)", &s.directives),
            D::ScalarTypeDefinition(s) => self.dirs("SCALAR", &s.directives),
            D::ScalarTypeExtension(s) => self.dirs("SCALAR(extension)", &s.directives),
            D::ObjectTypeDefinition(t) => {
                self.dirs("OBJECT", &t.directives);
                self.fields(&t.fields);
            }
            D::ObjectTypeExtension(t) => {
                self.dirs("OBJECT(extension)", &t.directives);
                self.fields(&t.fields);
            }
            D::InterfaceTypeDefinition(t) => {
                self.dirs("INTERFACE", &t.directives);
                self.fields(&t.fields);
            }
            D::InterfaceTypeExtension(t) => {
                self.dirs("INTERFACE(extension)", &t.directives);
                self.fields(&t.fields);
            }
            D::UnionTypeDefinition(t) => self.dirs("UNION", &t.directives),
            D::UnionTypeExtension(t) => self.dirs("UNION(extension)", &t.directives),
            D::EnumTypeDefinition(t) => {
                self.dirs("ENUM", &t.directives);
                for v in &t.values {
                    self.dirs("ENUM_VALUE", &v.directives);
                }
            }
            D::EnumTypeExtension(t) => {
                self.dirs("ENUM(extension)", &t.directives);
                for v in &t.values {
                    self.dirs("ENUM_VALUE", &v.directives);
                }
            }
            D::InputObjectTypeDefinition(t) => {
                self.dirs("INPUT_OBJECT", &t.directives);
                for f in &t.fields {
                    self.ivd("INPUT_FIELD_DEFINITION", f);
                }
            }
            D::InputObjectTypeExtension(t) => {
                self.dirs("INPUT_OBJECT(extension)", &t.directives);
                for f in &t.fields {
                    self.ivd("INPUT_FIELD_DEFINITION", f);
                }
            }
        }
    }
}

pub fn value_kind(v: &Value) -> &'static str {
    match v {
        Value::Null => "Null",
        Value::Enum(_) => "Enum",
        Value::Variable(_) => "Variable",
        Value::String(_) => "String",
        Value::Float(_) => "Float",
        Value::Int(_) => "Int",
        Value::Boolean(_) => "Boolean",
        Value::List(_) => "List",
        Value::Object(_) => "Object",
    }
}

// ------------------------------------------------------------------------------------------------
// An independent printer (never the code under test)
// ------------------------------------------------------------------------------------------------

struct Printer {
    toks: Vec<String>,
}

fn is_punct(t: &str) -> bool {
    matches!(t, "{" | "}" | "(" | ")" | "[" | "]" | "!" | ":" | "=" | "|" | "&" | "...")
}

impl Printer {
    fn t(&mut self, s: &str) {
        self.toks.push(s.to_string());
    }

    fn string(&mut self, s: &str, rng: &mut Rng) {
        let simple = !s.is_empty()
            && s.chars().all(|c| c.is_ascii_alphanumeric() || matches!(c, ' ' | ',' | '.' | '!' | '?' | 'é' | '\n'))
            && s.split('\n').all(|l| !l.is_empty() && !l.starts_with(' ') && !l.ends_with(' '));
        if simple && rng.chance(1, 2) {
            if rng.bool() && !s.contains('\n') {
                self.toks.push(format!("\"\"\"{s}\"\"\""));
            } else {
                let ind = rng.pick_str(&["", "  ", "\t", "    "]);
                let mut b = String::from("\"\"\"\n");
                for l in s.split('\n') {
                    b.push_str(ind);
                    b.push_str(l);
                    b.push('\n');
                }
                b.push_str(ind);
                b.push_str("\"\"\"");
                self.toks.push(b);
            }
            return;
        }
        let mut q = String::from("\"");
        for c in s.chars() {
            match c {
                '"' => q.push_str("\\\""),
                '\\' => q.push_str("\\\\"),
                '\n' if rng.bool() => q.push_str("\\n"),
                c if (c as u32) < 0x20 => q.push_str(&format!("\\u{:04x}", c as u32)),
                'é' if rng.bool() => q.push_str("\\u00E9"),
                c => q.push(c),
            }
        }
        q.push('"');
        self.toks.push(q);
    }

    fn desc(&mut self, d: &Option<Node<str>>, rng: &mut Rng) {
        if let Some(d) = d {
            self.string(d, rng);
        }
    }

    fn ty(&mut self, t: &Type) {
        match t {
            Type::Named(n) => self.t(n),
            Type::NonNullNamed(n) => {
                self.t(n);
                self.t("!");
            }
            Type::List(i) => {
                self.t("[");
                self.ty(i);
                self.t("]");
            }
            Type::NonNullList(i) => {
                self.t("[");
                self.ty(i);
                self.t("]");
                self.t("!");
            }
        }
    }

    fn value(&mut self, v: &Value, rng: &mut Rng) {
        match v {
            Value::Null => self.t("null"),
            Value::Boolean(b) => self.t(if *b { "true" } else { "false" }),
            Value::Enum(n) => self.t(n),
            Value::Variable(n) => self.toks.push(format!("${n}")),
            Value::String(s) => self.string(s, rng),
            Value::Int(i) => self.t(i.as_str()),
            Value::Float(f) => self.t(f.as_str()),
            Value::List(l) => {
                self.t("[");
                for x in l {
                    self.value(x, rng);
                }
                self.t("]");
            }
            Value::Object(o) => {
                self.t("{");
                for (k, x) in o {
                    self.t(k);
                    self.t(":");
                    self.value(x, rng);
                }
                self.t("}");
            }
        }
    }

    fn args(&mut self, a: &[Node<ast::Argument>], rng: &mut Rng) {
        if a.is_empty() {
            return;
        }
        self.t("(");
        for x in a {
            self.t(&x.name);
            self.t(":");
            self.value(&x.value, rng);
        }
        self.t(")");
    }

    fn dirs(&mut self, d: &ast::DirectiveList, rng: &mut Rng) {
        for x in d.iter() {
            self.toks.push(format!("@{}", x.name));
            self.args(&x.arguments, rng);
        }
    }

    fn ivd(&mut self, v: &ast::InputValueDefinition, rng: &mut Rng) {
        self.desc(&v.description, rng);
        self.t(&v.name);
        self.t(":");
        self.ty(&v.ty);
        if let Some(d) = &v.default_value {
            self.t("=");
            self.value(d, rng);
        }
        self.dirs(&v.directives, rng);
    }

    fn arg_defs(&mut self, a: &[Node<ast::InputValueDefinition>], rng: &mut Rng) {
        if a.is_empty() {
            return;
        }
        self.t("(");
        for x in a {
            self.ivd(x, rng);
        }
        self.t(")");
    }

    fn fields(&mut self, f: &[Node<ast::FieldDefinition>], rng: &mut Rng) {
        if f.is_empty() {
            return;
        }
        self.t("{");
        for x in f {
            self.desc(&x.description, rng);
            self.t(&x.name);
            self.arg_defs(&x.arguments, rng);
            self.t(":");
            self.ty(&x.ty);
            self.dirs(&x.directives, rng);
        }
        self.t("}");
    }

    fn input_fields(&mut self, f: &[Node<ast::InputValueDefinition>], rng: &mut Rng) {
        if f.is_empty() {
            return;
        }
        self.t("{");
        for x in f {
            self.ivd(x, rng);
        }
        self.t("}");
    }

    fn enum_values(&mut self, f: &[Node<ast::EnumValueDefinition>], rng: &mut Rng) {
        if f.is_empty() {
            return;
        }
        self.t("{");
        for x in f {
            self.desc(&x.description, rng);
            self.t(&x.value);
            self.dirs(&x.directives, rng);
        }
        self.t("}");
    }

    fn implements(&mut self, i: &[Name], rng: &mut Rng) {
        if i.is_empty() {
            return;
        }
        self.t("implements");
        if rng.chance(1, 4) {
            self.t("&");
        }
        for (k, n) in i.iter().enumerate() {
            if k > 0 {
                self.t("&");
            }
            self.t(n);
        }
    }

    fn members(&mut self, m: &[Name], rng: &mut Rng) {
        if m.is_empty() {
            return;
        }
        self.t("=");
        if rng.chance(1, 4) {
            self.t("|");
        }
        for (k, n) in m.iter().enumerate() {
            if k > 0 {
                self.t("|");
            }
            self.t(n);
        }
    }

    fn root_ops(&mut self, r: &[Node<(ast::OperationType, Name)>], force: bool) {
        if r.is_empty() && !force {
            return;
        }
        self.t("{");
        for x in r {
            self.t(x.0.name());
            self.t(":");
            self.t(&x.1);
        }
        self.t("}");
    }

    fn selection_set(&mut self, s: &[ast::Selection], rng: &mut Rng) {
        self.t("{");
        for sel in s {
            match sel {
                ast::Selection::Field(f) => {
                    if let Some(a) = &f.alias {
                        self.t(a);
                        self.t(":");
                    }
                    self.t(&f.name);
                    self.args(&f.arguments, rng);
                    self.dirs(&f.directives, rng);
                    if !f.selection_set.is_empty() {
                        self.selection_set(&f.selection_set, rng);
                    }
                }
                ast::Selection::FragmentSpread(f) => {
                    self.t("...");
                    self.t(&f.fragment_name);
                    self.dirs(&f.directives, rng);
                }
                ast::Selection::InlineFragment(f) => {
                    self.t("...");
                    if let Some(tc) = &f.type_condition {
                        self.t("on");
                        self.t(tc);
                    }
                    self.dirs(&f.directives, rng);
                    self.selection_set(&f.selection_set, rng);
                }
            }
        }
        self.t("}");
    }

    fn definition(&mut self, def: &D, first: bool, rng: &mut Rng) {
        match def {
            D::OperationDefinition(op) => {
                let shorthand_ok = first
                    && op.operation_type == ast::OperationType::Query
                    && op.name.is_none()
                    && op.variables.is_empty()
                    && op.directives.is_empty();
                if !(shorthand_ok && rng.chance(2, 3)) {
                    self.t(op.operation_type.name());
                    if let Some(n) = &op.name {
                        self.t(n);
                    }
                    if !op.variables.is_empty() {
                        self.t("(");
                        for v in &op.variables {
                            self.toks.push(format!("${}", v.name));
                            self.t(":");
                            self.ty(&v.ty);
                            if let Some(d) = &v.default_value {
                                self.t("=");
                                self.value(d, rng);
                            }
                            self.dirs(&v.directives, rng);
                        }
                        self.t(")");
                    }
                    self.dirs(&op.directives, rng);
                }
                self.selection_set(&op.selection_set, rng);
            }
            D::FragmentDefinition(f) => {
                self.t("fragment");
                self.t(&f.name);
                self.t("on");
                self.t(&f.type_condition);
                self.dirs(&f.directives, rng);
                self.selection_set(&f.selection_set, rng);
            }
            D::DirectiveDefinition(d) => {
                self.desc(&d.description, rng);
                self.t("directive");
                self.toks.push(format!("@{}", d.name));
                self.arg_defs(&d.arguments, rng);
                if d.repeatable {
                    self.t("repeatable");
                }
                self.t("on");
                if rng.chance(1, 4) {
                    self.t("|");
                }
                for (k, l) in d.locations.iter().enumerate() {
                    if k > 0 {
                        self.t("|");
                    }
                    self.t(l.name());
                }
            }
            D::SchemaDefinition(s) => {
                self.desc(&s.description, rng);
                self.t("schema");
                self.dirs(&s.directives, rng);
                // an empty list can only have come from `schema` without braces (apollo-parser
                // accepts that); print it the same way so the witness text means this AST
                self.root_ops(&s.root_operations, false);
            }
            D::SchemaExtension(s) => {
                self.t("extend");
                self.t("schema");
                self.dirs(&s.directives, rng);
                self.root_ops(&s.root_operations, false);
            }
            D::ScalarTypeDefinition(s) => {
                self.desc(&s.description, rng);
                self.t("scalar");
                self.t(&s.name);
                self.dirs(&s.directives, rng);
            }
            D::ScalarTypeExtension(s) => {
                self.t("extend");
                self.t("scalar");
                self.t(&s.name);
                self.dirs(&s.directives, rng);
            }
            D::ObjectTypeDefinition(t) => {
                self.desc(&t.description, rng);
                self.t("type");
                self.t(&t.name);
                self.implements(&t.implements_interfaces, rng);
                self.dirs(&t.directives, rng);
                self.fields(&t.fields, rng);
            }
            D::ObjectTypeExtension(t) => {
                self.t("extend");
                self.t("type");
                self.t(&t.name);
                self.implements(&t.implements_interfaces, rng);
                self.dirs(&t.directives, rng);
                self.fields(&t.fields, rng);
            }
            D::InterfaceTypeDefinition(t) => {
                self.desc(&t.description, rng);
                self.t("interface");
                self.t(&t.name);
                self.implements(&t.implements_interfaces, rng);
                self.dirs(&t.directives, rng);
                self.fields(&t.fields, rng);
            }
            D::InterfaceTypeExtension(t) => {
                self.t("extend");
                self.t("interface");
                self.t(&t.name);
                self.implements(&t.implements_interfaces, rng);
                self.dirs(&t.directives, rng);
                self.fields(&t.fields, rng);
            }
            D::UnionTypeDefinition(t) => {
                self.desc(&t.description, rng);
                self.t("union");
                self.t(&t.name);
                self.dirs(&t.directives, rng);
                self.members(&t.members, rng);
            }
            D::UnionTypeExtension(t) => {
                self.t("extend");
                self.t("union");
                self.t(&t.name);
                self.dirs(&t.directives, rng);
                self.members(&t.members, rng);
            }
            D::EnumTypeDefinition(t) => {
                self.desc(&t.description, rng);
                self.t("enum");
                self.t(&t.name);
                self.dirs(&t.directives, rng);
                self.enum_values(&t.values, rng);
            }
            D::EnumTypeExtension(t) => {
                self.t("extend");
                self.t("enum");
                self.t(&t.name);
                self.dirs(&t.directives, rng);
                self.enum_values(&t.values, rng);
            }
            D::InputObjectTypeDefinition(t) => {
                self.desc(&t.description, rng);
                self.t("input");
                self.t(&t.name);
                self.dirs(&t.directives, rng);
                self.input_fields(&t.fields, rng);
            }
            D::InputObjectTypeExtension(t) => {
                self.t("extend");
                self.t("input");
                self.t(&t.name);
                self.dirs(&t.directives, rng);
                self.input_fields(&t.fields, rng);
            }
        }
    }
}

/// Print a document with the harness's own printer and random insignificant trivia.
/// `trivia`: 0 = single spaces only, 1 = mixed whitespace, 2 = also commas and comments.
pub fn print_doc(doc: &ast::Document, rng: &mut Rng, trivia: usize) -> String {
    let mut p = Printer { toks: Vec::new() };
    for (i, def) in doc.definitions.iter().enumerate() {
        p.definition(def, i == 0, rng);
        p.toks.push("\u{1}".to_string()); // definition boundary
    }
    let mut out = String::new();
    let mut prev: Option<&str> = None;
    for t in &p.toks {
        if t == "\u{1}" {
            out.push_str(if trivia == 0 { "\n" } else { rng.pick_str(&["\n", "\n\n", " ", "\n# c\n"]) });
            prev = None;
            continue;
        }
        if let Some(pv) = prev {
            let tight_ok = is_punct(pv) || is_punct(t) || t.starts_with('@') || t.starts_with('$') || t.starts_with('"');
            // `"""a"""` directly after `"x"` would be fine, but a string right after a string that
            // ends in a quote is never generated; still keep strings apart from strings.
            let both_strings = pv.ends_with('"') && t.starts_with('"');
            // `...` directly followed by a name char is fine; `.`-adjacent tokens do not occur.
            let sep = match trivia {
                0 => " ",
                1 => {
                    if tight_ok && !both_strings && rng.chance(1, 3) {
                        ""
                    } else {
                        rng.pick_str(&[" ", " ", "\n", "  ", "\t", "\n  "])
                    }
                }
                _ => {
                    if tight_ok && !both_strings && rng.chance(1, 4) {
                        ""
                    } else {
                        rng.pick_str(&[" ", " ", "\n", ", ", " # c\n", ",", "\r\n"])
                    }
                }
            };
            // a number directly followed by a name/number/dot is a lexical error: numbers are never
            // tight against a following non-punctuator (tight_ok covers: one side is a punctuator).
            out.push_str(sep);
        }
        out.push_str(t);
        prev = Some(t.as_str());
    }
    out
}

// ------------------------------------------------------------------------------------------------
// Structural diff
// ------------------------------------------------------------------------------------------------

/// The first differing component of two documents: (path class, kind of difference).
pub fn first_diff(a: &ast::Document, b: &ast::Document) -> Option<(String, String)> {
    let mut p = Vec::new();
    a.definitions.diff(&b.definitions, &mut p).map(|k| (p.join(""), k))
}

pub trait Diff {
    fn diff(&self, other: &Self, path: &mut Vec<String>) -> Option<String>;
}

fn push_diff<T: Diff + ?Sized>(seg: &str, a: &T, b: &T, path: &mut Vec<String>) -> Option<String> {
    path.push(seg.to_string());
    if let Some(k) = a.diff(b, path) {
        return Some(k);
    }
    path.pop();
    None
}

macro_rules! diff_struct {
    ($ty:ty { $($f:ident),* }) => {
        impl Diff for $ty {
            fn diff(&self, other: &Self, path: &mut Vec<String>) -> Option<String> {
                $( if let Some(k) = push_diff(concat!(".", stringify!($f)), &self.$f, &other.$f, path) { return Some(k); } )*
                None
            }
        }
    };
}

impl Diff for Name {
    fn diff(&self, other: &Self, _: &mut Vec<String>) -> Option<String> {
        (self != other).then(|| "name differs".to_string())
    }
}
impl Diff for bool {
    fn diff(&self, other: &Self, _: &mut Vec<String>) -> Option<String> {
        (self != other).then(|| "flag differs".to_string())
    }
}
impl Diff for str {
    fn diff(&self, other: &Self, _: &mut Vec<String>) -> Option<String> {
        (self != other).then(|| format!("string content differs ({})", string_diff_kind(self, other)))
    }
}
impl Diff for String {
    fn diff(&self, other: &Self, p: &mut Vec<String>) -> Option<String> {
        self.as_str().diff(other.as_str(), p)
    }
}
impl Diff for ast::OperationType {
    fn diff(&self, other: &Self, _: &mut Vec<String>) -> Option<String> {
        (self != other).then(|| "operation type differs".to_string())
    }
}
impl Diff for ast::DirectiveLocation {
    fn diff(&self, other: &Self, _: &mut Vec<String>) -> Option<String> {
        (self != other).then(|| "directive location differs".to_string())
    }
}
impl Diff for Type {
    fn diff(&self, other: &Self, _: &mut Vec<String>) -> Option<String> {
        (self != other).then(|| "type reference differs".to_string())
    }
}
impl<T: Diff + ?Sized> Diff for Node<T> {
    fn diff(&self, other: &Self, p: &mut Vec<String>) -> Option<String> {
        (**self).diff(&**other, p)
    }
}
impl<T: Diff> Diff for Option<T> {
    fn diff(&self, other: &Self, p: &mut Vec<String>) -> Option<String> {
        match (self, other) {
            (None, None) => None,
            (Some(a), Some(b)) => a.diff(b, p),
            (Some(_), None) => Some("present -> absent".to_string()),
            (None, Some(_)) => Some("absent -> present".to_string()),
        }
    }
}
impl<T: Diff> Diff for Vec<T> {
    fn diff(&self, other: &Self, p: &mut Vec<String>) -> Option<String> {
        for (a, b) in self.iter().zip(other.iter()) {
            if let Some(k) = push_diff("[]", a, b, p) {
                return Some(k);
            }
        }
        match self.len().cmp(&other.len()) {
            std::cmp::Ordering::Equal => None,
            std::cmp::Ordering::Less => Some("more items after round trip".to_string()),
            std::cmp::Ordering::Greater => Some("fewer items after round trip".to_string()),
        }
    }
}
impl Diff for ast::DirectiveList {
    fn diff(&self, other: &Self, p: &mut Vec<String>) -> Option<String> {
        self.0.diff(&other.0, p)
    }
}
impl Diff for (ast::OperationType, Name) {
    fn diff(&self, other: &Self, p: &mut Vec<String>) -> Option<String> {
        push_diff(".operation_type", &self.0, &other.0, p).or_else(|| push_diff(".named_type", &self.1, &other.1, p))
    }
}
impl Diff for (Name, Node<Value>) {
    fn diff(&self, other: &Self, p: &mut Vec<String>) -> Option<String> {
        push_diff(".key", &self.0, &other.0, p).or_else(|| push_diff(".value", &self.1, &other.1, p))
    }
}
impl Diff for Value {
    fn diff(&self, other: &Self, p: &mut Vec<String>) -> Option<String> {
        match (self, other) {
            (Value::String(a), Value::String(b)) => push_diff("<String>", a, b, p),
            (Value::List(a), Value::List(b)) => push_diff("<List>", a, b, p),
            (Value::Object(a), Value::Object(b)) => push_diff("<Object>", a, b, p),
            (Value::Int(a), Value::Int(b)) => (a != b).then(|| {
                p.push("<Int>".into());
                "number text differs".to_string()
            }),
            (Value::Float(a), Value::Float(b)) => (a != b).then(|| {
                p.push("<Float>".into());
                "number text differs".to_string()
            }),
            (a, b) if value_kind(a) != value_kind(b) => Some(format!("value kind {} -> {}", value_kind(a), value_kind(b))),
            (a, b) => (a != b).then(|| format!("{} value differs", value_kind(a))),
        }
    }
}
impl Diff for ast::Selection {
    fn diff(&self, other: &Self, p: &mut Vec<String>) -> Option<String> {
        use ast::Selection as S;
        match (self, other) {
            (S::Field(a), S::Field(b)) => push_diff("<Field>", a, b, p),
            (S::FragmentSpread(a), S::FragmentSpread(b)) => push_diff("<FragmentSpread>", a, b, p),
            (S::InlineFragment(a), S::InlineFragment(b)) => push_diff("<InlineFragment>", a, b, p),
            _ => Some("selection kind differs".to_string()),
        }
    }
}

diff_struct!(ast::OperationDefinition { operation_type, name, variables, directives, selection_set });
diff_struct!(ast::FragmentDefinition { name, type_condition, directives, selection_set });
diff_struct!(ast::DirectiveDefinition { description, name, arguments, repeatable, locations });
diff_struct!(ast::SchemaDefinition { description, directives, root_operations });
diff_struct!(ast::ScalarTypeDefinition { description, name, directives });
diff_struct!(ast::ObjectTypeDefinition { description, name, implements_interfaces, directives, fields });
diff_struct!(ast::InterfaceTypeDefinition { description, name, implements_interfaces, directives, fields });
diff_struct!(ast::UnionTypeDefinition { description, name, directives, members });
diff_struct!(ast::EnumTypeDefinition { description, name, directives, values });
diff_struct!(ast::InputObjectTypeDefinition { description, name, directives, fields });
diff_struct!(ast::SchemaExtension { directives, root_operations });
diff_struct!(ast::ScalarTypeExtension { name, directives });
diff_struct!(ast::ObjectTypeExtension { name, implements_interfaces, directives, fields });
diff_struct!(ast::InterfaceTypeExtension { name, implements_interfaces, directives, fields });
diff_struct!(ast::UnionTypeExtension { name, directives, members });
diff_struct!(ast::EnumTypeExtension { name, directives, values });
diff_struct!(ast::InputObjectTypeExtension { name, directives, fields });
diff_struct!(ast::Argument { name, value });
diff_struct!(ast::Directive { name, arguments });
diff_struct!(ast::VariableDefinition { name, ty, default_value, directives });
diff_struct!(ast::FieldDefinition { description, name, arguments, ty, directives });
diff_struct!(ast::InputValueDefinition { description, name, ty, default_value, directives });
diff_struct!(ast::EnumValueDefinition { description, value, directives });
diff_struct!(ast::Field { alias, name, arguments, directives, selection_set });
diff_struct!(ast::FragmentSpread { fragment_name, directives });
diff_struct!(ast::InlineFragment { type_condition, directives, selection_set });

impl Diff for D {
    fn diff(&self, other: &Self, p: &mut Vec<String>) -> Option<String> {
        macro_rules! arms {
            ($($v:ident),*) => {
                match (self, other) {
                    $( (D::$v(a), D::$v(b)) => push_diff(stringify!($v), a, b, p), )*
                    (a, b) => Some(format!("definition kind {} -> {}", def_kind(a), def_kind(b))),
                }
            };
        }
        arms!(
            OperationDefinition,
            FragmentDefinition,
            DirectiveDefinition,
            SchemaDefinition,
            ScalarTypeDefinition,
            ObjectTypeDefinition,
            InterfaceTypeDefinition,
            UnionTypeDefinition,
            EnumTypeDefinition,
            InputObjectTypeDefinition,
            SchemaExtension,
            ScalarTypeExtension,
            ObjectTypeExtension,
            InterfaceTypeExtension,
            UnionTypeExtension,
            EnumTypeExtension,
            InputObjectTypeExtension
        )
    }
}

fn char_class(c: Option<char>) -> &'static str {
    match c {
        None => "end",
        Some('"') => "quote",
        Some('\\') => "backslash",
        Some('\n') => "LF",
        Some('\r') => "CR",
        Some(' ') | Some('\t') => "whitespace",
        Some(c) if (c as u32) < 0x20 || c == '\u{7f}' => "control",
        Some(c) if c.is_ascii() => "ascii",
        Some(_) => "non-ascii",
    }
}

/// Class of the difference between an expected string and what was read back: the class of the
/// first expected character that did not come back (no offsets, no content, and not what came back
/// instead — that varies with the input for one root cause).
pub fn string_diff_kind(expected: &str, got: &str) -> String {
    let mut e = expected.chars();
    let mut g = got.chars();
    loop {
        let (a, b) = (e.next(), g.next());
        if a != b {
            return match a {
                None => "extra characters at the end".to_string(),
                a => format!("first difference where a {} was written", char_class(a)),
            };
        }
        if a.is_none() {
            return "equal".to_string();
        }
    }
}

// ------------------------------------------------------------------------------------------------
// String slots (C09)
// ------------------------------------------------------------------------------------------------

/// Every description and every string value of a document, in document order, each with a path
/// label made of component names only.
pub fn collect_strings(doc: &ast::Document) -> Vec<(String, String)> {
    let mut c = Collector { out: Vec::new() };
    for def in &doc.definitions {
        c.definition(def);
    }
    c.out
}

struct Collector {
    out: Vec<(String, String)>,
}

impl Collector {
    fn desc(&mut self, at: &str, d: &Option<Node<str>>) {
        if let Some(d) = d {
            self.out.push((format!("description:{at}"), d.to_string()));
        }
    }
    fn value(&mut self, at: &str, v: &Value) {
        match v {
            Value::String(s) => self.out.push((at.to_string(), s.clone())),
            Value::List(l) => {
                let at = format!("{at}/list");
                l.iter().for_each(|x| self.value(&at, x));
            }
            Value::Object(o) => {
                let at = format!("{at}/object");
                o.iter().for_each(|(_, x)| self.value(&at, x));
            }
            _ => {}
        }
    }
    fn dirs(&mut self, at: &str, d: &ast::DirectiveList) {
        for dir in d.iter() {
            for a in &dir.arguments {
                self.value(&format!("directive-argument:{at}"), &a.value);
            }
        }
    }
    fn ivd(&mut self, at: &str, v: &ast::InputValueDefinition) {
        self.desc(at, &v.description);
        if let Some(d) = &v.default_value {
            self.value(&format!("default-value:{at}"), d);
        }
        self.dirs(at, &v.directives);
    }
    fn fields(&mut self, owner: &str, fields: &[Node<ast::FieldDefinition>]) {
        for f in fields {
            self.desc(&format!("{owner}.field"), &f.description);
            for a in &f.arguments {
                self.ivd(&format!("{owner}.field.argument"), a);
            }
            self.dirs(&format!("{owner}.field"), &f.directives);
        }
    }
    fn selections(&mut self, owner: &str, s: &[ast::Selection]) {
        for sel in s {
            match sel {
                ast::Selection::Field(f) => {
                    for a in &f.arguments {
                        self.value(&format!("field-argument:{owner}"), &a.value);
                    }
                    self.dirs(&format!("{owner}.selection-field"), &f.directives);
                    self.selections(owner, &f.selection_set);
                }
                ast::Selection::FragmentSpread(f) => self.dirs(&format!("{owner}.spread"), &f.directives),
                ast::Selection::InlineFragment(f) => {
                    self.dirs(&format!("{owner}.inline-fragment"), &f.directives);
                    self.selections(owner, &f.selection_set);
                }
            }
        }
    }
    fn enum_values(&mut self, owner: &str, values: &[Node<ast::EnumValueDefinition>]) {
        for v in values {
            self.desc(&format!("{owner}.value"), &v.description);
            self.dirs(&format!("{owner}.value"), &v.directives);
        }
    }
    fn definition(&mut self, def: &D) {
        match def {
            D::OperationDefinition(op) => {
                for v in &op.variables {
                    if let Some(d) = &v.default_value {
                        self.value("default-value:operation.variable", d);
                    }
                    self.dirs("operation.variable", &v.directives);
                }
                self.dirs("operation", &op.directives);
                self.selections("operation", &op.selection_set);
            }
            D::FragmentDefinition(f) => {
                self.dirs("fragment", &f.directives);
                self.selections("fragment", &f.selection_set);
            }
            D::DirectiveDefinition(d) => {
                self.desc("directive-definition", &d.description);
                for a in &d.arguments {
                    self.ivd("directive-definition.argument", a);
                }
            }
            D::SchemaDefinition(s) => {
                self.desc("schema", &s.description);
                self.dirs("schema", &s.directives);
            }
            D::SchemaExtension(s) => self.dirs("schema-extension", &s.directives),
            D::ScalarTypeDefinition(s) => {
                self.desc("scalar", &s.description);
                self.dirs("scalar", &s.directives);
            }
            D::ScalarTypeExtension(s) => self.dirs("scalar-extension", &s.directives),
            D::ObjectTypeDefinition(t) => {
                self.desc("object", &t.description);
                self.dirs("object", &t.directives);
                self.fields("object", &t.fields);
            }
            D::ObjectTypeExtension(t) => {
                self.dirs("object-extension", &t.directives);
                self.fields("object-extension", &t.fields);
            }
            D::InterfaceTypeDefinition(t) => {
                self.desc("interface", &t.description);
                self.dirs("interface", &t.directives);
                self.fields("interface", &t.fields);
            }
            D::InterfaceTypeExtension(t) => {
                self.dirs("interface-extension", &t.directives);
                self.fields("interface-extension", &t.fields);
            }
            D::UnionTypeDefinition(t) => {
                self.desc("union", &t.description);
                self.dirs("union", &t.directives);
            }
            D::UnionTypeExtension(t) => self.dirs("union-extension", &t.directives),
            D::EnumTypeDefinition(t) => {
                self.desc("enum", &t.description);
                self.dirs("enum", &t.directives);
                self.enum_values("enum", &t.values);
            }
            D::EnumTypeExtension(t) => {
                self.dirs("enum-extension", &t.directives);
                self.enum_values("enum-extension", &t.values);
            }
            D::InputObjectTypeDefinition(t) => {
                self.desc("input-object", &t.description);
                self.dirs("input-object", &t.directives);
                for f in &t.fields {
                    self.ivd("input-object.field", f);
                }
            }
            D::InputObjectTypeExtension(t) => {
                self.dirs("input-object-extension", &t.directives);
                for f in &t.fields {
                    self.ivd("input-object-extension.field", f);
                }
            }
        }
    }
}
