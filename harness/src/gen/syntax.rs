//! Syntax-level generator of VALID GraphQL documents (October 2021 grammar), producing text
//! directly. No semantic validity is attempted: names are drawn from a small pool (including
//! keywords wherever the grammar allows any Name), types and directives need not exist.
//!
//! The generator is quota-driven over a production checklist: every optional part of every
//! production is a named decision (`opt`), every choice between alternatives a named `alt`; a
//! persistent `Coverage` biases each decision towards the branch seen less often, so that both
//! branches of every decision are exercised within a few hundred documents whatever the seed.
//! `CHECKLIST` enumerates every decision outcome; `Coverage::missing()` lists what a run has not
//! produced yet.
//!
//! Validity is by construction against the spec grammar (this file is written from the grammar,
//! like `refmodel::grammar`, but in the generating direction); the monitors still ask the
//! reference recogniser for the verdict on every text, so a generator slip cannot become a false
//! alarm — it would show up as a "generated document rejected by the reference" harness note.

use crate::prng::Rng;
use std::collections::BTreeMap;

/// Optional parts: each key is hit as `key+` (present) and `key-` (absent).
pub const OPT_KEYS: &[&str] = &[
    "Document.BOM",
    "Document.TrailingComment",
    "OperationDefinition.Name",
    "OperationDefinition.VariableDefinitions",
    "OperationDefinition.Directives",
    "VariableDefinition.DefaultValue",
    "VariableDefinition.Directives",
    "Field.Alias",
    "Field.Arguments",
    "Field.Directives",
    "Field.SelectionSet",
    "FragmentSpread.Directives",
    "InlineFragment.TypeCondition",
    "InlineFragment.Directives",
    "FragmentDefinition.Directives",
    "Directive.Arguments",
    "Type.NonNull",
    "SchemaDefinition.Description",
    "SchemaDefinition.Directives",
    "ScalarTypeDefinition.Description",
    "ScalarTypeDefinition.Directives",
    "ObjectTypeDefinition.Description",
    "ObjectTypeDefinition.ImplementsInterfaces",
    "ObjectTypeDefinition.Directives",
    "ObjectTypeDefinition.FieldsDefinition",
    "InterfaceTypeDefinition.Description",
    "InterfaceTypeDefinition.ImplementsInterfaces",
    "InterfaceTypeDefinition.Directives",
    "InterfaceTypeDefinition.FieldsDefinition",
    "ImplementsInterfaces.LeadingAmp",
    "FieldDefinition.Description",
    "FieldDefinition.ArgumentsDefinition",
    "FieldDefinition.Directives",
    "InputValueDefinition.Description",
    "InputValueDefinition.DefaultValue",
    "InputValueDefinition.Directives",
    "UnionTypeDefinition.Description",
    "UnionTypeDefinition.Directives",
    "UnionTypeDefinition.UnionMemberTypes",
    "UnionMemberTypes.LeadingPipe",
    "EnumTypeDefinition.Description",
    "EnumTypeDefinition.Directives",
    "EnumTypeDefinition.EnumValuesDefinition",
    "EnumValueDefinition.Description",
    "EnumValueDefinition.Directives",
    "InputObjectTypeDefinition.Description",
    "InputObjectTypeDefinition.Directives",
    "InputObjectTypeDefinition.InputFieldsDefinition",
    "DirectiveDefinition.Description",
    "DirectiveDefinition.ArgumentsDefinition",
    "DirectiveDefinition.repeatable",
    "DirectiveLocations.LeadingPipe",
    "ObjectTypeExtension.ImplementsInterfaces",
    "ObjectTypeExtension.Directives",
    "ObjectTypeExtension.FieldsDefinition",
    "InterfaceTypeExtension.ImplementsInterfaces",
    "InterfaceTypeExtension.Directives",
    "InterfaceTypeExtension.FieldsDefinition",
    "UnionTypeExtension.Directives",
    "UnionTypeExtension.UnionMemberTypes",
    "EnumTypeExtension.Directives",
    "EnumTypeExtension.EnumValuesDefinition",
    "InputObjectTypeExtension.Directives",
    "InputObjectTypeExtension.InputFieldsDefinition",
    "SchemaExtension.Directives",
    "SchemaExtension.RootOperationTypes",
];

/// Choices between alternatives: each is hit as `key=alternative`.
pub const ALT_KEYS: &[(&str, &[&str])] = &[
    (
        "Definition",
        &[
            "OperationShorthand",
            "OperationDefinition",
            "FragmentDefinition",
            "SchemaDefinition",
            "ScalarTypeDefinition",
            "ObjectTypeDefinition",
            "InterfaceTypeDefinition",
            "UnionTypeDefinition",
            "EnumTypeDefinition",
            "InputObjectTypeDefinition",
            "DirectiveDefinition",
            "SchemaExtension",
            "ScalarTypeExtension",
            "ObjectTypeExtension",
            "InterfaceTypeExtension",
            "UnionTypeExtension",
            "EnumTypeExtension",
            "InputObjectTypeExtension",
        ],
    ),
    ("OperationType", &["query", "mutation", "subscription"]),
    ("Selection", &["Field", "FragmentSpread", "InlineFragment"]),
    (
        "Value",
        &[
            "Variable", "IntValue", "FloatValue", "StringValue", "BlockString", "BooleanValue", "NullValue",
            "EnumValue", "ListValue.empty", "ListValue", "ObjectValue.empty", "ObjectValue",
        ],
    ),
    (
        "Value[Const]",
        &[
            "IntValue", "FloatValue", "StringValue", "BlockString", "BooleanValue", "NullValue", "EnumValue",
            "ListValue.empty", "ListValue", "ObjectValue.empty", "ObjectValue",
        ],
    ),
    ("Type", &["NamedType", "ListType"]),
    ("Description", &["StringValue", "BlockString"]),
    ("RootOperationType", &["query", "mutation", "subscription"]),
    ("ListLength", &["1", "2", "3"]),
    ("DirectiveLocation", DIRECTIVE_LOCATIONS),
];

pub const DIRECTIVE_LOCATIONS: &[&str] = &[
    "QUERY",
    "MUTATION",
    "SUBSCRIPTION",
    "FIELD",
    "FRAGMENT_DEFINITION",
    "FRAGMENT_SPREAD",
    "INLINE_FRAGMENT",
    "VARIABLE_DEFINITION",
    "SCHEMA",
    "SCALAR",
    "OBJECT",
    "FIELD_DEFINITION",
    "ARGUMENT_DEFINITION",
    "INTERFACE",
    "UNION",
    "ENUM",
    "ENUM_VALUE",
    "INPUT_OBJECT",
    "INPUT_FIELD_DEFINITION",
];

/// Every decision outcome the generator can produce.
pub fn checklist() -> Vec<String> {
    let mut v = Vec::new();
    for k in OPT_KEYS {
        v.push(format!("{k}+"));
        v.push(format!("{k}-"));
    }
    for (k, alts) in ALT_KEYS {
        for a in *alts {
            v.push(format!("{k}={a}"));
        }
    }
    v
}

/// Persistent decision counts (one per worker).
#[derive(Default, Clone)]
pub struct Coverage {
    pub counts: BTreeMap<String, u64>,
    /// Keyword-as-name placements seen: `context:keyword`.
    pub keyword_names: BTreeMap<String, u64>,
}

impl Coverage {
    fn n(&self, k: &str) -> u64 {
        self.counts.get(k).copied().unwrap_or(0)
    }
    fn hit(&mut self, k: String) {
        *self.counts.entry(k).or_insert(0) += 1;
    }
    pub fn missing(&self) -> Vec<String> {
        checklist().into_iter().filter(|k| self.n(k) == 0).collect()
    }
    pub fn complete(&self) -> bool {
        self.missing().is_empty()
    }
}

const PLAIN_NAMES: &[&str] = &["a", "b", "T", "Q", "x1", "_u", "Foo", "id", "__t"];
const KEYWORD_NAMES: &[&str] = &[
    "on", "true", "false", "null", "query", "mutation", "subscription", "fragment", "type", "schema", "extend",
    "implements", "repeatable", "input", "enum", "union", "interface", "scalar", "directive",
];
const INTS: &[&str] = &["0", "-0", "1", "-12", "42", "9999999999999999999999"];
const FLOATS: &[&str] = &["1.5", "0.0", "-0.5", "1e3", "1E3", "-1.5E-10", "2e+7", "0e0"];
const STRINGS: &[&str] = &[
    "\"s\"",
    "\"\"",
    "\"a b\"",
    "\"\\n\\\"\\\\\\/\\b\\f\\r\\t\\u00e9\"",
    "\"é中🚀\"",
    "\"# not a comment, { } $\"",
];
const BLOCK_STRINGS: &[&str] = &[
    "\"\"\"b\"\"\"",
    "\"\"\"\"\"\"",
    "\"\"\"\n  multi\n    line \\\"\"\" \" \"\"\n\"\"\"",
    "\"\"\" \"quoted\" \\n é \"\"\"",
];
const SEPS_REQUIRED: &[&str] = &[" ", " ", " ", " ", "\n", ",", ", ", "\t", "\r\n", " # c\n", "  ", "\n\n", "#\n"];

pub struct SynGen<'a> {
    rng: &'a mut Rng,
    cov: &'a mut Coverage,
    toks: Vec<String>,
    /// Outcomes of this document (for `ctx.class("production", ..)`).
    pub hits: Vec<String>,
    /// Top-level (kind, name) as generated — a by-construction cross-check of the reference.
    pub defs: Vec<(&'static str, Option<String>)>,
}

fn is_punct_tok(t: &str) -> bool {
    matches!(
        t,
        "!" | "$" | "&" | "(" | ")" | ":" | "=" | "@" | "[" | "]" | "{" | "|" | "}" | "..."
    )
}

impl<'a> SynGen<'a> {
    pub fn new(rng: &'a mut Rng, cov: &'a mut Coverage) -> Self {
        SynGen {
            rng,
            cov,
            toks: Vec::new(),
            hits: Vec::new(),
            defs: Vec::new(),
        }
    }

    // ---- decisions --------------------------------------------------------------------------

    fn record(&mut self, k: String) {
        self.cov.hit(k.clone());
        self.hits.push(k);
    }

    fn opt(&mut self, key: &'static str) -> bool {
        debug_assert!(OPT_KEYS.contains(&key), "unregistered opt key {key}");
        let (p, m) = (self.cov.n(&format!("{key}+")), self.cov.n(&format!("{key}-")));
        let v = if p != m && self.rng.chance(3, 4) { p < m } else { self.rng.bool() };
        self.record(format!("{key}{}", if v { "+" } else { "-" }));
        v
    }

    /// Choose one of the registered alternatives of `key` restricted to `allowed`.
    fn alt(&mut self, key: &'static str, allowed: &[&'static str]) -> &'static str {
        debug_assert!(
            ALT_KEYS.iter().any(|(k, alts)| *k == key && allowed.iter().all(|a| alts.contains(a))),
            "unregistered alt {key}"
        );
        let choice = if self.rng.chance(1, 2) {
            // least seen first
            let mut best = allowed[0];
            let mut best_n = u64::MAX;
            let off = self.rng.below(allowed.len());
            for i in 0..allowed.len() {
                let a = allowed[(i + off) % allowed.len()];
                let n = self.cov.n(&format!("{key}={a}"));
                if n < best_n {
                    best = a;
                    best_n = n;
                }
            }
            best
        } else {
            allowed[self.rng.below(allowed.len())]
        };
        self.record(format!("{key}={choice}"));
        choice
    }

    fn len(&mut self) -> usize {
        match self.alt("ListLength", &["1", "2", "3"]) {
            "1" => 1,
            "2" => 2,
            _ => 3,
        }
    }

    // ---- tokens -----------------------------------------------------------------------------

    fn t(&mut self, s: &str) {
        self.toks.push(s.to_string());
    }

    /// A Name for context `ctx`; keywords are used as names wherever the grammar allows any Name.
    fn name(&mut self, ctx: &'static str) -> String {
        let n = if self.rng.chance(1, 5) {
            let mut kw = *self.rng.pick(KEYWORD_NAMES);
            // FragmentName : Name but not `on`
            if ctx == "FragmentName" && kw == "on" {
                kw = "fragment";
            }
            // EnumValue (in EnumValueDefinition) : Name but not `true`, `false` or `null`
            if ctx == "EnumValueDefinition" && matches!(kw, "true" | "false" | "null") {
                kw = "enum";
            }
            *self.cov.keyword_names.entry(format!("{ctx}:{kw}")).or_insert(0) += 1;
            kw
        } else {
            *self.rng.pick(PLAIN_NAMES)
        };
        self.t(n);
        n.to_string()
    }

    fn description(&mut self) {
        match self.alt("Description", &["StringValue", "BlockString"]) {
            "StringValue" => {
                let s = *self.rng.pick(STRINGS);
                self.t(s)
            }
            _ => {
                let s = *self.rng.pick(BLOCK_STRINGS);
                self.t(s)
            }
        }
    }

    // ---- shared productions -----------------------------------------------------------------

    fn value(&mut self, konst: bool, depth: usize) {
        let deep = depth >= 3;
        let choice = if konst {
            let all: &[&'static str] = if deep {
                &["IntValue", "FloatValue", "StringValue", "BlockString", "BooleanValue", "NullValue", "EnumValue", "ListValue.empty", "ObjectValue.empty"]
            } else {
                &["IntValue", "FloatValue", "StringValue", "BlockString", "BooleanValue", "NullValue", "EnumValue", "ListValue.empty", "ListValue", "ObjectValue.empty", "ObjectValue"]
            };
            self.alt("Value[Const]", all)
        } else {
            let all: &[&'static str] = if deep {
                &["Variable", "IntValue", "FloatValue", "StringValue", "BlockString", "BooleanValue", "NullValue", "EnumValue", "ListValue.empty", "ObjectValue.empty"]
            } else {
                &["Variable", "IntValue", "FloatValue", "StringValue", "BlockString", "BooleanValue", "NullValue", "EnumValue", "ListValue.empty", "ListValue", "ObjectValue.empty", "ObjectValue"]
            };
            self.alt("Value", all)
        };
        match choice {
            "Variable" => {
                self.t("$");
                self.name("Variable");
            }
            "IntValue" => {
                let s = *self.rng.pick(INTS);
                self.t(s)
            }
            "FloatValue" => {
                let s = *self.rng.pick(FLOATS);
                self.t(s)
            }
            "StringValue" => {
                let s = *self.rng.pick(STRINGS);
                self.t(s)
            }
            "BlockString" => {
                let s = *self.rng.pick(BLOCK_STRINGS);
                self.t(s)
            }
            "BooleanValue" => {
                let s = if self.rng.bool() { "true" } else { "false" };
                self.t(s)
            }
            "NullValue" => self.t("null"),
            "EnumValue" => {
                // in value position any Name other than true/false/null is an EnumValue
                let mut n = *self.rng.pick(&["A", "RED", "on", "query", "fragment", "type", "e1"]);
                if self.rng.chance(1, 8) {
                    n = "extend";
                }
                self.t(n)
            }
            "ListValue.empty" => {
                self.t("[");
                self.t("]");
            }
            "ListValue" => {
                self.t("[");
                for _ in 0..self.len() {
                    self.value(konst, depth + 1);
                }
                self.t("]");
            }
            "ObjectValue.empty" => {
                self.t("{");
                self.t("}");
            }
            _ => {
                self.t("{");
                for _ in 0..self.len() {
                    self.name("ObjectField");
                    self.t(":");
                    self.value(konst, depth + 1);
                }
                self.t("}");
            }
        }
    }

    fn ty(&mut self, depth: usize) {
        let choice = if depth >= 3 {
            self.alt("Type", &["NamedType"])
        } else {
            self.alt("Type", &["NamedType", "ListType"])
        };
        if choice == "NamedType" {
            if self.rng.chance(1, 2) {
                let s = *self.rng.pick(&["Int", "String", "ID", "Boolean", "Float"]);
                self.t(s);
            } else {
                self.name("NamedType");
            }
        } else {
            self.t("[");
            self.ty(depth + 1);
            self.t("]");
        }
        if self.opt("Type.NonNull") {
            self.t("!");
        }
    }

    fn arguments(&mut self, konst: bool) {
        self.t("(");
        for _ in 0..self.len() {
            self.name("Argument");
            self.t(":");
            self.value(konst, 0);
        }
        self.t(")");
    }

    /// `Directives?` at decision `key`.
    fn directives(&mut self, key: &'static str, konst: bool) -> bool {
        if !self.opt(key) {
            return false;
        }
        self.directive_list(konst);
        true
    }

    fn directive_list(&mut self, konst: bool) {
        let n = if self.rng.chance(2, 3) { 1 } else { 2 };
        for _ in 0..n {
            self.t("@");
            self.name("Directive");
            if self.opt("Directive.Arguments") {
                self.arguments(konst);
            }
        }
    }

    fn selection_set(&mut self, depth: usize) {
        self.t("{");
        for _ in 0..self.len() {
            match self.alt("Selection", &["Field", "FragmentSpread", "InlineFragment"]) {
                "Field" => {
                    if self.opt("Field.Alias") {
                        self.name("Alias");
                        self.t(":");
                    }
                    self.name("Field");
                    if self.opt("Field.Arguments") {
                        self.arguments(false);
                    }
                    self.directives("Field.Directives", false);
                    if depth < 3 && self.opt("Field.SelectionSet") {
                        self.selection_set(depth + 1);
                    }
                }
                "FragmentSpread" => {
                    self.t("...");
                    self.name("FragmentName");
                    self.directives("FragmentSpread.Directives", false);
                }
                _ => {
                    if depth >= 3 {
                        // keep the nesting bounded: a plain field instead
                        self.name("Field");
                        continue;
                    }
                    self.t("...");
                    if self.opt("InlineFragment.TypeCondition") {
                        self.t("on");
                        self.name("NamedType");
                    }
                    self.directives("InlineFragment.Directives", false);
                    self.selection_set(depth + 1);
                }
            }
        }
        self.t("}");
    }

    fn input_value_definition(&mut self) {
        if self.opt("InputValueDefinition.Description") {
            self.description();
        }
        self.name("InputValueDefinition");
        self.t(":");
        self.ty(0);
        if self.opt("InputValueDefinition.DefaultValue") {
            self.t("=");
            self.value(true, 0);
        }
        self.directives("InputValueDefinition.Directives", true);
    }

    fn arguments_definition(&mut self) {
        self.t("(");
        for _ in 0..self.len() {
            self.input_value_definition();
        }
        self.t(")");
    }

    fn fields_definition(&mut self) {
        self.t("{");
        for _ in 0..self.len() {
            if self.opt("FieldDefinition.Description") {
                self.description();
            }
            self.name("FieldDefinition");
            if self.opt("FieldDefinition.ArgumentsDefinition") {
                self.arguments_definition();
            }
            self.t(":");
            self.ty(0);
            self.directives("FieldDefinition.Directives", true);
        }
        self.t("}");
    }

    fn input_fields_definition(&mut self) {
        self.t("{");
        for _ in 0..self.len() {
            self.input_value_definition();
        }
        self.t("}");
    }

    fn enum_values_definition(&mut self) {
        self.t("{");
        for _ in 0..self.len() {
            if self.opt("EnumValueDefinition.Description") {
                self.description();
            }
            self.name("EnumValueDefinition");
            self.directives("EnumValueDefinition.Directives", true);
        }
        self.t("}");
    }

    fn implements_interfaces(&mut self) {
        self.t("implements");
        if self.opt("ImplementsInterfaces.LeadingAmp") {
            self.t("&");
        }
        let n = self.len();
        for i in 0..n {
            if i > 0 {
                self.t("&");
            }
            self.name("NamedType");
        }
    }

    fn union_member_types(&mut self) {
        self.t("=");
        if self.opt("UnionMemberTypes.LeadingPipe") {
            self.t("|");
        }
        let n = self.len();
        for i in 0..n {
            if i > 0 {
                self.t("|");
            }
            self.name("NamedType");
        }
    }

    fn root_operation_types(&mut self) {
        self.t("{");
        for _ in 0..self.len() {
            let k = self.alt("RootOperationType", &["query", "mutation", "subscription"]);
            self.t(k);
            self.t(":");
            self.name("NamedType");
        }
        self.t("}");
    }

    // ---- definitions ------------------------------------------------------------------------

    /// Can the previous definition be followed by a `{`-initial definition without the `{` being
    /// read as (or forbidden by the lookahead restriction of) an optional block of it?
    fn brace_may_follow(prev: Option<&'static str>) -> bool {
        matches!(
            prev,
            None | Some(
                "OperationDefinition"
                    | "FragmentDefinition"
                    | "ScalarTypeDefinition"
                    | "ScalarTypeExtension"
                    | "UnionTypeDefinition"
                    | "UnionTypeExtension"
                    | "DirectiveDefinition"
                    | "SchemaDefinition"
            )
        )
    }

    fn definition(&mut self, prev: Option<&'static str>) -> &'static str {
        let all = ALT_KEYS[0].1;
        let allowed: Vec<&'static str> = if Self::brace_may_follow(prev) {
            all.to_vec()
        } else {
            all.iter().copied().filter(|a| *a != "OperationShorthand").collect()
        };
        let choice = self.alt("Definition", &allowed);
        match choice {
            "OperationShorthand" => {
                self.selection_set(0);
                self.defs.push(("OperationDefinition", None));
                "OperationDefinition"
            }
            "OperationDefinition" => {
                let k = self.alt("OperationType", &["query", "mutation", "subscription"]);
                self.t(k);
                let name = if self.opt("OperationDefinition.Name") {
                    Some(self.name("OperationName"))
                } else {
                    None
                };
                if self.opt("OperationDefinition.VariableDefinitions") {
                    self.t("(");
                    for _ in 0..self.len() {
                        self.t("$");
                        self.name("Variable");
                        self.t(":");
                        self.ty(0);
                        if self.opt("VariableDefinition.DefaultValue") {
                            self.t("=");
                            self.value(true, 0);
                        }
                        self.directives("VariableDefinition.Directives", true);
                    }
                    self.t(")");
                }
                self.directives("OperationDefinition.Directives", false);
                self.selection_set(0);
                self.defs.push(("OperationDefinition", name));
                "OperationDefinition"
            }
            "FragmentDefinition" => {
                self.t("fragment");
                let name = self.name("FragmentName");
                self.t("on");
                self.name("NamedType");
                self.directives("FragmentDefinition.Directives", false);
                self.selection_set(0);
                self.defs.push(("FragmentDefinition", Some(name)));
                "FragmentDefinition"
            }
            "SchemaDefinition" => {
                if self.opt("SchemaDefinition.Description") {
                    self.description();
                }
                self.t("schema");
                self.directives("SchemaDefinition.Directives", true);
                self.root_operation_types();
                self.defs.push(("SchemaDefinition", None));
                "SchemaDefinition"
            }
            "ScalarTypeDefinition" => {
                if self.opt("ScalarTypeDefinition.Description") {
                    self.description();
                }
                self.t("scalar");
                let name = self.name("TypeName");
                self.directives("ScalarTypeDefinition.Directives", true);
                self.defs.push(("ScalarTypeDefinition", Some(name)));
                "ScalarTypeDefinition"
            }
            "ObjectTypeDefinition" | "InterfaceTypeDefinition" => {
                let obj = choice == "ObjectTypeDefinition";
                if self.opt(if obj { "ObjectTypeDefinition.Description" } else { "InterfaceTypeDefinition.Description" }) {
                    self.description();
                }
                self.t(if obj { "type" } else { "interface" });
                let name = self.name("TypeName");
                if self.opt(if obj {
                    "ObjectTypeDefinition.ImplementsInterfaces"
                } else {
                    "InterfaceTypeDefinition.ImplementsInterfaces"
                }) {
                    self.implements_interfaces();
                }
                self.directives(
                    if obj { "ObjectTypeDefinition.Directives" } else { "InterfaceTypeDefinition.Directives" },
                    true,
                );
                if self.opt(if obj {
                    "ObjectTypeDefinition.FieldsDefinition"
                } else {
                    "InterfaceTypeDefinition.FieldsDefinition"
                }) {
                    self.fields_definition();
                }
                self.defs.push((choice, Some(name)));
                choice
            }
            "UnionTypeDefinition" => {
                if self.opt("UnionTypeDefinition.Description") {
                    self.description();
                }
                self.t("union");
                let name = self.name("TypeName");
                self.directives("UnionTypeDefinition.Directives", true);
                if self.opt("UnionTypeDefinition.UnionMemberTypes") {
                    self.union_member_types();
                }
                self.defs.push((choice, Some(name)));
                choice
            }
            "EnumTypeDefinition" => {
                if self.opt("EnumTypeDefinition.Description") {
                    self.description();
                }
                self.t("enum");
                let name = self.name("TypeName");
                self.directives("EnumTypeDefinition.Directives", true);
                if self.opt("EnumTypeDefinition.EnumValuesDefinition") {
                    self.enum_values_definition();
                }
                self.defs.push((choice, Some(name)));
                choice
            }
            "InputObjectTypeDefinition" => {
                if self.opt("InputObjectTypeDefinition.Description") {
                    self.description();
                }
                self.t("input");
                let name = self.name("TypeName");
                self.directives("InputObjectTypeDefinition.Directives", true);
                if self.opt("InputObjectTypeDefinition.InputFieldsDefinition") {
                    self.input_fields_definition();
                }
                self.defs.push((choice, Some(name)));
                choice
            }
            "DirectiveDefinition" => {
                if self.opt("DirectiveDefinition.Description") {
                    self.description();
                }
                self.t("directive");
                self.t("@");
                let name = self.name("Directive");
                if self.opt("DirectiveDefinition.ArgumentsDefinition") {
                    self.arguments_definition();
                }
                if self.opt("DirectiveDefinition.repeatable") {
                    self.t("repeatable");
                }
                self.t("on");
                if self.opt("DirectiveLocations.LeadingPipe") {
                    self.t("|");
                }
                let n = self.len();
                for i in 0..n {
                    if i > 0 {
                        self.t("|");
                    }
                    let l = self.alt("DirectiveLocation", DIRECTIVE_LOCATIONS);
                    self.t(l);
                }
                self.defs.push((choice, Some(name)));
                choice
            }
            "SchemaExtension" => {
                self.t("extend");
                self.t("schema");
                let mut adds = self.directives("SchemaExtension.Directives", true);
                if self.opt("SchemaExtension.RootOperationTypes") {
                    self.root_operation_types();
                    adds = true;
                }
                if !adds {
                    self.directive_list(true);
                }
                self.defs.push((choice, None));
                choice
            }
            "ScalarTypeExtension" => {
                self.t("extend");
                self.t("scalar");
                let name = self.name("TypeName");
                self.directive_list(true);
                self.defs.push((choice, Some(name)));
                choice
            }
            "ObjectTypeExtension" | "InterfaceTypeExtension" => {
                let obj = choice == "ObjectTypeExtension";
                self.t("extend");
                self.t(if obj { "type" } else { "interface" });
                let name = self.name("TypeName");
                let mut adds = false;
                if self.opt(if obj {
                    "ObjectTypeExtension.ImplementsInterfaces"
                } else {
                    "InterfaceTypeExtension.ImplementsInterfaces"
                }) {
                    self.implements_interfaces();
                    adds = true;
                }
                adds |= self.directives(
                    if obj { "ObjectTypeExtension.Directives" } else { "InterfaceTypeExtension.Directives" },
                    true,
                );
                if self.opt(if obj {
                    "ObjectTypeExtension.FieldsDefinition"
                } else {
                    "InterfaceTypeExtension.FieldsDefinition"
                }) {
                    self.fields_definition();
                    adds = true;
                }
                if !adds {
                    // every extension must add something
                    self.directive_list(true);
                }
                self.defs.push((choice, Some(name)));
                choice
            }
            "UnionTypeExtension" => {
                self.t("extend");
                self.t("union");
                let name = self.name("TypeName");
                let mut adds = self.directives("UnionTypeExtension.Directives", true);
                if self.opt("UnionTypeExtension.UnionMemberTypes") {
                    self.union_member_types();
                    adds = true;
                }
                if !adds {
                    self.union_member_types();
                }
                self.defs.push((choice, Some(name)));
                choice
            }
            "EnumTypeExtension" => {
                self.t("extend");
                self.t("enum");
                let name = self.name("TypeName");
                let mut adds = self.directives("EnumTypeExtension.Directives", true);
                if self.opt("EnumTypeExtension.EnumValuesDefinition") {
                    self.enum_values_definition();
                    adds = true;
                }
                if !adds {
                    self.enum_values_definition();
                }
                self.defs.push((choice, Some(name)));
                choice
            }
            _ => {
                self.t("extend");
                self.t("input");
                let name = self.name("TypeName");
                let mut adds = self.directives("InputObjectTypeExtension.Directives", true);
                if self.opt("InputObjectTypeExtension.InputFieldsDefinition") {
                    self.input_fields_definition();
                    adds = true;
                }
                if !adds {
                    self.directive_list(true);
                }
                self.defs.push(("InputObjectTypeExtension", Some(name)));
                "InputObjectTypeExtension"
            }
        }
    }

    /// Join the tokens with random ignored tokens; a separator is forced only where two tokens
    /// would otherwise lex differently.
    fn render(&mut self, bom: bool, trailing_comment: bool) -> String {
        let mut s = String::new();
        if bom {
            s.push('\u{FEFF}');
        }
        if self.rng.chance(1, 6) {
            s.push_str(self.rng.pick_str(SEPS_REQUIRED));
        }
        let toks = std::mem::take(&mut self.toks);
        for (i, t) in toks.iter().enumerate() {
            if i > 0 {
                let prev = toks[i - 1].as_str();
                let prev_is_number = prev
                    .as_bytes()
                    .first()
                    .map(|b| b.is_ascii_digit() || *b == b'-')
                    .unwrap_or(false);
                let optional = (is_punct_tok(prev) || is_punct_tok(t)) && !(prev_is_number && t == "...");
                if optional && self.rng.chance(1, 2) {
                    // no separator
                } else {
                    s.push_str(self.rng.pick_str(SEPS_REQUIRED));
                }
            }
            s.push_str(t);
        }
        if self.rng.chance(1, 4) {
            s.push_str(self.rng.pick_str(SEPS_REQUIRED));
        }
        if trailing_comment {
            s.push_str("# end é");
        }
        s
    }

    /// One valid document of 1..=max_defs definitions.
    pub fn document(&mut self, max_defs: usize) -> String {
        let bom = self.opt("Document.BOM");
        let trailing = self.opt("Document.TrailingComment");
        let n = self.rng.range(1, max_defs.max(1));
        let mut prev = None;
        for _ in 0..n {
            prev = Some(self.definition(prev));
        }
        self.render(bom, trailing)
    }
}

/// Convenience: one document, its decision outcomes and its by-construction definition list.
pub struct GenDoc {
    pub text: String,
    pub hits: Vec<String>,
    pub defs: Vec<(&'static str, Option<String>)>,
}

pub fn gen_document(rng: &mut Rng, cov: &mut Coverage, max_defs: usize) -> GenDoc {
    let mut g = SynGen::new(rng, cov);
    let text = g.document(max_defs);
    GenDoc {
        text,
        hits: std::mem::take(&mut g.hits),
        defs: std::mem::take(&mut g.defs),
    }
}

#[cfg(test)]
mod tests {
    use super::*;
    use crate::refmodel::grammar::RefGrammar;

    #[test]
    fn generated_documents_are_valid_and_cover_the_checklist() {
        for seed in 1..=5u64 {
            let mut rng = Rng::new(seed);
            let mut cov = Coverage::default();
            for i in 0..1500 {
                let d = gen_document(&mut rng, &mut cov, 4);
                let got = RefGrammar::accepts_document(&d.text)
                    .unwrap_or_else(|e| panic!("seed {seed} doc {i} rejected {e:?}:\n{}", d.text));
                let got: Vec<(String, Option<String>)> =
                    got.into_iter().map(|(k, n)| (k.as_str().to_string(), n)).collect();
                let want: Vec<(String, Option<String>)> =
                    d.defs.iter().map(|(k, n)| (k.to_string(), n.clone())).collect();
                assert_eq!(got, want, "seed {seed} doc {i}:\n{}", d.text);
            }
            assert!(cov.complete(), "seed {seed}: missing {:?}", cov.missing());
        }
    }
}
