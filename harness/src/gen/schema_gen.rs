//! Generator of type-system documents that are valid by construction (DESIGN §4 source 4), with
//! every feature of the type system reachable: all six kinds, directives with locations and
//! `repeatable`, extensions placed before/after their definitions, descriptions, default values,
//! deprecations, `@specifiedBy`, interfaces implementing interfaces, implicit/explicit `schema`.

use crate::gen::model::*;
use crate::prng::Rng;

#[derive(Clone, Debug)]
pub struct SchemaOpts {
    pub max_each: usize,
    pub extensions: bool,
    pub descriptions: bool,
    pub directives: bool,
    pub defaults: bool,
    pub deprecations: bool,
    /// probability (out of 10) that the root types get non-default names (forces explicit schema)
    pub renamed_roots: usize,
    pub mutation: bool,
    pub subscription: bool,
    /// Restrict default values to the class graphql-js prints back unambiguously (C24 envelope).
    pub simple_defaults: bool,
}

impl Default for SchemaOpts {
    fn default() -> Self {
        SchemaOpts {
            max_each: 3,
            extensions: true,
            descriptions: true,
            directives: true,
            defaults: true,
            deprecations: true,
            renamed_roots: 2,
            mutation: true,
            subscription: true,
            simple_defaults: false,
        }
    }
}

const DESC_SAMPLES: &[&str] = &[
    "A description",
    "Multi\nline description",
    "with \"quotes\" inside",
    "é中🚀 unicode",
    "trailing backslash \\",
    "tab\tand stuff",
    "x",
    "Ends with quote\"",
    "  leading spaces",
    "line one\n\n  indented line three",
];

fn maybe_desc(rng: &mut Rng, o: &SchemaOpts) -> Option<String> {
    if o.descriptions && rng.chance(1, 4) {
        Some(rng.pick_str(DESC_SAMPLES).to_string())
    } else {
        None
    }
}

pub struct Names {
    pub scalars: Vec<String>,
    pub enums: Vec<String>,
    pub inputs: Vec<String>,
    pub interfaces: Vec<String>,
    pub objects: Vec<String>,
    pub unions: Vec<String>,
}

fn wrap_random(rng: &mut Rng, base: &str, max_list: usize) -> TyRef {
    let mut t = TyRef::named(base);
    if rng.chance(1, 3) {
        t = t.non_null();
    }
    let lists = if max_list == 0 { 0 } else { *rng.pick(&[0usize, 0, 0, 1, 1, 2]) }.min(max_list);
    for _ in 0..lists {
        t = t.list();
        if rng.chance(1, 3) {
            t = t.non_null();
        }
    }
    t
}

/// A literal valid for input type `ty` (const: no variables). `depth` bounds input-object nesting.
pub fn valid_const(rng: &mut Rng, s: &FlatSchema, ty: &TyRef, depth: usize, simple: bool) -> Val {
    match ty {
        TyRef::NonNull(t) => {
            let v = valid_const(rng, s, t, depth, simple);
            if v == Val::Null {
                // only happens when depth ran out; fall back to the simplest non-null value
                return simplest_non_null(s, t, simple);
            }
            v
        }
        TyRef::List(t) => {
            if rng.chance(1, 8) {
                return Val::Null;
            }
            if !simple && rng.chance(1, 6) {
                // single value coerced to a list (valid literal for a list type)
                let v = valid_const(rng, s, t, depth, simple);
                if !matches!(v, Val::Null | Val::List(_)) {
                    return v;
                }
            }
            let n = rng.below(3);
            Val::List((0..n).map(|_| valid_const(rng, s, t, depth, simple)).collect())
        }
        TyRef::Named(n) => {
            if rng.chance(1, 8) {
                return Val::Null;
            }
            named_const(rng, s, n, depth, simple)
        }
    }
}

/// With `simple` (C24 envelope) an object literal also spells out every field that has a default,
/// with that default: graphql-js fills omitted defaulted fields in before it prints a default value.
fn simplest_non_null(s: &FlatSchema, ty: &TyRef, simple: bool) -> Val {
    match ty {
        TyRef::NonNull(t) => simplest_non_null(s, t, simple),
        TyRef::List(_) => Val::List(vec![]),
        TyRef::Named(n) => match n.as_str() {
            "Int" => Val::Int(0),
            "Float" => Val::Float("0.5".into()),
            "String" | "ID" => Val::Str("s".into()),
            "Boolean" => Val::Bool(true),
            _ => match s.ty(n) {
                Some(t) if t.kind == Kind::Enum => Val::Enum(t.values[0].name.clone()),
                Some(t) if t.kind == Kind::Input => Val::Obj(
                    t.input_fields
                        .iter()
                        .filter(|f| (f.ty.is_non_null() && f.default.is_none()) || (simple && f.default.is_some()))
                        .map(|f| match &f.default {
                            Some(d) => (f.name.clone(), d.clone()),
                            None => (f.name.clone(), simplest_non_null(s, &f.ty, simple)),
                        })
                        .collect(),
                ),
                _ => Val::Int(1),
            },
        },
    }
}

fn named_const(rng: &mut Rng, s: &FlatSchema, n: &str, depth: usize, simple: bool) -> Val {
    match n {
        "Int" => Val::Int(*rng.pick(&[0i64, 1, -1, 7, 42, 2147483647, -2147483648])),
        "Float" => {
            if simple {
                Val::Float(rng.pick_str(&["1.5", "-0.25", "3.75", "100.125"]).to_string())
            } else if rng.chance(1, 4) {
                Val::Int(*rng.pick(&[0i64, 3, -9]))
            } else {
                Val::Float(rng.pick_str(&["1.5", "-0.25", "1e3", "2.5E-2", "0.0", "1.0"]).to_string())
            }
        }
        "String" => {
            if simple {
                Val::Str(rng.pick_str(&["abc", "hello world", "x"]).to_string())
            } else {
                Val::Str(
                    rng.pick_str(&[
                        "abc", "with \"q\"", "é🚀", "", "multi\nline", "back\\slash", "c1 \u{85} control", "del \u{7f}", "ls \u{2028} ps \u{2029}",
                        "bom \u{feff}", "tab\tcr\r", "bell \u{7}", "\u{9f}",
                    ])
                    .to_string(),
                )
            }
        }
        "Boolean" => Val::Bool(rng.bool()),
        "ID" => {
            if simple || rng.bool() {
                // C24 envelope: graphql-js prints an integer-looking ID default without quotes
                Val::Str(rng.pick_str(if simple { &["id1", "a42"] } else { &["id1", "42"] }).to_string())
            } else {
                Val::Int(rng.below(100) as i64)
            }
        }
        _ => match s.ty(n) {
            Some(t) if t.kind == Kind::Enum => Val::Enum(rng.pick(&t.values).name.clone()),
            Some(t) if t.kind == Kind::Input => {
                if depth == 0 {
                    return simplest_non_null(s, &TyRef::named(n), simple);
                }
                let mut fields = Vec::new();
                for f in &t.input_fields {
                    let required = f.ty.is_non_null() && f.default.is_none();
                    // C24 envelope: never omit a field that has a default (graphql-js would print it)
                    if required || (simple && f.default.is_some()) || rng.chance(1, 2) {
                        fields.push((f.name.clone(), valid_const(rng, s, &f.ty, depth - 1, simple)));
                    }
                }
                if !simple {
                    rng.shuffle(&mut fields);
                }
                Val::Obj(fields)
            }
            Some(t) if t.kind == Kind::Scalar => {
                // custom scalar: anything goes
                if simple {
                    Val::Str("custom".into())
                } else {
                    match rng.below(5) {
                        0 => Val::Int(5),
                        1 => Val::Str("c".into()),
                        2 => Val::Bool(false),
                        3 => Val::List(vec![Val::Int(1), Val::Str("x".into())]),
                        _ => Val::Obj(vec![("k".into(), Val::Int(1))]),
                    }
                }
            }
            _ => Val::Null,
        },
    }
}

const TYPE_SYSTEM_LOCATIONS: &[&str] = &[
    "SCHEMA",
    "SCALAR",
    "OBJECT",
    "FIELD_DEFINITION",
    "ARGUMENT_DEFINITION",
    "INTERFACE",
    "UNION",
    "ENUM",
    "ENUM_VALUE",
    "INPUT_OBJECT",
    "INPUT_FIELD_DEFINITION",
];
pub const EXECUTABLE_LOCATIONS: &[&str] = &[
    "QUERY",
    "MUTATION",
    "SUBSCRIPTION",
    "FIELD",
    "FRAGMENT_DEFINITION",
    "FRAGMENT_SPREAD",
    "INLINE_FRAGMENT",
    "VARIABLE_DEFINITION",
];

/// Directive applications valid at `location`, drawn from the schema's custom directives.
pub fn dir_apps(rng: &mut Rng, s: &FlatSchema, location: &str, simple: bool, p_num: usize, p_den: usize) -> Vec<DirApp> {
    let mut out = Vec::new();
    let cands: Vec<&DirectiveDef> = s
        .directives
        .iter()
        .filter(|d| d.locations.iter().any(|l| l == location))
        .filter(|d| !matches!(d.name.as_str(), "skip" | "include" | "deprecated" | "specifiedBy"))
        .collect();
    if cands.is_empty() {
        return out;
    }
    while rng.chance(p_num, p_den) && out.len() < 3 {
        let d = *rng.pick(&cands);
        if !d.repeatable && out.iter().any(|a: &DirApp| a.name == d.name) {
            break;
        }
        let mut args = Vec::new();
        for a in &d.args {
            let required = a.ty.is_non_null() && a.default.is_none();
            if required || rng.bool() {
                args.push((a.name.clone(), valid_const(rng, s, &a.ty, 2, simple)));
            }
        }
        out.push(DirApp {
            name: d.name.clone(),
            args,
        });
    }
    out
}

fn deprecated(rng: &mut Rng) -> DirApp {
    DirApp {
        name: "deprecated".into(),
        args: if rng.bool() {
            vec![("reason".into(), Val::Str(rng.pick_str(&["use other", "old", "no \"more\""]).to_string()))]
        } else {
            vec![]
        },
    }
}

/// Generate a valid type-system document.
pub fn gen_schema(rng: &mut Rng, o: &SchemaOpts) -> Doc {
    let n = |rng: &mut Rng, lo: usize| rng.range(lo, o.max_each.max(lo));
    let names = Names {
        scalars: (0..n(rng, 0)).map(|i| format!("Sc{i}")).collect(),
        enums: (0..n(rng, 1)).map(|i| format!("En{i}")).collect(),
        inputs: (0..n(rng, 1)).map(|i| format!("In{i}")).collect(),
        interfaces: (0..n(rng, 0)).map(|i| format!("If{i}")).collect(),
        objects: (0..n(rng, 1)).map(|i| format!("Ob{i}")).collect(),
        unions: (0..n(rng, 0)).map(|i| format!("Un{i}")).collect(),
    };
    let renamed = rng.chance(o.renamed_roots, 10);
    let qname = if renamed { "RootQ" } else { "Query" }.to_string();
    let mname = if renamed { "RootM" } else { "Mutation" }.to_string();
    let sname = if renamed { "RootS" } else { "Subscription" }.to_string();
    let has_m = o.mutation && rng.chance(1, 2);
    let has_s = o.subscription && rng.chance(1, 2);

    // A skeleton flat schema (kinds only) so that value/directive generation can look types up.
    let mut doc = Doc::default();
    let mut flat = FlatSchema::default();
    let add_flat = |flat: &mut FlatSchema, kind: Kind, name: &str| {
        flat.types.push(FlatType {
            kind,
            desc: None,
            name: name.to_string(),
            implements: vec![],
            fields: vec![],
            members: vec![],
            values: vec![],
            input_fields: vec![],
            dirs: vec![],
            builtin: false,
        })
    };
    for b in BUILTIN_SCALARS {
        add_flat(&mut flat, Kind::Scalar, b);
    }
    for d in builtin_directive_defs() {
        flat.directives.push(d);
    }

    // Scalars and enums first (no dependencies).
    let mut types: Vec<TypeDef> = Vec::new();
    for s in &names.scalars {
        let mut t = TypeDef::new(Kind::Scalar, s);
        t.desc = maybe_desc(rng, o);
        if rng.chance(1, 2) {
            t.dirs.push(DirApp {
                name: "specifiedBy".into(),
                args: vec![("url".into(), Val::Str(format!("https://example.com/{s}")))],
            });
        }
        add_flat(&mut flat, Kind::Scalar, s);
        types.push(t);
    }
    for e in &names.enums {
        let mut t = TypeDef::new(Kind::Enum, e);
        t.desc = maybe_desc(rng, o);
        let nv = rng.range(1, 4);
        for i in 0..nv {
            t.values.push(EnumVal {
                desc: maybe_desc(rng, o),
                name: format!("{}_V{}", e.to_uppercase(), i),
                dirs: if o.deprecations && rng.chance(1, 5) { vec![deprecated(rng)] } else { vec![] },
            });
        }
        add_flat(&mut flat, Kind::Enum, e);
        flat.types.last_mut().unwrap().values = t.values.clone();
        types.push(t);
    }
    // Input objects: In_i may reference In_j (j < i) freely, and any input object only behind a
    // nullable or list wrapper (no non-null cycles).
    for (i, name) in names.inputs.iter().enumerate() {
        let mut t = TypeDef::new(Kind::Input, name);
        t.desc = maybe_desc(rng, o);
        let nf = rng.range(1, 4);
        for k in 0..nf {
            let mut leafs: Vec<String> = BUILTIN_SCALARS.iter().map(|s| s.to_string()).collect();
            leafs.extend(names.scalars.iter().cloned());
            leafs.extend(names.enums.iter().cloned());
            let (ty, is_input_ref) = if rng.chance(1, 4) {
                let j = rng.below(names.inputs.len());
                let target = &names.inputs[j];
                if j < i {
                    (wrap_random(rng, target, 2), true)
                } else {
                    // possibly cyclic: keep it nullable at the outermost level
                    let t = if rng.bool() { TyRef::named(target) } else { TyRef::named(target).non_null().list() };
                    (t, true)
                }
            } else {
                {
                    let base = rng.pick(&leafs).clone();
                    (wrap_random(rng, &base, 2), false)
                }
            };
            let mut f = InputDef {
                desc: maybe_desc(rng, o),
                name: format!("f{k}"),
                ty,
                default: None,
                dirs: vec![],
            };
            if o.defaults && !is_input_ref && rng.chance(1, 3) {
                f.default = Some(valid_const(rng, &flat, &f.ty, 1, o.simple_defaults));
            }
            if o.deprecations && !f.ty.is_non_null() && rng.chance(1, 8) {
                f.dirs.push(deprecated(rng));
            }
            t.input_fields.push(f);
        }
        add_flat(&mut flat, Kind::Input, name);
        flat.types.last_mut().unwrap().input_fields = t.input_fields.clone();
        types.push(t);
    }
    // Defaults that reference earlier input objects (now that they exist in `flat`).
    if o.defaults {
        for t in types.iter_mut().filter(|t| t.kind == Kind::Input) {
            for f in t.input_fields.iter_mut() {
                let inner = f.ty.inner_name().to_string();
                if f.default.is_none()
                    && flat.kind(&inner) == Some(Kind::Input)
                    && inner < t.name
                    && rng.chance(1, 3)
                {
                    f.default = Some(valid_const(rng, &flat, &f.ty, 2, o.simple_defaults));
                }
            }
            let fields = t.input_fields.clone();
            if let Some(ft) = flat.types.iter_mut().find(|x| x.name == t.name) {
                ft.input_fields = fields;
            }
        }
    }

    // Custom directive definitions.
    let mut directive_defs = Vec::new();
    if o.directives {
        let nd = rng.range(0, 3);
        for i in 0..nd {
            let mut locs: Vec<String> = Vec::new();
            let all: Vec<&str> = TYPE_SYSTEM_LOCATIONS.iter().chain(EXECUTABLE_LOCATIONS.iter()).copied().collect();
            let nl = rng.range(1, 6);
            for _ in 0..nl {
                let l = rng.pick_str(&all).to_string();
                if !locs.contains(&l) {
                    locs.push(l);
                }
            }
            let mut args = Vec::new();
            let na = rng.below(3);
            // A directive usable on the input side of the type system (on scalars, enums, enum
            // values, input objects, input fields, argument definitions) only takes built-in
            // scalar arguments: otherwise a type used by its own arguments could apply it, which is
            // a directive-definition cycle.
            const INPUT_SIDE: &[&str] = &[
                "SCALAR", "ENUM", "ENUM_VALUE", "INPUT_OBJECT", "INPUT_FIELD_DEFINITION", "ARGUMENT_DEFINITION",
            ];
            let mut input_types: Vec<String> = BUILTIN_SCALARS.iter().map(|s| s.to_string()).collect();
            if !locs.iter().any(|l| INPUT_SIDE.contains(&l.as_str())) {
                input_types.extend(names.enums.iter().cloned());
                input_types.extend(names.inputs.iter().cloned());
                input_types.extend(names.scalars.iter().cloned());
            }
            for k in 0..na {
                let base = rng.pick(&input_types).clone();
                let ty = wrap_random(rng, &base, 1);
                let mut a = InputDef {
                    desc: maybe_desc(rng, o),
                    name: format!("a{k}"),
                    ty,
                    default: None,
                    dirs: vec![],
                };
                if o.defaults && rng.chance(1, 3) {
                    a.default = Some(valid_const(rng, &flat, &a.ty, 1, o.simple_defaults));
                }
                args.push(a);
            }
            let d = DirectiveDef {
                desc: maybe_desc(rng, o),
                name: format!("dir{i}"),
                args,
                repeatable: rng.chance(1, 3),
                locations: locs,
            };
            flat.directives.push(d.clone());
            directive_defs.push(d);
        }
    }

    // Output types available for fields.
    let mut out_types: Vec<String> = BUILTIN_SCALARS.iter().map(|s| s.to_string()).collect();
    out_types.extend(names.scalars.iter().cloned());
    out_types.extend(names.enums.iter().cloned());
    out_types.extend(names.interfaces.iter().cloned());
    out_types.extend(names.objects.iter().cloned());
    out_types.extend(names.unions.iter().cloned());
    let mut in_types: Vec<String> = BUILTIN_SCALARS.iter().map(|s| s.to_string()).collect();
    in_types.extend(names.scalars.iter().cloned());
    in_types.extend(names.enums.iter().cloned());
    in_types.extend(names.inputs.iter().cloned());

    for k in [&names.interfaces, &names.objects].into_iter().flatten() {
        let kind = if names.interfaces.contains(k) { Kind::Interface } else { Kind::Object };
        add_flat(&mut flat, kind, k);
    }
    for u in &names.unions {
        add_flat(&mut flat, Kind::Union, u);
    }
    for r in [&qname, &mname, &sname] {
        add_flat(&mut flat, Kind::Object, r);
    }

    let gen_field = |rng: &mut Rng, flat: &FlatSchema, name: String, composite_ok: bool| -> FieldDef {
        let base = loop {
            let b = rng.pick(&out_types).clone();
            if composite_ok || !flat.is_composite(&b) {
                break b;
            }
        };
        let ty = wrap_random(rng, &base, 2);
        let mut args = Vec::new();
        if rng.chance(1, 3) {
            let na = rng.range(1, 2);
            for k in 0..na {
                let base = rng.pick(&in_types).clone();
                let aty = wrap_random(rng, &base, 1);
                let mut a = InputDef {
                    desc: maybe_desc(rng, o),
                    name: format!("arg{k}"),
                    ty: aty,
                    default: None,
                    dirs: vec![],
                };
                if o.defaults && rng.chance(1, 3) {
                    a.default = Some(valid_const(rng, flat, &a.ty, 1, o.simple_defaults));
                }
                if o.deprecations && !a.ty.is_non_null() && rng.chance(1, 10) {
                    a.dirs.push(deprecated(rng));
                }
                args.push(a);
            }
        }
        FieldDef {
            desc: maybe_desc(rng, o),
            name,
            args,
            ty,
            dirs: if o.deprecations && rng.chance(1, 8) { vec![deprecated(rng)] } else { vec![] },
        }
    };

    // Interfaces: If_k may implement If_j for j < k (transitively closed, fields copied).
    let mut iface_defs: Vec<TypeDef> = Vec::new();
    for (k, name) in names.interfaces.iter().enumerate() {
        let mut t = TypeDef::new(Kind::Interface, name);
        t.desc = maybe_desc(rng, o);
        if k > 0 && rng.chance(1, 2) {
            let j = rng.below(k);
            let parent = iface_defs[j].clone();
            for tr in parent.implements.iter().chain(std::iter::once(&parent.name)) {
                if !t.implements.contains(tr) {
                    t.implements.push(tr.clone());
                }
            }
            for f in &parent.fields {
                t.fields.push(f.clone());
            }
        }
        let nf = rng.range(1, 3);
        for i in 0..nf {
            t.fields.push(gen_field(rng, &flat, format!("{}_f{}", name.to_lowercase(), i), true));
        }
        iface_defs.push(t);
    }

    // Objects.
    let mut obj_defs: Vec<TypeDef> = Vec::new();
    let mut all_objects: Vec<String> = names.objects.clone();
    all_objects.push(qname.clone());
    if has_m {
        all_objects.push(mname.clone());
    }
    if has_s {
        all_objects.push(sname.clone());
    }
    for name in &all_objects {
        let mut t = TypeDef::new(Kind::Object, name);
        t.desc = maybe_desc(rng, o);
        let is_root = *name == qname || *name == mname || *name == sname;
        if !iface_defs.is_empty() && !is_root && rng.chance(2, 3) {
            let pick = rng.pick(&iface_defs).clone();
            for tr in pick.implements.iter().chain(std::iter::once(&pick.name)) {
                if !t.implements.contains(tr) {
                    t.implements.push(tr.clone());
                }
            }
            for f in &pick.fields {
                let mut f = f.clone();
                // covariance: sometimes strengthen to non-null, sometimes add an optional argument
                if rng.chance(1, 4) {
                    f.ty = f.ty.clone().non_null();
                }
                if rng.chance(1, 6) {
                    f.args.push(InputDef {
                        desc: None,
                        name: "extra".into(),
                        ty: TyRef::named("Int"),
                        default: None,
                        dirs: vec![],
                    });
                }
                f.desc = maybe_desc(rng, o);
                t.fields.push(f);
            }
        }
        let nf = rng.range(1, 4);
        for i in 0..nf {
            t.fields.push(gen_field(rng, &flat, format!("{}_f{}", name.to_lowercase(), i), true));
        }
        obj_defs.push(t);
    }
    // Covariant narrowing of interface-typed fields to an implementing object.
    {
        let snapshot = obj_defs.clone();
        for t in obj_defs.iter_mut() {
            for f in t.fields.iter_mut() {
                let inner = f.ty.inner_name().to_string();
                if names.interfaces.contains(&inner) && !t.implements.is_empty() && rng.chance(1, 4) {
                    // is this field inherited from an interface? then narrowing is a covariance test
                    if let Some(imp) = snapshot.iter().find(|ob| ob.implements.contains(&inner)) {
                        f.ty = replace_inner(&f.ty, &imp.name);
                    }
                }
            }
        }
    }

    // Unions.
    let mut union_defs: Vec<TypeDef> = Vec::new();
    for u in &names.unions {
        let mut t = TypeDef::new(Kind::Union, u);
        t.desc = maybe_desc(rng, o);
        let nm = rng.range(1, names.objects.len().min(3));
        let mut pool = names.objects.clone();
        rng.shuffle(&mut pool);
        t.members = pool.into_iter().take(nm).collect();
        union_defs.push(t);
    }

    types.extend(iface_defs);
    types.extend(obj_defs);
    types.extend(union_defs);

    // Fill the flat view for directive-application generation.
    for t in &types {
        if let Some(ft) = flat.types.iter_mut().find(|x| x.name == t.name) {
            ft.fields = t.fields.clone();
            ft.implements = t.implements.clone();
            ft.members = t.members.clone();
        }
    }

    // Directive applications at type-system locations.
    if o.directives && !directive_defs.is_empty() {
        for t in types.iter_mut() {
            t.dirs.extend(dir_apps(rng, &flat, t.kind.location(), o.simple_defaults, 1, 4));
            for f in t.fields.iter_mut() {
                f.dirs.extend(dir_apps(rng, &flat, "FIELD_DEFINITION", o.simple_defaults, 1, 6));
                for a in f.args.iter_mut() {
                    a.dirs.extend(dir_apps(rng, &flat, "ARGUMENT_DEFINITION", o.simple_defaults, 1, 8));
                }
            }
            for v in t.values.iter_mut() {
                v.dirs.extend(dir_apps(rng, &flat, "ENUM_VALUE", o.simple_defaults, 1, 6));
            }
            for f in t.input_fields.iter_mut() {
                f.dirs.extend(dir_apps(rng, &flat, "INPUT_FIELD_DEFINITION", o.simple_defaults, 1, 6));
            }
        }
        for d in directive_defs.iter_mut() {
            for a in d.args.iter_mut() {
                // applying a directive inside a directive definition must not create a cycle:
                // only use directives with a smaller index
                let me = d.name.clone();
                let apps = dir_apps(rng, &flat, "ARGUMENT_DEFINITION", o.simple_defaults, 1, 10);
                a.dirs.extend(apps.into_iter().filter(|x| x.name < me));
            }
        }
    }

    // Schema definition.
    let explicit = renamed || rng.chance(1, 3);
    let mut schema_defs: Vec<SchemaDef> = Vec::new();
    if explicit {
        let mut roots = vec![("query".to_string(), qname.clone())];
        if has_m {
            roots.push(("mutation".into(), mname.clone()));
        }
        if has_s {
            roots.push(("subscription".into(), sname.clone()));
        }
        let mut sd = SchemaDef {
            ext: false,
            desc: maybe_desc(rng, o),
            dirs: dir_apps(rng, &flat, "SCHEMA", o.simple_defaults, 1, 3),
            roots,
        };
        if o.extensions && sd.roots.len() > 1 && rng.chance(1, 3) {
            let moved = sd.roots.pop().unwrap();
            schema_defs.push(SchemaDef {
                ext: true,
                desc: None,
                dirs: vec![],
                roots: vec![moved],
            });
        }
        schema_defs.insert(0, sd.clone());
        let _ = &mut sd;
    }

    // Split some types into definition + extensions.
    let mut defs: Vec<Def> = Vec::new();
    for d in directive_defs {
        defs.push(Def::Directive(d));
    }
    let mut extensions: Vec<TypeDef> = Vec::new();
    for mut t in types {
        if o.extensions && rng.chance(1, 4) {
            let mut ext = TypeDef::new(t.kind, &t.name);
            ext.ext = true;
            match t.kind {
                Kind::Object | Kind::Interface if t.fields.len() > 1 => {
                    // keep inherited interface fields with the definition that declares `implements`
                    let keep = t.fields.len() - 1;
                    ext.fields = t.fields.split_off(keep);
                }
                Kind::Enum if t.values.len() > 1 => {
                    let keep = t.values.len() - 1;
                    ext.values = t.values.split_off(keep);
                }
                Kind::Input if t.input_fields.len() > 1 => {
                    let keep = t.input_fields.len() - 1;
                    ext.input_fields = t.input_fields.split_off(keep);
                }
                Kind::Union if t.members.len() > 1 => {
                    let keep = t.members.len() - 1;
                    ext.members = t.members.split_off(keep);
                }
                _ => {
                    if !t.dirs.is_empty() {
                        ext.dirs = std::mem::take(&mut t.dirs);
                    }
                }
            }
            let adds = !ext.fields.is_empty()
                || !ext.values.is_empty()
                || !ext.input_fields.is_empty()
                || !ext.members.is_empty()
                || !ext.dirs.is_empty();
            if adds {
                extensions.push(ext);
            }
        }
        defs.push(Def::Type(t));
    }
    for s in schema_defs {
        defs.push(Def::Schema(s));
    }
    rng.shuffle(&mut defs);
    // A schema extension must come after nothing in particular, but keep the definition first so
    // that documents stay readable; type extensions are inserted at random positions.
    defs.sort_by_key(|d| matches!(d, Def::Schema(s) if s.ext));
    for e in extensions {
        let i = rng.below(defs.len() + 1);
        defs.insert(i, Def::Type(e));
    }
    doc.defs = defs;
    doc
}

pub fn replace_inner(t: &TyRef, name: &str) -> TyRef {
    match t {
        TyRef::Named(_) => TyRef::named(name),
        TyRef::List(x) => TyRef::List(Box::new(replace_inner(x, name))),
        TyRef::NonNull(x) => TyRef::NonNull(Box::new(replace_inner(x, name))),
    }
}
