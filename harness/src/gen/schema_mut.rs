//! Type-system MUTATORS (DESIGN §4 source 4): one family per rule id of `refmodel::schema_rules`.
//! A mutator takes a valid `Doc` (from `schema_gen::gen_schema`) and makes it violate exactly that
//! rule at a randomly chosen applicable site; `None` when not applicable. Most families bring
//! their own fresh constructs (names starting with `Mx`) when the document lacks what they need,
//! so coverage floors do not depend on seed luck. `NEUTRALS` are validity-preserving edits that sit
//! on the *satisfied* side of a rule boundary.
//!
//! Nothing here calls the crates under test or the reference model.

use crate::gen::model::*;
use crate::prng::Rng;

pub type MutFn = fn(&Doc, &mut Rng) -> Option<Doc>;

pub struct Mutator {
    /// rule id of `schema_rules::RULES` this mutator violates
    pub rule: &'static str,
    pub variant: &'static str,
    pub f: MutFn,
}

// ---------------------------------------------------------------------------------------------
// small constructors
// ---------------------------------------------------------------------------------------------

/// Parse a type reference such as `[Int!]!` (harness-internal, trusted input).
pub fn t(s: &str) -> TyRef {
    let s = s.trim();
    if let Some(inner) = s.strip_suffix('!') {
        return TyRef::NonNull(Box::new(t(inner)));
    }
    if let Some(inner) = s.strip_prefix('[').and_then(|x| x.strip_suffix(']')) {
        return TyRef::List(Box::new(t(inner)));
    }
    TyRef::named(s)
}

pub fn inp(name: &str, ty: &str) -> InputDef {
    InputDef {
        desc: None,
        name: name.to_string(),
        ty: t(ty),
        default: None,
        dirs: vec![],
    }
}

pub fn fld(name: &str, ty: &str) -> FieldDef {
    FieldDef {
        desc: None,
        name: name.to_string(),
        args: vec![],
        ty: t(ty),
        dirs: vec![],
    }
}

pub fn fld_args(name: &str, args: Vec<InputDef>, ty: &str) -> FieldDef {
    FieldDef {
        desc: None,
        name: name.to_string(),
        args,
        ty: t(ty),
        dirs: vec![],
    }
}

pub fn ev(name: &str) -> EnumVal {
    EnumVal {
        desc: None,
        name: name.to_string(),
        dirs: vec![],
    }
}

pub fn app(name: &str, args: Vec<(&str, Val)>) -> DirApp {
    DirApp {
        name: name.to_string(),
        args: args.into_iter().map(|(k, v)| (k.to_string(), v)).collect(),
    }
}

pub fn object(name: &str, implements: &[&str], fields: Vec<FieldDef>) -> TypeDef {
    let mut x = TypeDef::new(Kind::Object, name);
    x.implements = implements.iter().map(|s| s.to_string()).collect();
    x.fields = fields;
    x
}

pub fn interface(name: &str, implements: &[&str], fields: Vec<FieldDef>) -> TypeDef {
    let mut x = TypeDef::new(Kind::Interface, name);
    x.implements = implements.iter().map(|s| s.to_string()).collect();
    x.fields = fields;
    x
}

pub fn union(name: &str, members: &[&str]) -> TypeDef {
    let mut x = TypeDef::new(Kind::Union, name);
    x.members = members.iter().map(|s| s.to_string()).collect();
    x
}

pub fn enum_(name: &str, values: &[&str]) -> TypeDef {
    let mut x = TypeDef::new(Kind::Enum, name);
    x.values = values.iter().map(|s| ev(s)).collect();
    x
}

pub fn input(name: &str, fields: Vec<InputDef>) -> TypeDef {
    let mut x = TypeDef::new(Kind::Input, name);
    x.input_fields = fields;
    x
}

pub fn scalar(name: &str) -> TypeDef {
    TypeDef::new(Kind::Scalar, name)
}

pub fn ext(mut x: TypeDef) -> TypeDef {
    x.ext = true;
    x.desc = None;
    x
}

pub fn directive(name: &str, args: Vec<InputDef>, repeatable: bool, locations: &[&str]) -> DirectiveDef {
    DirectiveDef {
        desc: None,
        name: name.to_string(),
        args,
        repeatable,
        locations: locations.iter().map(|s| s.to_string()).collect(),
    }
}

pub const TS_LOCATIONS: &[&str] = &[
    "SCHEMA",
    "SCALAR",
    "OBJECT",
    "FIELD_DEFINITION",
    "ARGUMENT_DEFINITION",
    "INTERFACE",
    "UNION",
    "ENUM",
    "ENUM_VALUE",
    "INPUT_OBJECT",
    "INPUT_FIELD_DEFINITION",
];

fn obj_lit(fields: Vec<(&str, Val)>) -> Val {
    Val::Obj(fields.into_iter().map(|(k, v)| (k.to_string(), v)).collect())
}

// ---------------------------------------------------------------------------------------------
// document access helpers
// ---------------------------------------------------------------------------------------------

/// Insert a definition at a random position.
fn insert_at_random(doc: &mut Doc, rng: &mut Rng, d: Def) {
    let i = rng.below(doc.defs.len() + 1);
    doc.defs.insert(i, d);
}

fn add_types(doc: &mut Doc, rng: &mut Rng, types: Vec<TypeDef>) {
    for x in types {
        insert_at_random(doc, rng, Def::Type(x));
    }
}

fn type_idx(doc: &Doc, pred: impl Fn(&TypeDef) -> bool) -> Vec<usize> {
    doc.defs
        .iter()
        .enumerate()
        .filter_map(|(i, d)| match d {
            Def::Type(x) if pred(x) => Some(i),
            _ => None,
        })
        .collect()
}

fn ty_mut(doc: &mut Doc, i: usize) -> &mut TypeDef {
    match &mut doc.defs[i] {
        Def::Type(x) => x,
        _ => unreachable!("type index"),
    }
}

fn ty_ref(doc: &Doc, i: usize) -> &TypeDef {
    match &doc.defs[i] {
        Def::Type(x) => x,
        _ => unreachable!("type index"),
    }
}

fn pick_idx(rng: &mut Rng, v: &[usize]) -> Option<usize> {
    if v.is_empty() {
        None
    } else {
        Some(v[rng.below(v.len())])
    }
}

fn def_of<'a>(doc: &'a Doc, name: &str) -> Option<&'a TypeDef> {
    doc.defs.iter().find_map(|d| match d {
        Def::Type(x) if !x.ext && x.name == name => Some(x),
        _ => None,
    })
}

fn has_name(doc: &Doc, name: &str) -> bool {
    doc.defs.iter().any(|d| match d {
        Def::Type(x) => x.name == name,
        Def::Directive(x) => x.name == name,
        _ => false,
    })
}

fn schema_def_idx(doc: &Doc) -> Option<usize> {
    doc.defs.iter().position(|d| matches!(d, Def::Schema(s) if !s.ext))
}

/// Root operation types as the document declares them (explicit, else default names).
fn current_roots(doc: &Doc) -> Vec<(String, String)> {
    if schema_def_idx(doc).is_some() {
        let mut out: Vec<(String, String)> = Vec::new();
        for d in &doc.defs {
            if let Def::Schema(s) = d {
                for (op, ty) in &s.roots {
                    if !out.iter().any(|(o, _)| o == op) {
                        out.push((op.clone(), ty.clone()));
                    }
                }
            }
        }
        out
    } else {
        let mut out = Vec::new();
        for (op, n) in [("query", "Query"), ("mutation", "Mutation"), ("subscription", "Subscription")] {
            if def_of(doc, n).map(|x| x.kind) == Some(Kind::Object) {
                out.push((op.to_string(), n.to_string()));
            }
        }
        out
    }
}

/// Make the schema definition explicit (validity-preserving) and return its index.
fn make_explicit(doc: &mut Doc, rng: &mut Rng) -> usize {
    if let Some(i) = schema_def_idx(doc) {
        return i;
    }
    let roots = current_roots(doc);
    let sd = SchemaDef {
        ext: false,
        desc: None,
        dirs: vec![],
        roots,
    };
    // schema extensions (there are none without a definition in generated documents) would have
    // to stay valid wherever the definition goes
    let i = rng.below(doc.defs.len() + 1);
    doc.defs.insert(i, Def::Schema(sd));
    i
}

fn schema_mut(doc: &mut Doc, i: usize) -> &mut SchemaDef {
    match &mut doc.defs[i] {
        Def::Schema(s) => s,
        _ => unreachable!("schema index"),
    }
}


/// Object types that implement nothing and are not implemented (safe hosts for field edits).
fn plain_objects(doc: &Doc) -> Vec<usize> {
    type_idx(doc, |x| {
        x.kind == Kind::Object && !x.ext && !x.fields.is_empty() && {
            let n = &x.name;
            !doc.defs.iter().any(|d| matches!(d, Def::Type(y) if y.name == *n && !y.implements.is_empty()))
        }
    })
}

fn names_of_kind(doc: &Doc, k: Kind) -> Vec<String> {
    doc.defs
        .iter()
        .filter_map(|d| match d {
            Def::Type(x) if !x.ext && x.kind == k => Some(x.name.clone()),
            _ => None,
        })
        .collect()
}

// ---------------------------------------------------------------------------------------------
// directive application sites
// ---------------------------------------------------------------------------------------------

#[derive(Clone, Debug)]
pub enum Site {
    Type(usize),
    Field(usize, usize),
    FieldArg(usize, usize, usize),
    EnumVal(usize, usize),
    InputField(usize, usize),
    DirArg(usize, usize),
    Schema(usize),
}

pub fn sites(doc: &Doc) -> Vec<Site> {
    let mut out = Vec::new();
    for (i, d) in doc.defs.iter().enumerate() {
        match d {
            Def::Type(x) => {
                // fresh `Mx` constructs are never hosts: they are referenced by fresh directives
                if x.name.starts_with("Mx") {
                    continue;
                }
                out.push(Site::Type(i));
                for (fi, f) in x.fields.iter().enumerate() {
                    out.push(Site::Field(i, fi));
                    for ai in 0..f.args.len() {
                        out.push(Site::FieldArg(i, fi, ai));
                    }
                }
                for vi in 0..x.values.len() {
                    out.push(Site::EnumVal(i, vi));
                }
                for ii in 0..x.input_fields.len() {
                    out.push(Site::InputField(i, ii));
                }
            }
            Def::Directive(dd) => {
                if dd.name.starts_with("mx") {
                    continue;
                }
                for ai in 0..dd.args.len() {
                    out.push(Site::DirArg(i, ai));
                }
            }
            Def::Schema(s) => {
                if !s.ext {
                    out.push(Site::Schema(i));
                }
            }
            _ => {}
        }
    }
    out
}

pub fn site_location(doc: &Doc, s: &Site) -> &'static str {
    match s {
        Site::Type(i) => ty_ref(doc, *i).kind.location(),
        Site::Field(..) => "FIELD_DEFINITION",
        Site::FieldArg(..) | Site::DirArg(..) => "ARGUMENT_DEFINITION",
        Site::EnumVal(..) => "ENUM_VALUE",
        Site::InputField(..) => "INPUT_FIELD_DEFINITION",
        Site::Schema(_) => "SCHEMA",
    }
}

pub fn site_dirs_mut<'a>(doc: &'a mut Doc, s: &Site) -> &'a mut Vec<DirApp> {
    match s {
        Site::Type(i) => &mut ty_mut(doc, *i).dirs,
        Site::Field(i, f) => &mut ty_mut(doc, *i).fields[*f].dirs,
        Site::FieldArg(i, f, a) => &mut ty_mut(doc, *i).fields[*f].args[*a].dirs,
        Site::EnumVal(i, v) => &mut ty_mut(doc, *i).values[*v].dirs,
        Site::InputField(i, f) => &mut ty_mut(doc, *i).input_fields[*f].dirs,
        Site::DirArg(i, a) => match &mut doc.defs[*i] {
            Def::Directive(dd) => &mut dd.args[*a].dirs,
            _ => unreachable!("directive index"),
        },
        Site::Schema(i) => &mut schema_mut(doc, *i).dirs,
    }
}

/// Apply `apps` at one random site of the original document. Returns the location used.
fn apply_at_random_site(doc: &mut Doc, rng: &mut Rng, apps: Vec<DirApp>) -> Option<&'static str> {
    let all = sites(doc);
    if all.is_empty() {
        return None;
    }
    let s = all[rng.below(all.len())].clone();
    let loc = site_location(doc, &s);
    site_dirs_mut(doc, &s).extend(apps);
    Some(loc)
}

/// Apply at a random site whose location is in `locs`.
fn apply_at_site_in(doc: &mut Doc, rng: &mut Rng, locs: &[&str], apps: Vec<DirApp>) -> Option<&'static str> {
    let all: Vec<Site> = sites(doc).into_iter().filter(|s| locs.contains(&site_location(doc, s))).collect();
    if all.is_empty() {
        return None;
    }
    let s = all[rng.below(all.len())].clone();
    let loc = site_location(doc, &s);
    site_dirs_mut(doc, &s).extend(apps);
    Some(loc)
}

fn add_directive(doc: &mut Doc, rng: &mut Rng, d: DirectiveDef) {
    insert_at_random(doc, rng, Def::Directive(d));
}

// ---------------------------------------------------------------------------------------------
// 3.3 Schema
// ---------------------------------------------------------------------------------------------

fn m_query_root(doc: &Doc, rng: &mut Rng) -> Option<Doc> {
    let mut d = doc.clone();
    if let Some(i) = schema_def_idx(&d) {
        // the query root is always in the definition in generated documents
        let s = schema_mut(&mut d, i);
        let pos = s.roots.iter().position(|(op, _)| op == "query")?;
        let has_other = s.roots.len() > 1;
        if has_other && rng.bool() {
            s.roots.remove(pos);
        } else {
            // keep the braces non-empty: turn `query: Q` into an operation that is not yet there
            let all: Vec<&str> = d
                .defs
                .iter()
                .filter_map(|x| match x {
                    Def::Schema(s) => Some(s.roots.iter().map(|(o, _)| o.as_str()).collect::<Vec<_>>()),
                    _ => None,
                })
                .flatten()
                .collect();
            let free = ["mutation", "subscription"].into_iter().find(|o| !all.contains(o))?.to_string();
            schema_mut(&mut d, i).roots[pos].0 = free;
        }
    } else {
        // implicit schema: the type called `Query` gets another name
        if has_name(&d, "MxNotQuery") {
            return None;
        }
        let mut any = false;
        for x in d.defs.iter_mut() {
            if let Def::Type(x) = x {
                if x.name == "Query" {
                    x.name = "MxNotQuery".into();
                    any = true;
                }
            }
        }
        if !any {
            return None;
        }
    }
    Some(d)
}

fn m_root_types_object(doc: &Doc, rng: &mut Rng) -> Option<Doc> {
    let mut d = doc.clone();
    let i = make_explicit(&mut d, rng);
    let kinds = [Kind::Enum, Kind::Interface, Kind::Union, Kind::Input, Kind::Scalar];
    let k = kinds[rng.below(kinds.len())];
    let cands = names_of_kind(&d, k);
    let target = if cands.is_empty() {
        let x = match k {
            Kind::Interface => interface("MxRootI", &[], vec![fld("a", "Int")]),
            Kind::Union => {
                add_types(&mut d, rng, vec![object("MxRootUO", &[], vec![fld("a", "Int")])]);
                union("MxRootU", &["MxRootUO"])
            }
            Kind::Scalar => scalar("MxRootS"),
            Kind::Input => input("MxRootIn", vec![inp("a", "Int")]),
            _ => enum_("MxRootE", &["A"]),
        };
        let n = x.name.clone();
        add_types(&mut d, rng, vec![x]);
        n
    } else {
        cands[rng.below(cands.len())].clone()
    };
    let i = schema_def_idx(&d).unwrap_or(i);
    let s = schema_mut(&mut d, i);
    let has = |s: &SchemaDef, op: &str| s.roots.iter().any(|(o, _)| o == op);
    match rng.below(3) {
        0 => {
            let p = s.roots.iter().position(|(o, _)| o == "query")?;
            s.roots[p].1 = target;
        }
        n => {
            let op = if n == 1 { "mutation" } else { "subscription" };
            let everywhere: bool = doc.defs.iter().any(|x| matches!(x, Def::Schema(e) if e.ext && has(e, op)));
            if everywhere {
                return None;
            }
            if let Some(p) = s.roots.iter().position(|(o, _)| o == op) {
                s.roots[p].1 = target;
            } else {
                s.roots.push((op.to_string(), target));
            }
        }
    }
    Some(d)
}

fn m_root_types_distinct(doc: &Doc, rng: &mut Rng) -> Option<Doc> {
    let mut d = doc.clone();
    let i = make_explicit(&mut d, rng);
    let roots = current_roots(&d);
    let q = roots.iter().find(|(o, _)| o == "query")?.1.clone();
    // an operation declared in an extension cannot be redirected from the definition
    let in_ext = |op: &str| doc.defs.iter().any(|x| matches!(x, Def::Schema(e) if e.ext && e.roots.iter().any(|(o, _)| o == op)));
    let op = if rng.bool() { "mutation" } else { "subscription" };
    if in_ext(op) {
        return None;
    }
    let s = schema_mut(&mut d, i);
    if let Some(p) = s.roots.iter().position(|(o, _)| o == op) {
        s.roots[p].1 = q;
    } else {
        s.roots.push((op.to_string(), q));
    }
    Some(d)
}

fn m_one_schema_definition(doc: &Doc, rng: &mut Rng) -> Option<Doc> {
    let mut d = doc.clone();
    let i = make_explicit(&mut d, rng);
    let mut copy = match &d.defs[i] {
        Def::Schema(s) => s.clone(),
        _ => return None,
    };
    copy.dirs.clear();
    copy.desc = None;
    insert_at_random(&mut d, rng, Def::Schema(copy));
    Some(d)
}

fn m_unique_operation_types(doc: &Doc, rng: &mut Rng) -> Option<Doc> {
    let mut d = doc.clone();
    let i = make_explicit(&mut d, rng);
    let roots = current_roots(&d);
    if roots.is_empty() {
        return None;
    }
    let (op, ty) = roots[rng.below(roots.len())].clone();
    if rng.bool() {
        let declared_here = schema_mut(&mut d, i).roots.iter().any(|(o, _)| *o == op);
        if !declared_here {
            return None;
        }
        schema_mut(&mut d, i).roots.push((op, ty));
    } else {
        // extensions come after the definition in generated documents; keep that
        d.defs.push(Def::Schema(SchemaDef {
            ext: true,
            desc: None,
            dirs: vec![],
            roots: vec![(op, ty)],
        }));
    }
    Some(d)
}

// ---------------------------------------------------------------------------------------------
// names of types and directives, extensions
// ---------------------------------------------------------------------------------------------

fn m_unique_type_names_same(doc: &Doc, rng: &mut Rng) -> Option<Doc> {
    let mut d = doc.clone();
    let i = pick_idx(rng, &type_idx(&d, |x| !x.ext))?;
    let mut copy = ty_ref(&d, i).clone();
    copy.dirs.clear();
    insert_at_random(&mut d, rng, Def::Type(copy));
    Some(d)
}

fn m_unique_type_names_other_kind(doc: &Doc, rng: &mut Rng) -> Option<Doc> {
    let mut d = doc.clone();
    let i = pick_idx(rng, &type_idx(&d, |x| !x.ext && x.kind != Kind::Scalar))?;
    let name = ty_ref(&d, i).name.clone();
    // after the original, so that the original stays the definition in force
    let pos = i + 1 + rng.below(d.defs.len() - i);
    d.defs.insert(pos, Def::Type(scalar(&name)));
    Some(d)
}

fn m_builtin_scalar_redefined(doc: &Doc, rng: &mut Rng) -> Option<Doc> {
    let mut d = doc.clone();
    let n = rng.pick_str(BUILTIN_SCALARS);
    let x = match rng.below(4) {
        0 => enum_(n, &["A"]),
        1 => object(n, &[], vec![fld("a", "Boolean")]),
        _ => scalar(n),
    };
    insert_at_random(&mut d, rng, Def::Type(x));
    Some(d)
}

fn m_unique_directive_names_custom(doc: &Doc, rng: &mut Rng) -> Option<Doc> {
    let mut d = doc.clone();
    let idx: Vec<usize> = d.defs.iter().enumerate().filter(|(_, x)| matches!(x, Def::Directive(_))).map(|(i, _)| i).collect();
    if let Some(i) = pick_idx(rng, &idx) {
        let copy = d.defs[i].clone();
        insert_at_random(&mut d, rng, copy);
    } else {
        for _ in 0..2 {
            add_directive(&mut d, rng, directive("mxdup", vec![], false, &["FIELD"]));
        }
    }
    Some(d)
}

fn builtin_redefinition(name: &str) -> DirectiveDef {
    builtin_directive_defs().into_iter().find(|d| d.name == name).expect("built-in")
}

fn m_unique_directive_names_builtin_twice(doc: &Doc, rng: &mut Rng) -> Option<Doc> {
    let mut d = doc.clone();
    let n = rng.pick_str(&["skip", "include", "deprecated", "specifiedBy"]);
    if has_name(&d, n) {
        return None;
    }
    for _ in 0..2 {
        add_directive(&mut d, rng, builtin_redefinition(n));
    }
    Some(d)
}

fn fresh_ext_of_kind(k: Kind, name: &str, obj_name: &str) -> TypeDef {
    ext(match k {
        Kind::Object => object(name, &[], vec![fld("mxExtField", "Int")]),
        Kind::Interface => interface(name, &[], vec![fld("mxExtField", "Int")]),
        Kind::Union => union(name, &[obj_name]),
        Kind::Enum => enum_(name, &["MX_EXT_VALUE"]),
        Kind::Input => input(name, vec![inp("mxExtField", "Int")]),
        Kind::Scalar => {
            let mut s = scalar(name);
            s.dirs.push(app("specifiedBy", vec![("url", Val::Str("https://example.com/x".into()))]));
            s
        }
    })
}

const ALL_KINDS: &[Kind] = &[Kind::Object, Kind::Interface, Kind::Union, Kind::Enum, Kind::Input, Kind::Scalar];

fn some_object_name(doc: &Doc) -> Option<String> {
    let o = names_of_kind(doc, Kind::Object);
    o.first().cloned()
}

fn m_extension_orphan(doc: &Doc, rng: &mut Rng) -> Option<Doc> {
    let mut d = doc.clone();
    let k = ALL_KINDS[rng.below(ALL_KINDS.len())];
    let o = some_object_name(&d)?;
    insert_at_random(&mut d, rng, Def::Type(fresh_ext_of_kind(k, "MxUndefinedTarget", &o)));
    Some(d)
}

fn m_extension_kind_mismatch(doc: &Doc, rng: &mut Rng, before: bool) -> Option<Doc> {
    let mut d = doc.clone();
    let i = pick_idx(rng, &type_idx(&d, |x| !x.ext))?;
    let (name, kind) = {
        let x = ty_ref(&d, i);
        (x.name.clone(), x.kind)
    };
    let others: Vec<Kind> = ALL_KINDS.iter().copied().filter(|k| *k != kind).collect();
    let k = others[rng.below(others.len())];
    let o = names_of_kind(&d, Kind::Object).into_iter().find(|n| *n != name)?;
    let e = fresh_ext_of_kind(k, &name, &o);
    let pos = if before { rng.below(i + 1) } else { i + 1 + rng.below(d.defs.len() - i) };
    d.defs.insert(pos, Def::Type(e));
    Some(d)
}

fn m_extension_kind_mismatch_before(doc: &Doc, rng: &mut Rng) -> Option<Doc> {
    m_extension_kind_mismatch(doc, rng, true)
}
fn m_extension_kind_mismatch_after(doc: &Doc, rng: &mut Rng) -> Option<Doc> {
    m_extension_kind_mismatch(doc, rng, false)
}

/// Duplicate one member of a list either inside the same part or through a new extension.
fn dup_member(
    doc: &Doc,
    rng: &mut Rng,
    kind_ok: impl Fn(&TypeDef) -> bool,
    len: impl Fn(&TypeDef) -> usize,
    dup_within: impl Fn(&mut TypeDef, usize),
    ext_with: impl Fn(&TypeDef, usize) -> TypeDef,
) -> Option<Doc> {
    let mut d = doc.clone();
    let i = pick_idx(rng, &type_idx(&d, |x| kind_ok(x) && len(x) > 0))?;
    let k = rng.below(len(ty_ref(&d, i)));
    if rng.bool() {
        dup_within(ty_mut(&mut d, i), k);
    } else {
        let e = ext_with(ty_ref(&d, i), k);
        insert_at_random(&mut d, rng, Def::Type(e));
    }
    Some(d)
}

fn bare_ext(x: &TypeDef) -> TypeDef {
    let mut e = TypeDef::new(x.kind, &x.name);
    e.ext = true;
    e
}

fn m_unique_field_names(doc: &Doc, rng: &mut Rng) -> Option<Doc> {
    dup_member(
        doc,
        rng,
        |x| matches!(x.kind, Kind::Object | Kind::Interface),
        |x| x.fields.len(),
        |x, k| {
            let f = x.fields[k].clone();
            x.fields.push(f);
        },
        |x, k| {
            let mut e = bare_ext(x);
            e.fields.push(x.fields[k].clone());
            e
        },
    )
}

fn m_unique_enum_values(doc: &Doc, rng: &mut Rng) -> Option<Doc> {
    dup_member(
        doc,
        rng,
        |x| x.kind == Kind::Enum,
        |x| x.values.len(),
        |x, k| {
            let f = ev(&x.values[k].name);
            x.values.push(f);
        },
        |x, k| {
            let mut e = bare_ext(x);
            e.values.push(ev(&x.values[k].name));
            e
        },
    )
}

fn m_unique_input_fields(doc: &Doc, rng: &mut Rng) -> Option<Doc> {
    dup_member(
        doc,
        rng,
        |x| x.kind == Kind::Input,
        |x| x.input_fields.len(),
        |x, k| {
            let f = x.input_fields[k].clone();
            x.input_fields.push(f);
        },
        |x, k| {
            let mut e = bare_ext(x);
            e.input_fields.push(x.input_fields[k].clone());
            e
        },
    )
}

fn ensure_union(d: &mut Doc, rng: &mut Rng) -> Option<()> {
    if names_of_kind(d, Kind::Union).is_empty() {
        let o = some_object_name(d)?;
        add_types(d, rng, vec![union("MxU", &[&o])]);
    }
    Some(())
}

fn m_unique_union_members(doc: &Doc, rng: &mut Rng) -> Option<Doc> {
    let mut base = doc.clone();
    ensure_union(&mut base, rng)?;
    dup_member(
        &base,
        rng,
        |x| x.kind == Kind::Union,
        |x| x.members.len(),
        |x, k| {
            let f = x.members[k].clone();
            x.members.push(f);
        },
        |x, k| {
            let mut e = bare_ext(x);
            e.members.push(x.members[k].clone());
            e
        },
    )
}

fn ensure_implementer(d: &mut Doc, rng: &mut Rng) {
    let any = d.defs.iter().any(|x| matches!(x, Def::Type(y) if !y.implements.is_empty()));
    if !any {
        add_types(
            d,
            rng,
            vec![
                interface("MxI", &[], vec![fld_args("mxf", vec![inp("x", "Int")], "Int")]),
                object("MxO", &["MxI"], vec![fld_args("mxf", vec![inp("x", "Int")], "Int"), fld("own", "String")]),
            ],
        );
    }
}

fn m_unique_implements(doc: &Doc, rng: &mut Rng) -> Option<Doc> {
    let mut base = doc.clone();
    ensure_implementer(&mut base, rng);
    dup_member(
        &base,
        rng,
        |x| matches!(x.kind, Kind::Object | Kind::Interface),
        |x| x.implements.len(),
        |x, k| {
            let f = x.implements[k].clone();
            x.implements.push(f);
        },
        |x, k| {
            let mut e = bare_ext(x);
            e.implements.push(x.implements[k].clone());
            e
        },
    )
}

fn m_unique_argument_names_field(doc: &Doc, rng: &mut Rng) -> Option<Doc> {
    let mut d = doc.clone();
    let i = pick_idx(rng, &plain_objects(&d))?;
    let x = ty_mut(&mut d, i);
    let k = rng.below(x.fields.len());
    let f = &mut x.fields[k];
    if f.args.is_empty() {
        f.args.push(inp("mxa", "Int"));
    }
    let a = f.args[rng.below(f.args.len())].clone();
    f.args.push(a);
    Some(d)
}

fn m_unique_argument_names_directive(doc: &Doc, rng: &mut Rng) -> Option<Doc> {
    let mut d = doc.clone();
    add_directive(&mut d, rng, directive("mxdupargs", vec![inp("a", "Int"), inp("b", "String"), inp("a", "Int")], false, &["FIELD", "OBJECT"]));
    Some(d)
}

// ---------------------------------------------------------------------------------------------
// type references
// ---------------------------------------------------------------------------------------------

use crate::gen::schema_gen::replace_inner;

/// (definition index, field index) of fields that neither implement nor are implemented.
fn free_fields(doc: &Doc) -> Vec<(usize, usize)> {
    let mut out = Vec::new();
    for i in plain_objects(doc) {
        for k in 0..ty_ref(doc, i).fields.len() {
            out.push((i, k));
        }
    }
    out
}

fn pick_pair(rng: &mut Rng, v: &[(usize, usize)]) -> Option<(usize, usize)> {
    if v.is_empty() {
        None
    } else {
        Some(v[rng.below(v.len())])
    }
}

/// Replace the named type at one reference site of the given class by `name`. Input value sites
/// lose their default value (it was written for the old type; defaults are a don't-care anyway).
fn retarget(doc: &Doc, rng: &mut Rng, class: &str, name: &str) -> Option<Doc> {
    let mut d = doc.clone();
    match class {
        "field" => {
            let (i, k) = pick_pair(rng, &free_fields(&d))?;
            let f = &mut ty_mut(&mut d, i).fields[k];
            f.ty = replace_inner(&f.ty, name);
        }
        "field-argument" => {
            let mut c = Vec::new();
            for (i, k) in free_fields(&d) {
                for a in 0..ty_ref(&d, i).fields[k].args.len() {
                    c.push((i, k, a));
                }
            }
            if c.is_empty() {
                let (i, k) = pick_pair(rng, &free_fields(&d))?;
                ty_mut(&mut d, i).fields[k].args.push(inp("mxa", name));
            } else {
                let (i, k, a) = c[rng.below(c.len())];
                let x = &mut ty_mut(&mut d, i).fields[k].args[a];
                x.ty = replace_inner(&x.ty, name);
                x.default = None;
            }
        }
        "input-field" => {
            // a new optional field keeps every existing literal of that input object valid
            let i = pick_idx(rng, &type_idx(&d, |x| x.kind == Kind::Input))?;
            let wrapped = rng.pick_str(&["{}", "[{}]", "[{}!]"]).replace("{}", name);
            ty_mut(&mut d, i).input_fields.push(inp("mxRetargeted", &wrapped));
        }
        "directive-argument" => {
            add_directive(&mut d, rng, directive("mxretarget", vec![inp("a", name)], false, &["FIELD"]));
        }
        _ => return None,
    }
    Some(d)
}

fn m_known_types_field(doc: &Doc, rng: &mut Rng) -> Option<Doc> {
    retarget(doc, rng, "field", "MxUndefined")
}
fn m_known_types_field_argument(doc: &Doc, rng: &mut Rng) -> Option<Doc> {
    retarget(doc, rng, "field-argument", "MxUndefined")
}
fn m_known_types_input_field(doc: &Doc, rng: &mut Rng) -> Option<Doc> {
    retarget(doc, rng, "input-field", "MxUndefined")
}
fn m_known_types_directive_argument(doc: &Doc, rng: &mut Rng) -> Option<Doc> {
    retarget(doc, rng, "directive-argument", "MxUndefined")
}
fn m_known_types_union_member(doc: &Doc, rng: &mut Rng) -> Option<Doc> {
    let mut d = doc.clone();
    ensure_union(&mut d, rng)?;
    let i = pick_idx(rng, &type_idx(&d, |x| x.kind == Kind::Union))?;
    ty_mut(&mut d, i).members.push("MxUndefined".into());
    Some(d)
}
fn m_known_types_implements(doc: &Doc, rng: &mut Rng) -> Option<Doc> {
    let mut d = doc.clone();
    if rng.chance(1, 3) {
        add_types(&mut d, rng, vec![interface("MxKindI", &[], vec![fld("a", "Int")])]);
    }
    let i = pick_idx(rng, &type_idx(&d, |x| x.kind == Kind::Object || x.name == "MxKindI"))?;
    ty_mut(&mut d, i).implements.push("MxUndefined".into());
    Some(d)
}
fn m_known_types_root(doc: &Doc, rng: &mut Rng) -> Option<Doc> {
    let mut d = doc.clone();
    let i = make_explicit(&mut d, rng);
    let s = schema_mut(&mut d, i);
    if s.roots.is_empty() {
        return None;
    }
    let k = rng.below(s.roots.len());
    s.roots[k].1 = "MxUndefined".into();
    Some(d)
}

fn m_output_types(doc: &Doc, rng: &mut Rng) -> Option<Doc> {
    let ins = names_of_kind(doc, Kind::Input);
    if ins.is_empty() {
        return None;
    }
    let n = ins[rng.below(ins.len())].clone();
    retarget(doc, rng, "field", &n)
}

fn non_input_name(doc: &Doc, rng: &mut Rng) -> Option<String> {
    let mut c = names_of_kind(doc, Kind::Object);
    c.extend(names_of_kind(doc, Kind::Interface));
    c.extend(names_of_kind(doc, Kind::Union));
    if c.is_empty() {
        None
    } else {
        Some(c[rng.below(c.len())].clone())
    }
}

fn m_input_types_field_argument(doc: &Doc, rng: &mut Rng) -> Option<Doc> {
    let n = non_input_name(doc, rng)?;
    retarget(doc, rng, "field-argument", &n)
}
fn m_input_types_input_field(doc: &Doc, rng: &mut Rng) -> Option<Doc> {
    let n = non_input_name(doc, rng)?;
    // a fresh host: an existing input object may be the argument type of a directive that the
    // non-input type applies (that would add a directive-definition cycle)
    let mut d = doc.clone();
    let wrapped = rng.pick_str(&["{}", "[{}]", "{}!", "[{}!]!"]).replace("{}", &n);
    add_types(&mut d, rng, vec![input("MxHostIn", vec![inp("ok", "Int"), inp("bad", &wrapped)])]);
    Some(d)
}
fn m_input_types_directive_argument(doc: &Doc, rng: &mut Rng) -> Option<Doc> {
    let n = non_input_name(doc, rng)?;
    retarget(doc, rng, "directive-argument", &n)
}

// ---------------------------------------------------------------------------------------------
// non-empty
// ---------------------------------------------------------------------------------------------

fn m_non_empty_fields(doc: &Doc, rng: &mut Rng) -> Option<Doc> {
    let mut d = doc.clone();
    let x = if rng.bool() { object("MxEmpty", &[], vec![]) } else { interface("MxEmpty", &[], vec![]) };
    insert_at_random(&mut d, rng, Def::Type(x));
    Some(d)
}
fn m_non_empty_enum_values(doc: &Doc, rng: &mut Rng) -> Option<Doc> {
    let mut d = doc.clone();
    insert_at_random(&mut d, rng, Def::Type(enum_("MxEmpty", &[])));
    Some(d)
}
fn m_non_empty_union_members(doc: &Doc, rng: &mut Rng) -> Option<Doc> {
    let mut d = doc.clone();
    insert_at_random(&mut d, rng, Def::Type(union("MxEmpty", &[])));
    Some(d)
}
fn m_non_empty_input_fields(doc: &Doc, rng: &mut Rng) -> Option<Doc> {
    let mut d = doc.clone();
    insert_at_random(&mut d, rng, Def::Type(input("MxEmpty", vec![])));
    Some(d)
}

// ---------------------------------------------------------------------------------------------
// interfaces
// ---------------------------------------------------------------------------------------------

fn m_implements_interface_kind(doc: &Doc, rng: &mut Rng) -> Option<Doc> {
    let mut d = doc.clone();
    if rng.chance(1, 3) {
        add_types(&mut d, rng, vec![interface("MxKindI", &[], vec![fld("a", "Int")])]);
    }
    let i = pick_idx(rng, &type_idx(&d, |x| (x.kind == Kind::Object || x.name == "MxKindI") && !x.ext))?;
    let me = ty_ref(&d, i).name.clone();
    let mut c: Vec<String> = Vec::new();
    for k in [Kind::Object, Kind::Union, Kind::Enum, Kind::Input, Kind::Scalar] {
        c.extend(names_of_kind(&d, k));
    }
    c.retain(|n| *n != me);
    c.push("String".into());
    let target = c[rng.below(c.len())].clone();
    ty_mut(&mut d, i).implements.push(target);
    Some(d)
}

fn m_no_self_implementation(doc: &Doc, rng: &mut Rng) -> Option<Doc> {
    let mut d = doc.clone();
    if names_of_kind(&d, Kind::Interface).is_empty() {
        add_types(&mut d, rng, vec![interface("MxSelf", &[], vec![fld("a", "Int")])]);
    }
    let i = pick_idx(rng, &type_idx(&d, |x| x.kind == Kind::Interface && !x.ext))?;
    let me = ty_ref(&d, i).name.clone();
    if rng.bool() {
        ty_mut(&mut d, i).implements.push(me);
    } else {
        let mut e = bare_ext(ty_ref(&d, i));
        e.implements.push(me);
        insert_at_random(&mut d, rng, Def::Type(e));
    }
    Some(d)
}

fn m_transitive_interfaces(doc: &Doc, rng: &mut Rng) -> Option<Doc> {
    let mut d = doc.clone();
    // in place: an implementer of an interface that itself implements something forgets one
    let mut cands: Vec<(usize, usize)> = Vec::new();
    for i in type_idx(&d, |x| !x.implements.is_empty()) {
        let x = ty_ref(&d, i);
        for (k, n) in x.implements.iter().enumerate() {
            let needed_by_other = x.implements.iter().any(|m| {
                m != n && def_of(&d, m).map(|mi| mi.implements.contains(n)).unwrap_or(false)
            });
            if needed_by_other {
                cands.push((i, k));
            }
        }
    }
    if !cands.is_empty() && rng.bool() {
        let (i, k) = cands[rng.below(cands.len())];
        ty_mut(&mut d, i).implements.remove(k);
        return Some(d);
    }
    let leaf = if rng.bool() {
        object("MxT", &["MxB"], vec![fld("a", "Int")])
    } else {
        interface("MxT", &["MxB"], vec![fld("a", "Int")])
    };
    add_types(
        &mut d,
        rng,
        vec![interface("MxA", &[], vec![fld("a", "Int")]), interface("MxB", &["MxA"], vec![fld("a", "Int")]), leaf],
    );
    Some(d)
}

/// (implementer def index, field index, interface field) for fields an implementer inherits.
fn inherited_fields(doc: &Doc) -> Vec<(usize, usize, FieldDef)> {
    let mut out = Vec::new();
    // objects only: nobody implements an object, so an edit stays a violation of one rule
    for i in type_idx(doc, |x| x.kind == Kind::Object) {
        let x = ty_ref(doc, i);
        // interfaces declared anywhere for that name
        let mut ifaces: Vec<String> = Vec::new();
        for d in &doc.defs {
            if let Def::Type(y) = d {
                if y.name == x.name {
                    ifaces.extend(y.implements.iter().cloned());
                }
            }
        }
        for (k, f) in x.fields.iter().enumerate() {
            for iname in &ifaces {
                for d in &doc.defs {
                    if let Def::Type(y) = d {
                        if y.name == *iname && y.kind == Kind::Interface {
                            if let Some(g) = y.fields.iter().find(|g| g.name == f.name) {
                                out.push((i, k, g.clone()));
                            }
                        }
                    }
                }
            }
        }
    }
    out
}

fn with_fresh_pair(doc: &Doc, rng: &mut Rng, ifield: FieldDef, mine: Option<FieldDef>) -> Doc {
    let mut d = doc.clone();
    let mut fields = vec![fld("mxOwn", "String")];
    if let Some(m) = mine {
        fields.push(m);
    }
    let leaf = if rng.bool() { object("MxImpl", &["MxIface"], fields) } else { interface("MxImpl", &["MxIface"], fields) };
    add_types(&mut d, rng, vec![interface("MxIface", &[], vec![ifield]), leaf]);
    d
}

fn m_interface_fields_present(doc: &Doc, rng: &mut Rng) -> Option<Doc> {
    let inh = inherited_fields(doc);
    if !inh.is_empty() && rng.chance(2, 3) {
        let mut d = doc.clone();
        let (i, k, _) = inh[rng.below(inh.len())].clone();
        let x = ty_mut(&mut d, i);
        if x.fields.len() < 2 {
            return None;
        }
        x.fields.remove(k);
        return Some(d);
    }
    Some(with_fresh_pair(doc, rng, fld("mxf", "Int"), None))
}

fn m_interface_field_type_covariant(doc: &Doc, rng: &mut Rng) -> Option<Doc> {
    let inh = inherited_fields(doc);
    if !inh.is_empty() && rng.chance(2, 3) {
        let mut d = doc.clone();
        let (i, k, g) = inh[rng.below(inh.len())].clone();
        let f = &mut ty_mut(&mut d, i).fields[k];
        match rng.below(3) {
            0 => f.ty = g.ty.clone().list(),
            1 => {
                if !g.ty.is_non_null() {
                    // the interface field is nullable: an unrelated named type instead
                    let other = if g.ty.inner_name() == "String" { "Int" } else { "String" };
                    f.ty = replace_inner(&g.ty, other);
                } else {
                    f.ty = g.ty.nullable();
                }
            }
            _ => {
                let other = if g.ty.inner_name() == "Boolean" { "ID" } else { "Boolean" };
                f.ty = replace_inner(&g.ty, other);
            }
        }
        return Some(d);
    }
    let (it, mine) = *rng.pick(&[
        ("Int!", "Int"),
        ("[Int]", "Int"),
        ("Int", "[Int]"),
        ("[Int!]", "[Int]"),
        ("[[Int]]", "[Int]"),
        ("Int", "String"),
        ("MxIface", "MxOther"),
        ("[MxIface!]!", "[MxIface]!"),
        ("MxImpl", "MxIface"),
        ("ID", "String!"),
    ]);
    let mut d = with_fresh_pair(doc, rng, fld("mxf", it), Some(fld("mxf", mine)));
    add_types(&mut d, rng, vec![object("MxOther", &[], vec![fld("a", "Int")])]);
    Some(d)
}

fn m_interface_args_present(doc: &Doc, rng: &mut Rng) -> Option<Doc> {
    let inh: Vec<_> = inherited_fields(doc).into_iter().filter(|(_, _, g)| !g.args.is_empty()).collect();
    if !inh.is_empty() && rng.chance(2, 3) {
        let mut d = doc.clone();
        let (i, k, g) = inh[rng.below(inh.len())].clone();
        let name = g.args[rng.below(g.args.len())].name.clone();
        ty_mut(&mut d, i).fields[k].args.retain(|a| a.name != name);
        return Some(d);
    }
    Some(with_fresh_pair(
        doc,
        rng,
        fld_args("mxf", vec![inp("x", "Int"), inp("y", "String")], "Int"),
        Some(fld_args("mxf", vec![inp("y", "String")], "Int")),
    ))
}

fn m_interface_arg_type_equal(doc: &Doc, rng: &mut Rng) -> Option<Doc> {
    let inh: Vec<_> = inherited_fields(doc).into_iter().filter(|(_, _, g)| !g.args.is_empty()).collect();
    if !inh.is_empty() && rng.chance(2, 3) {
        let mut d = doc.clone();
        let (i, k, g) = inh[rng.below(inh.len())].clone();
        let ga = g.args[rng.below(g.args.len())].clone();
        let f = &mut ty_mut(&mut d, i).fields[k];
        let a = f.args.iter_mut().find(|a| a.name == ga.name)?;
        a.ty = match rng.below(3) {
            0 => {
                if ga.ty.is_non_null() {
                    ga.ty.nullable()
                } else {
                    ga.ty.clone().non_null()
                }
            }
            1 => ga.ty.clone().list(),
            _ => replace_inner(&ga.ty, if ga.ty.inner_name() == "String" { "Int" } else { "String" }),
        };
        a.default = None;
        a.dirs.retain(|x| x.name != "deprecated");
        return Some(d);
    }
    let (it, mine) = *rng.pick(&[("Int", "Int!"), ("Int!", "Int"), ("Int", "[Int]"), ("[Int]", "[Int!]"), ("Int", "Float"), ("ID", "String")]);
    Some(with_fresh_pair(
        doc,
        rng,
        fld_args("mxf", vec![inp("x", it)], "Int"),
        Some(fld_args("mxf", vec![inp("x", mine)], "Int")),
    ))
}

fn m_extra_args_optional(doc: &Doc, rng: &mut Rng) -> Option<Doc> {
    let inh = inherited_fields(doc);
    let ty = rng.pick_str(&["Int!", "[Int]!", "String!", "[ID!]!"]);
    if !inh.is_empty() && rng.chance(2, 3) {
        let mut d = doc.clone();
        let (i, k, _) = inh[rng.below(inh.len())].clone();
        ty_mut(&mut d, i).fields[k].args.push(inp("mxRequiredExtra", ty));
        return Some(d);
    }
    Some(with_fresh_pair(
        doc,
        rng,
        fld_args("mxf", vec![inp("x", "Int")], "Int"),
        Some(fld_args("mxf", vec![inp("x", "Int"), inp("mxRequiredExtra", ty)], "Int")),
    ))
}

// ---------------------------------------------------------------------------------------------
// unions, input objects
// ---------------------------------------------------------------------------------------------

fn m_union_members_object(doc: &Doc, rng: &mut Rng) -> Option<Doc> {
    let mut d = doc.clone();
    ensure_union(&mut d, rng)?;
    let i = pick_idx(rng, &type_idx(&d, |x| x.kind == Kind::Union))?;
    let mut c: Vec<String> = Vec::new();
    for k in [Kind::Interface, Kind::Union, Kind::Enum, Kind::Input, Kind::Scalar] {
        c.extend(names_of_kind(&d, k));
    }
    c.push("Int".into());
    let x = ty_mut(&mut d, i);
    c.retain(|n| !x.members.contains(n));
    let target = c[rng.below(c.len())].clone();
    x.members.push(target);
    Some(d)
}

fn m_input_object_cycles(doc: &Doc, rng: &mut Rng) -> Option<Doc> {
    let mut d = doc.clone();
    match rng.below(5) {
        0 => add_types(&mut d, rng, vec![input("MxCa", vec![inp("self", "MxCa!"), inp("n", "Int")])]),
        1 => add_types(
            &mut d,
            rng,
            vec![input("MxCa", vec![inp("b", "MxCb!")]), input("MxCb", vec![inp("x", "[MxCa]"), inp("a", "MxCa!")])],
        ),
        2 => add_types(
            &mut d,
            rng,
            vec![
                input("MxCa", vec![inp("b", "MxCb!")]),
                input("MxCb", vec![inp("c", "MxCc!")]),
                input("MxCc", vec![inp("a", "MxCa!"), inp("ok", "MxCb")]),
            ],
        ),
        3 => {
            // the closing edge lives in an extension
            add_types(&mut d, rng, vec![input("MxCa", vec![inp("b", "MxCb!")]), input("MxCb", vec![inp("n", "Int")])]);
            insert_at_random(&mut d, rng, Def::Type(ext(input("MxCb", vec![inp("a", "MxCa!")]))));
        }
        _ => {
            // a cycle reachable from, but not containing, its entry point; default values do not break it
            let mut a = inp("a", "MxCa!");
            a.default = Some(obj_lit(vec![]));
            add_types(
                &mut d,
                rng,
                vec![input("MxEntry", vec![inp("a", "MxCa!")]), input("MxCa", vec![inp("b", "MxCb!")]), input("MxCb", vec![a])],
            );
        }
    }
    Some(d)
}

// ---------------------------------------------------------------------------------------------
// reserved names
// ---------------------------------------------------------------------------------------------

fn m_reserved_name_type(doc: &Doc, rng: &mut Rng) -> Option<Doc> {
    let mut d = doc.clone();
    let o = some_object_name(&d)?;
    let n = rng.pick_str(&["__Mx", "__mx", "___", "__"]);
    let x = match rng.below(6) {
        0 => object(n, &[], vec![fld("a", "Int")]),
        1 => interface(n, &[], vec![fld("a", "Int")]),
        2 => union(n, &[&o]),
        3 => enum_(n, &["A"]),
        4 => input(n, vec![inp("a", "Int")]),
        _ => scalar(n),
    };
    insert_at_random(&mut d, rng, Def::Type(x));
    Some(d)
}

fn m_reserved_name_field(doc: &Doc, rng: &mut Rng) -> Option<Doc> {
    let mut d = doc.clone();
    let n = rng.pick_str(&["__mxField", "__typename", "__", "__schema"]);
    if rng.bool() {
        let i = pick_idx(rng, &type_idx(&d, |x| x.kind == Kind::Object))?;
        ty_mut(&mut d, i).fields.push(fld(n, "Int"));
    } else {
        add_types(&mut d, rng, vec![interface("MxResI", &[], vec![fld(n, "Int")])]);
    }
    Some(d)
}

fn m_reserved_name_argument(doc: &Doc, rng: &mut Rng) -> Option<Doc> {
    let mut d = doc.clone();
    let n = rng.pick_str(&["__mxArg", "__", "__if"]);
    if rng.bool() {
        let (i, k) = pick_pair(rng, &free_fields(&d))?;
        ty_mut(&mut d, i).fields[k].args.push(inp(n, "Int"));
    } else {
        add_directive(&mut d, rng, directive("mxresarg", vec![inp(n, "Int")], false, &["FIELD"]));
    }
    Some(d)
}

fn m_reserved_name_enum_value(doc: &Doc, rng: &mut Rng) -> Option<Doc> {
    let mut d = doc.clone();
    let n = rng.pick_str(&["__MX_VALUE", "__", "__a"]);
    let i = pick_idx(rng, &type_idx(&d, |x| x.kind == Kind::Enum))?;
    if rng.bool() {
        ty_mut(&mut d, i).values.push(ev(n));
    } else {
        let mut e = bare_ext(ty_ref(&d, i));
        e.values.push(ev(n));
        insert_at_random(&mut d, rng, Def::Type(e));
    }
    Some(d)
}

fn m_reserved_name_input_field(doc: &Doc, rng: &mut Rng) -> Option<Doc> {
    let mut d = doc.clone();
    let n = rng.pick_str(&["__mxInputField", "__", "__x"]);
    let i = pick_idx(rng, &type_idx(&d, |x| x.kind == Kind::Input))?;
    ty_mut(&mut d, i).input_fields.push(inp(n, "Int"));
    Some(d)
}

fn m_reserved_name_directive(doc: &Doc, rng: &mut Rng) -> Option<Doc> {
    let mut d = doc.clone();
    let n = rng.pick_str(&["__mx", "__", "__skip"]);
    add_directive(&mut d, rng, directive(n, vec![], false, &["FIELD", "OBJECT"]));
    Some(d)
}

fn m_enum_value_keyword(doc: &Doc, rng: &mut Rng) -> Option<Doc> {
    let mut d = doc.clone();
    let n = rng.pick_str(&["true", "false", "null"]);
    let i = pick_idx(rng, &type_idx(&d, |x| x.kind == Kind::Enum))?;
    ty_mut(&mut d, i).values.push(ev(n));
    Some(d)
}

// ---------------------------------------------------------------------------------------------
// directive definitions that reference themselves
// ---------------------------------------------------------------------------------------------

fn m_directive_cycles(doc: &Doc, rng: &mut Rng) -> Option<Doc> {
    let mut d = doc.clone();
    let with_dir = |mut a: InputDef, dir: &str| {
        a.dirs.push(app(dir, vec![]));
        a
    };
    match rng.below(9) {
        0 => add_directive(&mut d, rng, directive("mxcyc", vec![with_dir(inp("a", "Int"), "mxcyc")], false, &["ARGUMENT_DEFINITION"])),
        1 => {
            add_directive(&mut d, rng, directive("mxcyca", vec![with_dir(inp("a", "Int"), "mxcycb")], false, &["ARGUMENT_DEFINITION"]));
            add_directive(&mut d, rng, directive("mxcycb", vec![with_dir(inp("b", "Int"), "mxcyca")], false, &["ARGUMENT_DEFINITION"]));
        }
        2 => {
            add_directive(&mut d, rng, directive("mxcyc", vec![inp("a", "MxCycE")], false, &["ENUM_VALUE"]));
            let mut e = enum_("MxCycE", &["A", "B"]);
            e.values[1].dirs.push(app("mxcyc", vec![]));
            add_types(&mut d, rng, vec![e]);
        }
        3 => {
            add_directive(&mut d, rng, directive("mxcyc", vec![inp("a", "[MxCycI!]")], false, &["INPUT_FIELD_DEFINITION"]));
            let mut i = input("MxCycI", vec![inp("f", "Int")]);
            i.input_fields[0].dirs.push(app("mxcyc", vec![]));
            add_types(&mut d, rng, vec![i]);
        }
        4 => {
            add_directive(&mut d, rng, directive("mxcyc", vec![inp("a", "MxCycE")], false, &["ENUM"]));
            let mut e = enum_("MxCycE", &["A"]);
            e.dirs.push(app("mxcyc", vec![]));
            add_types(&mut d, rng, vec![e]);
        }
        5 => {
            add_directive(&mut d, rng, directive("mxcyc", vec![inp("a", "MxCycS!")], true, &["SCALAR"]));
            let mut s = scalar("MxCycS");
            s.dirs.push(app("mxcyc", vec![("a", Val::Int(1))]));
            add_types(&mut d, rng, vec![s]);
        }
        6 => {
            // through a nested input object
            add_directive(&mut d, rng, directive("mxcyc", vec![inp("a", "MxCycI")], false, &["INPUT_OBJECT"]));
            let mut j = input("MxCycJ", vec![inp("f", "Int")]);
            j.dirs.push(app("mxcyc", vec![]));
            add_types(&mut d, rng, vec![input("MxCycI", vec![inp("j", "[MxCycJ]")]), j]);
        }
        7 => {
            // the reference sits in a type extension
            add_directive(&mut d, rng, directive("mxcyc", vec![inp("a", "MxCycE")], false, &["ENUM"]));
            add_types(&mut d, rng, vec![enum_("MxCycE", &["A"])]);
            let mut e = ext(enum_("MxCycE", &[]));
            e.dirs.push(app("mxcyc", vec![]));
            insert_at_random(&mut d, rng, Def::Type(e));
        }
        _ => {
            // directive -> type -> other directive -> first directive
            add_directive(&mut d, rng, directive("mxcyca", vec![inp("a", "MxCycE")], false, &["ARGUMENT_DEFINITION"]));
            add_directive(&mut d, rng, directive("mxcycb", vec![with_dir(inp("b", "Int"), "mxcyca")], false, &["ENUM_VALUE"]));
            let mut e = enum_("MxCycE", &["A"]);
            e.values[0].dirs.push(app("mxcycb", vec![]));
            add_types(&mut d, rng, vec![e]);
        }
    }
    Some(d)
}

// ---------------------------------------------------------------------------------------------
// directive applications
// ---------------------------------------------------------------------------------------------

fn m_directives_known(doc: &Doc, rng: &mut Rng) -> Option<Doc> {
    let mut d = doc.clone();
    apply_at_random_site(&mut d, rng, vec![app("mxNoSuchDirective", vec![])])?;
    Some(d)
}

/// `extend scalar Int @...`: whatever one thinks of extending a built-in scalar, the directives it
/// applies obey the directive rules.
fn builtin_scalar_extension(doc: &Doc, rng: &mut Rng, apps: Vec<DirApp>) -> Doc {
    let mut d = doc.clone();
    let mut e = ext(scalar(rng.pick_str(BUILTIN_SCALARS)));
    e.dirs = apps;
    insert_at_random(&mut d, rng, Def::Type(e));
    d
}

fn m_directives_known_on_builtin_scalar_extension(doc: &Doc, rng: &mut Rng) -> Option<Doc> {
    Some(builtin_scalar_extension(doc, rng, vec![app("mxNoSuchDirective", vec![])]))
}

fn m_directive_location_on_builtin_scalar_extension(doc: &Doc, rng: &mut Rng) -> Option<Doc> {
    if has_name(doc, "deprecated") {
        return None;
    }
    Some(builtin_scalar_extension(doc, rng, vec![app("deprecated", vec![])]))
}

fn m_directive_args_required_on_builtin_scalar_extension(doc: &Doc, rng: &mut Rng) -> Option<Doc> {
    if has_name(doc, "specifiedBy") {
        return None;
    }
    Some(builtin_scalar_extension(doc, rng, vec![app("specifiedBy", vec![])]))
}

fn m_directive_location(doc: &Doc, rng: &mut Rng) -> Option<Doc> {
    let mut d = doc.clone();
    match rng.below(3) {
        0 => {
            add_directive(&mut d, rng, directive("mxexec", vec![], false, &["FIELD", "QUERY", "VARIABLE_DEFINITION"]));
            apply_at_random_site(&mut d, rng, vec![app("mxexec", vec![])])?;
        }
        1 => {
            // every type-system location but the one it is used at
            let all = sites(&d);
            if all.is_empty() {
                return None;
            }
            let s = all[rng.below(all.len())].clone();
            let here = site_location(&d, &s);
            let locs: Vec<&str> = TS_LOCATIONS.iter().copied().filter(|l| *l != here).collect();
            site_dirs_mut(&mut d, &s).push(app("mxelsewhere", vec![]));
            add_directive(&mut d, rng, directive("mxelsewhere", vec![], true, &locs));
        }
        _ => {
            apply_at_site_in(&mut d, rng, &["OBJECT", "INTERFACE", "UNION", "ENUM", "INPUT_OBJECT", "SCALAR", "SCHEMA"], vec![app("deprecated", vec![])])?;
        }
    }
    Some(d)
}

fn m_directive_unique(doc: &Doc, rng: &mut Rng) -> Option<Doc> {
    let mut d = doc.clone();
    add_directive(&mut d, rng, directive("mxonce", vec![inp("a", "Int")], false, TS_LOCATIONS));
    match rng.below(4) {
        3 => {
            // on two extensions of the same type, none on the definition
            let i = pick_idx(rng, &type_idx(&d, |x| !x.ext && !x.name.starts_with("Mx")))?;
            let mut e = bare_ext(ty_ref(&d, i));
            e.dirs.push(app("mxonce", vec![]));
            for _ in 0..2 {
                insert_at_random(&mut d, rng, Def::Type(e.clone()));
            }
        }
        0 => {
            apply_at_random_site(&mut d, rng, vec![app("mxonce", vec![]), app("mxonce", vec![("a", Val::Int(1))])])?;
        }
        1 => {
            // once on the definition, once on an extension of it
            let i = pick_idx(rng, &type_idx(&d, |x| !x.ext && !x.name.starts_with("Mx")))?;
            ty_mut(&mut d, i).dirs.push(app("mxonce", vec![]));
            let mut e = bare_ext(ty_ref(&d, i));
            e.dirs.push(app("mxonce", vec![]));
            insert_at_random(&mut d, rng, Def::Type(e));
        }
        _ => {
            let i = make_explicit(&mut d, rng);
            schema_mut(&mut d, i).dirs.push(app("mxonce", vec![]));
            d.defs.push(Def::Schema(SchemaDef {
                ext: true,
                desc: None,
                dirs: vec![app("mxonce", vec![])],
                roots: vec![],
            }));
        }
    }
    Some(d)
}

fn m_directive_args_known(doc: &Doc, rng: &mut Rng) -> Option<Doc> {
    let mut d = doc.clone();
    if rng.bool() {
        add_directive(&mut d, rng, directive("mxargs", vec![inp("a", "Int")], true, TS_LOCATIONS));
        apply_at_random_site(&mut d, rng, vec![app("mxargs", vec![("a", Val::Int(1)), ("mxUnknownArg", Val::Int(2))])])?;
    } else {
        if has_name(&d, "deprecated") {
            return None;
        }
        apply_at_site_in(
            &mut d,
            rng,
            &["FIELD_DEFINITION", "ENUM_VALUE"],
            vec![app("deprecated", vec![("mxUnknownArg", Val::Str("x".into()))])],
        )?;
        // a second @deprecated at the same place would be a different violation
        for s in sites(&d) {
            let v = site_dirs_mut(&mut d, &s);
            if v.iter().filter(|a| a.name == "deprecated").count() > 1 {
                let first = v.iter().position(|a| a.name == "deprecated").unwrap();
                v.remove(first);
            }
        }
    }
    Some(d)
}

fn m_directive_args_unique(doc: &Doc, rng: &mut Rng) -> Option<Doc> {
    let mut d = doc.clone();
    add_directive(&mut d, rng, directive("mxargs", vec![inp("a", "Int"), inp("b", "String")], true, TS_LOCATIONS));
    let second = if rng.bool() { Val::Int(1) } else { Val::Int(2) };
    apply_at_random_site(&mut d, rng, vec![app("mxargs", vec![("a", Val::Int(1)), ("b", Val::Str("s".into())), ("a", second)])])?;
    Some(d)
}

fn m_directive_args_required(doc: &Doc, rng: &mut Rng) -> Option<Doc> {
    let mut d = doc.clone();
    if rng.chance(2, 3) {
        let ty = rng.pick_str(&["Int!", "[Int]!", "String!"]);
        add_directive(&mut d, rng, directive("mxreq", vec![inp("opt", "Int"), inp("req", ty)], true, TS_LOCATIONS));
        let args = if rng.bool() { vec![] } else { vec![("opt", Val::Int(3))] };
        apply_at_random_site(&mut d, rng, vec![app("mxreq", args)])?;
    } else {
        if has_name(&d, "specifiedBy") {
            return None;
        }
        add_types(&mut d, rng, vec![scalar("MxReqS")]);
        let i = pick_idx(rng, &type_idx(&d, |x| x.name == "MxReqS"))?;
        ty_mut(&mut d, i).dirs.push(app("specifiedBy", vec![]));
    }
    Some(d)
}

/// Fresh input-side types used by the value mutators (never hosts of directive applications, so
/// no directive-definition cycle can arise).
fn value_support_types() -> Vec<TypeDef> {
    vec![
        enum_("MxVE", &["RED", "GREEN"]),
        scalar("MxVS"),
        input("MxVI", vec![inp("req", "Int!"), inp("opt", "String"), inp("nested", "MxVI"), inp("list", "[MxVE!]"), {
            // non-null with a default value: not required, but `null` is still not a value of its type
            let mut d = inp("dflt", "Int!");
            d.default = Some(Val::Int(5));
            d
        }]),
        // every value / field of these two comes from an extension
        enum_("MxVX", &[]),
        ext(enum_("MxVX", &["LATE"])),
        input("MxVJ", vec![]),
        ext(input("MxVJ", vec![inp("late", "Int!"), inp("other", "MxVX")])),
    ]
}

fn apply_value(doc: &Doc, rng: &mut Rng, ty: &str, val: Val) -> Option<Doc> {
    let mut d = doc.clone();
    add_types(&mut d, rng, value_support_types());
    add_directive(&mut d, rng, directive("mxval", vec![inp("v", ty)], true, TS_LOCATIONS));
    apply_at_random_site(&mut d, rng, vec![app("mxval", vec![("v", val)])])?;
    Some(d)
}

fn s(x: &str) -> Val {
    Val::Str(x.to_string())
}
fn e(x: &str) -> Val {
    Val::Enum(x.to_string())
}
fn fl(x: &str) -> Val {
    Val::Float(x.to_string())
}

pub fn bad_values() -> Vec<(&'static str, Val)> {
    vec![
        ("Int", s("1")),
        ("Int", fl("1.0")),
        ("Int", Val::Bool(true)),
        ("Int", Val::Int(2147483648)),
        ("Int", Val::Int(-2147483649)),
        ("Int", e("RED")),
        ("Int", Val::List(vec![Val::Int(1)])),
        ("Int", obj_lit(vec![("a", Val::Int(1))])),
        ("Int!", Val::Null),
        ("Float", s("1.5")),
        ("Float", Val::Bool(false)),
        ("Float", e("NaN")),
        ("String", Val::Int(1)),
        ("String", e("abc")),
        ("String", Val::Bool(true)),
        ("String", fl("1.5")),
        ("Boolean", Val::Int(0)),
        ("Boolean", s("true")),
        ("Boolean", e("TRUE")),
        ("ID", fl("1.5")),
        ("ID", Val::Bool(true)),
        ("ID", e("abc")),
        ("[Int]", Val::List(vec![Val::Int(1), s("a")])),
        ("[Int]", Val::List(vec![Val::List(vec![Val::Int(1)])])),
        ("[Int]", s("a")),
        ("[Int!]", Val::List(vec![Val::Int(1), Val::Null])),
        ("[Int!]!", Val::Null),
        ("[[Int]]", Val::List(vec![Val::List(vec![s("x")])])),
        ("[[Int!]]", Val::List(vec![Val::Null, Val::List(vec![Val::Null])])),
        ("MxVE", s("RED")),
        ("MxVE", e("BLUE")),
        ("MxVE", Val::Int(0)),
        ("MxVE", Val::Bool(true)),
        ("[MxVE]", Val::List(vec![e("RED"), e("PURPLE")])),
        ("MxVE!", Val::Null),
        ("MxVI", Val::Int(1)),
        ("MxVI", s("x")),
        ("MxVI", e("RED")),
        ("MxVI", Val::List(vec![obj_lit(vec![("req", Val::Int(1))])])),
        ("MxVI", obj_lit(vec![("req", s("1"))])),
        ("MxVI", obj_lit(vec![("req", Val::Null)])),
        ("MxVI", obj_lit(vec![("req", Val::Int(1)), ("nested", obj_lit(vec![("req", fl("2.5"))]))])),
        ("MxVI", obj_lit(vec![("req", Val::Int(1)), ("list", Val::List(vec![e("RED"), Val::Null]))])),
        ("[MxVI]", obj_lit(vec![("req", Val::Int(1)), ("opt", Val::Int(1))])),
        ("MxVI", obj_lit(vec![("req", Val::Int(1)), ("dflt", Val::Null)])),
        ("MxVI", obj_lit(vec![("req", Val::Int(1)), ("dflt", s("5"))])),
        ("MxVX", e("RED")),
        ("MxVX", s("LATE")),
        ("MxVJ", obj_lit(vec![("late", e("LATE"))])),
        ("MxVJ", obj_lit(vec![("late", Val::Int(1)), ("other", e("EARLY"))])),
    ]
}

/// Literals that are valid for the type, at the boundaries of the coercion rules.
pub fn good_values() -> Vec<(&'static str, Val)> {
    vec![
        ("Int", Val::Int(2147483647)),
        ("Int", Val::Int(-2147483648)),
        ("Int", Val::Null),
        ("Float", Val::Int(1)),
        ("Float", Val::Int(9007199254740993)),
        ("Float", fl("1e10")),
        ("Float", fl("-0.0")),
        ("ID", Val::Int(1)),
        ("ID", Val::Int(9007199254740993)),
        ("ID", s("")),
        ("String", s("")),
        ("Boolean", Val::Bool(false)),
        ("[Int]", Val::Int(1)),
        ("[Int]", Val::List(vec![])),
        ("[Int]", Val::List(vec![Val::Null, Val::Int(1)])),
        ("[Int!]", Val::Null),
        ("[Int!]!", Val::Int(7)),
        ("[[Int]]", Val::Int(1)),
        ("[[Int]]", Val::List(vec![Val::Int(1), Val::List(vec![Val::Int(2)]), Val::Null])),
        ("[[Int!]!]!", Val::List(vec![Val::List(vec![])])),
        ("MxVE", e("RED")),
        ("[MxVE!]", e("GREEN")),
        ("MxVS", Val::Int(1)),
        ("MxVS", fl("1.5")),
        ("MxVS", s("x")),
        ("MxVS", Val::Bool(true)),
        ("MxVS", e("ANYTHING")),
        ("MxVS", Val::List(vec![Val::Int(1), s("x"), Val::Null])),
        ("MxVS", obj_lit(vec![("a", Val::Int(1)), ("b", Val::List(vec![]))])),
        ("MxVS!", obj_lit(vec![])),
        ("[MxVS]", obj_lit(vec![("a", Val::Null)])),
        ("MxVI", obj_lit(vec![("req", Val::Int(1))])),
        ("MxVI", obj_lit(vec![("opt", Val::Null), ("req", Val::Int(1)), ("nested", Val::Null)])),
        ("MxVI", obj_lit(vec![("req", Val::Int(1)), ("nested", obj_lit(vec![("req", Val::Int(2)), ("list", e("RED"))]))])),
        ("[MxVI]", obj_lit(vec![("req", Val::Int(1))])),
        ("[MxVI!]!", Val::List(vec![obj_lit(vec![("req", Val::Int(1))]), obj_lit(vec![("req", Val::Int(2)), ("list", Val::List(vec![]))])])),
        ("MxVI", obj_lit(vec![("req", Val::Int(1)), ("dflt", Val::Int(6))])),
        ("MxVX", e("LATE")),
        ("[MxVX!]!", e("LATE")),
        ("MxVJ", obj_lit(vec![("late", Val::Int(1))])),
        ("MxVJ", obj_lit(vec![("other", e("LATE")), ("late", Val::Int(1))])),
    ]
}

/// `directive @mxdflt(v: Int! = 3)`: applied without argument it is fine, `v: null` is not.
fn with_defaulted_directive(doc: &Doc, rng: &mut Rng, args: Vec<(&str, Val)>) -> Option<Doc> {
    let mut d = doc.clone();
    let mut a = inp("v", "Int!");
    a.default = Some(Val::Int(3));
    add_directive(&mut d, rng, directive("mxdflt", vec![a, inp("w", "[Int!]")], true, TS_LOCATIONS));
    apply_at_random_site(&mut d, rng, vec![app("mxdflt", args)])?;
    Some(d)
}

fn m_value_type(doc: &Doc, rng: &mut Rng) -> Option<Doc> {
    if rng.chance(1, 12) {
        return with_defaulted_directive(doc, rng, vec![("v", Val::Null)]);
    }
    let all = bad_values();
    let (ty, v) = all[rng.below(all.len())].clone();
    apply_value(doc, rng, ty, v)
}

fn m_value_object_fields_known(doc: &Doc, rng: &mut Rng) -> Option<Doc> {
    let v = match rng.below(3) {
        0 => obj_lit(vec![("req", Val::Int(1)), ("mxUnknown", Val::Int(2))]),
        1 => obj_lit(vec![("req", Val::Int(1)), ("nested", obj_lit(vec![("req", Val::Int(1)), ("mxUnknown", Val::Null)]))]),
        _ => Val::List(vec![obj_lit(vec![("req", Val::Int(1))]), obj_lit(vec![("req", Val::Int(1)), ("Req", Val::Int(1))])]),
    };
    let ty = if matches!(v, Val::List(_)) { "[MxVI]" } else { *rng.pick(&["MxVI", "MxVI!", "[MxVI]"]) };
    apply_value(doc, rng, ty, v)
}

fn m_value_object_fields_unique(doc: &Doc, rng: &mut Rng) -> Option<Doc> {
    let (ty, v) = match rng.below(4) {
        0 => ("MxVI", obj_lit(vec![("req", Val::Int(1)), ("req", Val::Int(1))])),
        1 => ("MxVI", obj_lit(vec![("req", Val::Int(1)), ("opt", s("a")), ("opt", s("b"))])),
        2 => ("[MxVI]", Val::List(vec![obj_lit(vec![("req", Val::Int(1)), ("nested", obj_lit(vec![("req", Val::Int(1)), ("req", Val::Int(2))]))])])),
        _ => ("MxVS", obj_lit(vec![("k", Val::Int(1)), ("k", Val::Int(2))])),
    };
    apply_value(doc, rng, ty, v)
}

fn m_value_object_fields_required(doc: &Doc, rng: &mut Rng) -> Option<Doc> {
    let (ty, v) = match rng.below(5) {
        0 => ("MxVI", obj_lit(vec![])),
        1 => ("MxVI", obj_lit(vec![("opt", s("a"))])),
        2 => ("MxVI!", obj_lit(vec![("req", Val::Int(1)), ("nested", obj_lit(vec![("opt", Val::Null)]))])),
        3 => ("[MxVI]", Val::List(vec![obj_lit(vec![("req", Val::Int(1))]), obj_lit(vec![])])),
        _ => ("MxVJ", obj_lit(vec![("other", e("LATE"))])),
    };
    apply_value(doc, rng, ty, v)
}

// ---------------------------------------------------------------------------------------------
// NEUTRALS: validity-preserving edits on the satisfied side of a rule boundary
// ---------------------------------------------------------------------------------------------

/// Move every member of one type into an extension: the definition alone is empty, the merged
/// type is not.
fn n_all_members_in_extension(doc: &Doc, rng: &mut Rng) -> Option<Doc> {
    let mut d = doc.clone();
    let i = pick_idx(rng, &type_idx(&d, |x| !x.ext && x.kind != Kind::Scalar))?;
    let x = ty_mut(&mut d, i);
    let mut e = bare_ext(x);
    e.fields = std::mem::take(&mut x.fields);
    e.values = std::mem::take(&mut x.values);
    e.members = std::mem::take(&mut x.members);
    e.input_fields = std::mem::take(&mut x.input_fields);
    if rng.bool() {
        e.implements = std::mem::take(&mut x.implements);
    }
    insert_at_random(&mut d, rng, Def::Type(e));
    Some(d)
}

fn n_builtin_directive_redefined_once(doc: &Doc, rng: &mut Rng) -> Option<Doc> {
    let mut d = doc.clone();
    let n = rng.pick_str(&["skip", "include", "deprecated", "specifiedBy"]);
    if has_name(&d, n) {
        return None;
    }
    let mut def = builtin_redefinition(n);
    if rng.bool() {
        def.desc = Some("redefined by the user document".into());
    }
    if n == "skip" && rng.bool() {
        def.locations.push("QUERY".into());
    }
    add_directive(&mut d, rng, def);
    Some(d)
}

/// `extend schema @dir` on an implicit schema that has a `Query` type (apollo-rs issue 682), or on
/// an explicit one.
fn n_schema_extension_with_directive(doc: &Doc, rng: &mut Rng) -> Option<Doc> {
    let mut d = doc.clone();
    let rep = rng.bool();
    add_directive(&mut d, rng, directive("mxonschema", vec![inp("a", "Int")], rep, &["SCHEMA"]));
    let e = Def::Schema(SchemaDef {
        ext: true,
        desc: None,
        dirs: vec![app("mxonschema", vec![("a", Val::Int(1))])],
        roots: vec![],
    });
    // before or after the definition: the order of definitions in a document carries no meaning
    insert_at_random(&mut d, rng, e);
    Some(d)
}

/// Default values are NOT validated (explicit oracle parameter, apollo-rs issue 928): a default of
/// the wrong type does not make the document invalid.
fn n_unvalidated_default_value(doc: &Doc, rng: &mut Rng) -> Option<Doc> {
    let mut d = doc.clone();
    let wrong = match rng.below(6) {
        0 => s("not of this type"),
        1 => e("MX_NO_SUCH_ENUM_VALUE"),
        2 => obj_lit(vec![("mxNoSuchField", Val::Int(1))]),
        3 => Val::List(vec![Val::List(vec![Val::Bool(true)])]),
        4 => Val::Int(4294967296),
        _ => Val::Null,
    };
    let mut c: Vec<(usize, usize, Option<usize>)> = Vec::new();
    for (i, x) in d.defs.iter().enumerate() {
        if let Def::Type(x) = x {
            for (k, f) in x.fields.iter().enumerate() {
                for a in 0..f.args.len() {
                    c.push((i, k, Some(a)));
                }
            }
            for k in 0..x.input_fields.len() {
                c.push((i, k, None));
            }
        }
    }
    if c.is_empty() {
        return None;
    }
    let (i, k, a) = c[rng.below(c.len())];
    let x = ty_mut(&mut d, i);
    let target = match a {
        Some(a) => &mut x.fields[k].args[a],
        None => &mut x.input_fields[k],
    };
    // stay out of the band "@deprecated on a required argument / input field"
    if target.ty.is_non_null() && target.dirs.iter().any(|z| z.name == "deprecated") {
        return None;
    }
    target.default = Some(wrong);
    Some(d)
}

/// A built-in directive redefined (once) with another signature: applications follow the user's
/// definition.
fn n_builtin_directive_redefined_differently(doc: &Doc, rng: &mut Rng) -> Option<Doc> {
    let mut d = doc.clone();
    if has_name(&d, "deprecated") {
        return None;
    }
    let mut def = builtin_redefinition("deprecated");
    def.args.push(inp("mxSince", "Int"));
    def.locations.push("OBJECT".into());
    def.locations.push("UNION".into());
    add_directive(&mut d, rng, def);
    apply_at_site_in(&mut d, rng, &["OBJECT", "UNION"], vec![app("deprecated", vec![("mxSince", Val::Int(2021))])])?;
    Some(d)
}

fn n_good_value(doc: &Doc, rng: &mut Rng) -> Option<Doc> {
    if rng.chance(1, 12) {
        let args = if rng.bool() { vec![] } else { vec![("w", Val::Null)] };
        return with_defaulted_directive(doc, rng, args);
    }
    let all = good_values();
    let (ty, v) = all[rng.below(all.len())].clone();
    apply_value(doc, rng, ty, v)
}

fn n_broken_input_cycles(doc: &Doc, rng: &mut Rng) -> Option<Doc> {
    let mut d = doc.clone();
    let back = rng.pick_str(&["MxNa", "[MxNa!]!", "[MxNa]!", "[[MxNa!]!]!"]);
    add_types(
        &mut d,
        rng,
        vec![
            input("MxNa", vec![inp("b", "MxNb!"), inp("self", "[MxNa!]!"), inp("me", "MxNa")]),
            input("MxNb", vec![inp("c", "MxNc!")]),
            input("MxNc", vec![inp("a", back), inp("n", "Int!")]),
        ],
    );
    Some(d)
}

fn n_covariant_implementations(doc: &Doc, rng: &mut Rng) -> Option<Doc> {
    let mut d = doc.clone();
    let mid_is_object = rng.bool();
    let mut types = vec![
        union("MxNU", &["MxNT"]),
        interface(
            "MxNA",
            &[],
            vec![
                fld("u", "MxNU"),
                fld("l", "[MxNA]"),
                fld("me", "MxNA"),
                fld("deep", "[[MxNA]]"),
                fld_args("withArgs", vec![inp("x", "[Int!]"), inp("y", "MxNE")], "ID"),
            ],
        ),
        enum_("MxNE", &["A"]),
    ];
    let impl_fields = vec![
        fld("u", "MxNT!"),
        fld("l", "[MxNT!]!"),
        fld("me", "MxNT"),
        fld("deep", "[[MxNT!]]!"),
        fld_args("withArgs", vec![inp("x", "[Int!]"), inp("y", "MxNE"), inp("extra", "Int"), inp("extraList", "[Int!]")], "ID!"),
    ];
    if mid_is_object {
        types.push(object("MxNT", &["MxNA"], impl_fields));
    } else {
        // interface in the middle, object at the bottom, transitively declared
        let mut mid_fields = impl_fields.clone();
        for f in mid_fields.iter_mut() {
            f.ty = replace_inner(&f.ty, if f.ty.inner_name() == "MxNT" { "MxNB" } else { f.ty.inner_name() });
        }
        mid_fields[0].ty = t("MxNU");
        types.push(interface("MxNB", &["MxNA"], mid_fields));
        types.push(object("MxNT", &["MxNB", "MxNA"], impl_fields));
    }
    add_types(&mut d, rng, types);
    Some(d)
}

/// Names that look suspicious but are fine: single underscore, keyword-like, same name in
/// different namespaces, a non-root object called `Mutation` under an explicit schema.
fn n_odd_but_valid_names(doc: &Doc, rng: &mut Rng) -> Option<Doc> {
    let mut d = doc.clone();
    if has_name(&d, "_") || has_name(&d, "_MxN") {
        return None;
    }
    add_types(
        &mut d,
        rng,
        vec![
            object(
                "_MxN",
                &[],
                vec![fld("_", "Int"), fld("_x_", "Int"), fld("type", "_MxN"), fld("_MxN", "_"), fld_args("on", vec![inp("_", "Int"), inp("null", "Int"), inp("on", "_")], "Int")],
            ),
            enum_("_", &["_", "True", "NULL", "Null", "on", "type", "enum", "_MxN", "fragment"]),
            input("input", vec![inp("input", "input"), inp("_", "_")]),
        ],
    );
    add_directive(&mut d, rng, directive("_", vec![inp("_", "_")], true, &["FIELD", "OBJECT"]));
    add_directive(&mut d, rng, directive("_MxN", vec![], false, &["QUERY"]));
    if schema_def_idx(&d).is_some() && !has_name(&d, "Mutation") && !has_name(&d, "Subscription") {
        add_types(&mut d, rng, vec![enum_("Mutation", &["A"]), scalar("Subscription")]);
    }
    if schema_def_idx(&d).is_some() && !has_name(&d, "Query") {
        add_types(&mut d, rng, vec![input("Query", vec![inp("a", "Int")])]);
    }
    Some(d)
}

fn n_acyclic_directive_chain(doc: &Doc, rng: &mut Rng) -> Option<Doc> {
    let mut d = doc.clone();
    let mut a = inp("a", "MxNDE");
    a.dirs.push(app("mxndb", vec![("b", Val::Int(1))]));
    add_directive(&mut d, rng, directive("mxnda", vec![a], false, &["ARGUMENT_DEFINITION", "ENUM_VALUE"]));
    add_directive(&mut d, rng, directive("mxndb", vec![inp("b", "Int")], true, &["ARGUMENT_DEFINITION", "ENUM_VALUE", "ENUM"]));
    let mut e = enum_("MxNDE", &["A", "B"]);
    e.dirs.push(app("mxndb", vec![]));
    e.values[0].dirs.push(app("mxndb", vec![]));
    e.values[0].dirs.push(app("mxndb", vec![("b", Val::Null)]));
    add_types(&mut d, rng, vec![e]);
    Some(d)
}

fn n_repeatable_twice(doc: &Doc, rng: &mut Rng) -> Option<Doc> {
    let mut d = doc.clone();
    add_directive(&mut d, rng, directive("mxrep", vec![inp("a", "Int")], true, TS_LOCATIONS));
    add_directive(&mut d, rng, directive("mxsingle", vec![], false, TS_LOCATIONS));
    apply_at_random_site(&mut d, rng, vec![app("mxrep", vec![]), app("mxsingle", vec![]), app("mxrep", vec![("a", Val::Int(1))])])?;
    // the non-repeatable one again, but on a different location (an extension counts as the same)
    apply_at_random_site(&mut d, rng, vec![app("mxrep", vec![])])?;
    Some(d)
}

fn n_root_types_referenced(doc: &Doc, rng: &mut Rng) -> Option<Doc> {
    let mut d = doc.clone();
    let roots = current_roots(&d);
    if roots.is_empty() {
        return None;
    }
    let (_, q) = roots[rng.below(roots.len())].clone();
    let o = names_of_kind(&d, Kind::Object).into_iter().find(|n| *n != q)?;
    add_types(&mut d, rng, vec![union("MxNRU", &[&q, &o]), object("MxNR", &[], vec![fld("root", &format!("[{q}!]")), fld("u", "MxNRU")])]);
    Some(d)
}

/// Long acyclic chains: no rule of the specification bounds them.
fn n_long_chain(doc: &Doc, rng: &mut Rng) -> Option<Doc> {
    let mut d = doc.clone();
    let n = *rng.pick(&[3usize, 12, 30, 31, 32, 33, 40]);
    match rng.below(3) {
        0 => {
            // input objects linked by non-null fields
            let mut types = Vec::new();
            for i in 0..n {
                types.push(input(&format!("MxCh{i}"), vec![inp("next", &format!("MxCh{}!", i + 1))]));
            }
            types.push(input(&format!("MxCh{n}"), vec![inp("end", "Int")]));
            add_types(&mut d, rng, types);
        }
        1 => {
            // directive definitions that apply the next one on their argument
            for i in 0..n {
                let mut a = inp("a", "Int");
                a.dirs.push(app(&format!("mxch{}", i + 1), vec![]));
                add_directive(&mut d, rng, directive(&format!("mxch{i}"), vec![a], false, &["ARGUMENT_DEFINITION"]));
            }
            add_directive(&mut d, rng, directive(&format!("mxch{n}"), vec![inp("a", "Int")], false, &["ARGUMENT_DEFINITION"]));
        }
        _ => {
            // a directive whose argument type starts a chain of nullable input objects
            let mut types = Vec::new();
            for i in 0..n {
                types.push(input(&format!("MxCh{i}"), vec![inp("next", &format!("MxCh{}", i + 1))]));
            }
            types.push(input(&format!("MxCh{n}"), vec![inp("end", "Int")]));
            add_types(&mut d, rng, types);
            add_directive(&mut d, rng, directive("mxchd", vec![inp("a", "MxCh0")], false, &["FIELD"]));
        }
    }
    Some(d)
}

pub struct Neutral {
    pub name: &'static str,
    pub f: MutFn,
}

pub const NEUTRALS: &[Neutral] = &[
    Neutral { name: "all-members-in-extension", f: n_all_members_in_extension },
    Neutral { name: "builtin-directive-redefined-once", f: n_builtin_directive_redefined_once },
    Neutral { name: "schema-extension-with-directive", f: n_schema_extension_with_directive },
    Neutral { name: "good-value", f: n_good_value },
    Neutral { name: "long-chain", f: n_long_chain },
    Neutral { name: "unvalidated-default-value", f: n_unvalidated_default_value },
    Neutral { name: "builtin-directive-redefined-differently", f: n_builtin_directive_redefined_differently },
    Neutral { name: "broken-input-cycles", f: n_broken_input_cycles },
    Neutral { name: "covariant-implementations", f: n_covariant_implementations },
    Neutral { name: "odd-but-valid-names", f: n_odd_but_valid_names },
    Neutral { name: "acyclic-directive-chain", f: n_acyclic_directive_chain },
    Neutral { name: "repeatable-twice", f: n_repeatable_twice },
    Neutral { name: "root-types-referenced", f: n_root_types_referenced },
];

// ---------------------------------------------------------------------------------------------
// registry
// ---------------------------------------------------------------------------------------------

macro_rules! m {
    ($rule:expr, $variant:expr, $f:ident) => {
        Mutator { rule: $rule, variant: $variant, f: $f }
    };
}

pub const MUTATORS: &[Mutator] = &[
    m!("query-root", "remove-or-rename", m_query_root),
    m!("root-types-object", "non-object-root", m_root_types_object),
    m!("root-types-distinct", "same-type-twice", m_root_types_distinct),
    m!("one-schema-definition", "second-definition", m_one_schema_definition),
    m!("unique-operation-types", "repeat-operation", m_unique_operation_types),
    m!("unique-type-names", "same-kind", m_unique_type_names_same),
    m!("unique-type-names", "other-kind", m_unique_type_names_other_kind),
    m!("builtin-scalar-redefined", "define-built-in-name", m_builtin_scalar_redefined),
    m!("unique-directive-names", "custom", m_unique_directive_names_custom),
    m!("unique-directive-names", "built-in-twice", m_unique_directive_names_builtin_twice),
    m!("extension-target", "orphan", m_extension_orphan),
    m!("extension-target", "kind-mismatch-before", m_extension_kind_mismatch_before),
    m!("extension-target", "kind-mismatch-after", m_extension_kind_mismatch_after),
    m!("unique-field-names", "duplicate", m_unique_field_names),
    m!("unique-argument-names", "field", m_unique_argument_names_field),
    m!("unique-argument-names", "directive", m_unique_argument_names_directive),
    m!("unique-enum-values", "duplicate", m_unique_enum_values),
    m!("unique-input-fields", "duplicate", m_unique_input_fields),
    m!("unique-union-members", "duplicate", m_unique_union_members),
    m!("unique-implements", "duplicate", m_unique_implements),
    m!("known-types", "field", m_known_types_field),
    m!("known-types", "field-argument", m_known_types_field_argument),
    m!("known-types", "input-field", m_known_types_input_field),
    m!("known-types", "directive-argument", m_known_types_directive_argument),
    m!("known-types", "union-member", m_known_types_union_member),
    m!("known-types", "implements", m_known_types_implements),
    m!("known-types", "root", m_known_types_root),
    m!("output-types", "input-object-as-field-type", m_output_types),
    m!("input-types", "field-argument", m_input_types_field_argument),
    m!("input-types", "input-field", m_input_types_input_field),
    m!("input-types", "directive-argument", m_input_types_directive_argument),
    m!("non-empty-fields", "empty", m_non_empty_fields),
    m!("non-empty-enum-values", "empty", m_non_empty_enum_values),
    m!("non-empty-union-members", "empty", m_non_empty_union_members),
    m!("non-empty-input-fields", "empty", m_non_empty_input_fields),
    m!("implements-interface-kind", "non-interface", m_implements_interface_kind),
    m!("no-self-implementation", "self", m_no_self_implementation),
    m!("transitive-interfaces", "forgotten", m_transitive_interfaces),
    m!("interface-fields-present", "missing", m_interface_fields_present),
    m!("interface-field-type-covariant", "not-a-subtype", m_interface_field_type_covariant),
    m!("interface-args-present", "missing", m_interface_args_present),
    m!("interface-arg-type-equal", "different", m_interface_arg_type_equal),
    m!("extra-args-optional", "required-extra", m_extra_args_optional),
    m!("union-members-object", "non-object", m_union_members_object),
    m!("input-object-cycles", "non-null-cycle", m_input_object_cycles),
    m!("reserved-name-type", "dunder", m_reserved_name_type),
    m!("reserved-name-field", "dunder", m_reserved_name_field),
    m!("reserved-name-argument", "dunder", m_reserved_name_argument),
    m!("reserved-name-enum-value", "dunder", m_reserved_name_enum_value),
    m!("reserved-name-input-field", "dunder", m_reserved_name_input_field),
    m!("reserved-name-directive", "dunder", m_reserved_name_directive),
    m!("enum-value-keyword", "keyword", m_enum_value_keyword),
    m!("directive-cycles", "self-reference", m_directive_cycles),
    m!("directives-known", "undefined", m_directives_known),
    m!("directive-location", "wrong-location", m_directive_location),
    m!("directives-known", "on-built-in-scalar-extension", m_directives_known_on_builtin_scalar_extension),
    m!("directive-location", "on-built-in-scalar-extension", m_directive_location_on_builtin_scalar_extension),
    m!("directive-args-required", "on-built-in-scalar-extension", m_directive_args_required_on_builtin_scalar_extension),
    m!("directive-unique", "repeated", m_directive_unique),
    m!("directive-args-known", "unknown", m_directive_args_known),
    m!("directive-args-unique", "repeated", m_directive_args_unique),
    m!("directive-args-required", "missing", m_directive_args_required),
    m!("value-type", "wrong-kind", m_value_type),
    m!("value-object-fields-known", "unknown", m_value_object_fields_known),
    m!("value-object-fields-unique", "duplicate", m_value_object_fields_unique),
    m!("value-object-fields-required", "missing", m_value_object_fields_required),
];

pub fn rules_with_mutators() -> Vec<&'static str> {
    let mut out: Vec<&'static str> = Vec::new();
    for m in MUTATORS {
        if !out.contains(&m.rule) {
            out.push(m.rule);
        }
    }
    out
}

/// Apply a random variant of the family for `rule`. Returns the mutant and the variant used.
pub fn mutate_rule(doc: &Doc, rule: &str, rng: &mut Rng) -> Option<(Doc, &'static str)> {
    let fam: Vec<&Mutator> = MUTATORS.iter().filter(|m| m.rule == rule).collect();
    if fam.is_empty() {
        return None;
    }
    // a few tries: a variant may be inapplicable to this document
    for _ in 0..4 {
        let m = fam[rng.below(fam.len())];
        if let Some(d) = (m.f)(doc, rng) {
            return Some((d, m.variant));
        }
    }
    None
}

/// Apply two mutators one after the other (the second on the result of the first).
pub fn mutate_two(doc: &Doc, rng: &mut Rng) -> Option<(Doc, [&'static str; 2])> {
    let a = &MUTATORS[rng.below(MUTATORS.len())];
    let b = &MUTATORS[rng.below(MUTATORS.len())];
    let d1 = (a.f)(doc, rng)?;
    let d2 = (b.f)(&d1, rng)?;
    Some((d2, [a.rule, b.rule]))
}

pub fn neutral(doc: &Doc, rng: &mut Rng) -> Option<(Doc, &'static str)> {
    let n = &NEUTRALS[rng.below(NEUTRALS.len())];
    (n.f)(doc, rng).map(|d| (d, n.name))
}
