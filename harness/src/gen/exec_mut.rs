//! Executable-document mutators: one family per rule of `refmodel::exec_rules` (DESIGN §4 source 4).
//! Each takes a valid schema model (flat view) and a valid executable `Doc` from
//! `exec_gen::gen_executable` and edits the document at a random applicable site so that it
//! violates that rule — and, as far as the construction can arrange it, only that rule (new
//! selections are *added* with fresh aliases and constant arguments instead of editing existing
//! ones, so that no variable or fragment becomes unused by accident). `None` when the document
//! offers no applicable site. The reference model, not the mutator, decides what a mutant violates.
//!
//! Families named `Valid:*` keep the document valid and aim at constructs that an implementation
//! may wrongly reject.

use crate::gen::model::*;
use crate::gen::schema_gen::valid_const;
use crate::prng::Rng;
use crate::refmodel::exec_rules as R;

pub const FAMILIES: &[&str] = &[
    R::EXECUTABLE_DEFINITIONS,
    R::OPERATION_NAME_UNIQUENESS,
    R::LONE_ANONYMOUS_OPERATION,
    R::UNDEFINED_ROOT_OPERATION_TYPE,
    R::SINGLE_ROOT_FIELD,
    R::SUBSCRIPTION_SKIP_INCLUDE,
    R::FIELDS_ON_CORRECT_TYPE,
    R::OVERLAPPING_FIELDS,
    R::SCALAR_LEAFS,
    R::KNOWN_ARGUMENT_NAMES,
    R::UNIQUE_ARGUMENT_NAMES,
    R::PROVIDED_REQUIRED_ARGUMENTS,
    R::FRAGMENT_NAME_UNIQUENESS,
    R::FRAGMENT_TYPE_EXISTENCE,
    R::FRAGMENTS_ON_COMPOSITE_TYPES,
    R::NO_UNUSED_FRAGMENTS,
    R::KNOWN_FRAGMENT_NAMES,
    R::NO_FRAGMENT_CYCLES,
    R::POSSIBLE_FRAGMENT_SPREADS,
    R::VALUES_OF_CORRECT_TYPE,
    R::UNIQUE_INPUT_FIELD_NAMES,
    R::KNOWN_DIRECTIVES,
    R::UNIQUE_DIRECTIVES_PER_LOCATION,
    R::UNIQUE_VARIABLE_NAMES,
    R::VARIABLES_ARE_INPUT_TYPES,
    R::NO_UNDEFINED_VARIABLES,
    R::NO_UNUSED_VARIABLES,
    R::VARIABLES_IN_ALLOWED_POSITION,
    "Valid:DuplicateSubscriptionRootField",
    "Valid:SameTypeSpread",
    "Valid:ConditionlessInlineFragment",
    "Valid:SingleValueForList",
    "Valid:NestedVariables",
    "Valid:IdenticalFieldsMerge",
    "Valid:MetaFields",
    "Valid:NonNullDefaultIntoNonNull",
    "Valid:ExclusiveObjectsDifferentFields",
    "SharedFragment:UndefinedVariableInOneOperation",
    "Valid:SharedFragmentVariables",
    "AbstractParent:ConflictWithOneObject",
    "Valid:AbstractParentSameField",
];

/// The rule a family aims at (`None` for validity-preserving families).
pub fn intended(family: &str) -> Option<&'static str> {
    if family.starts_with("Valid:") {
        return None;
    }
    match family {
        "SharedFragment:UndefinedVariableInOneOperation" => Some(R::NO_UNDEFINED_VARIABLES),
        "AbstractParent:ConflictWithOneObject" => Some(R::OVERLAPPING_FIELDS),
        _ => FAMILIES.iter().find(|f| **f == family).copied(),
    }
}

/// Quota-driven choice of the next family: the least-served families first.
pub struct Quota {
    hits: Vec<u64>,
}

impl Quota {
    pub fn new() -> Quota {
        Quota { hits: vec![0; FAMILIES.len()] }
    }
    pub fn next(&mut self, rng: &mut Rng) -> &'static str {
        if rng.chance(1, 3) {
            return FAMILIES[rng.below(FAMILIES.len())];
        }
        let min = *self.hits.iter().min().unwrap();
        let c: Vec<usize> = (0..FAMILIES.len()).filter(|i| self.hits[*i] == min).collect();
        let i = *rng.pick(&c);
        // count the attempt too, so that a never-applicable family does not starve the others
        self.hits[i] += 1;
        FAMILIES[i]
    }
    pub fn hit(&mut self, family: &str) {
        if let Some(i) = FAMILIES.iter().position(|f| *f == family) {
            self.hits[i] += 1;
        }
    }
}

impl Default for Quota {
    fn default() -> Self {
        Quota::new()
    }
}

// ---------------------------------------------------------------------------------------------
// Sites
// ---------------------------------------------------------------------------------------------

/// A selection list of the document: the root list of definition `def` (idx empty) or the
/// sub-selection list reached by following `idx`.
#[derive(Clone, Debug)]
pub struct Site {
    pub def: usize,
    pub idx: Vec<usize>,
    pub parent: Option<String>,
    /// "query" | "mutation" | "subscription" | "fragment"
    pub kind: String,
    pub at_root: bool,
}

fn composite(flat: &FlatSchema, n: &str) -> Option<String> {
    if flat.is_composite(n) {
        Some(n.to_string())
    } else {
        None
    }
}

fn walk_sites(flat: &FlatSchema, site: Site, sels: &[Sel], out: &mut Vec<Site>) {
    out.push(site.clone());
    for (k, s) in sels.iter().enumerate() {
        let mut idx = site.idx.clone();
        idx.push(k);
        match s {
            Sel::Field { name, sels: sub, .. } if !sub.is_empty() => {
                let child = site
                    .parent
                    .as_deref()
                    .and_then(|p| flat.field(p, name))
                    .and_then(|f| composite(flat, f.ty.inner_name()));
                walk_sites(flat, Site { def: site.def, idx, parent: child, kind: site.kind.clone(), at_root: false }, sub, out);
            }
            Sel::Inline { on, sels: sub, .. } => {
                let child = match on {
                    Some(t) => composite(flat, t),
                    None => site.parent.clone(),
                };
                walk_sites(flat, Site { def: site.def, idx, parent: child, kind: site.kind.clone(), at_root: site.at_root }, sub, out);
            }
            _ => {}
        }
    }
}

pub fn sites(flat: &FlatSchema, doc: &Doc) -> Vec<Site> {
    let mut out = Vec::new();
    for (i, d) in doc.defs.iter().enumerate() {
        match d {
            Def::Op(o) => {
                let parent = flat.root(&o.kind).and_then(|r| composite(flat, r));
                walk_sites(flat, Site { def: i, idx: vec![], parent, kind: o.kind.clone(), at_root: true }, &o.sels, &mut out);
            }
            Def::Frag(f) => {
                walk_sites(flat, Site { def: i, idx: vec![], parent: composite(flat, &f.on), kind: "fragment".into(), at_root: true }, &f.sels, &mut out);
            }
            _ => {}
        }
    }
    out
}

pub fn list_mut<'a>(doc: &'a mut Doc, site: &Site) -> &'a mut Vec<Sel> {
    let mut cur: &mut Vec<Sel> = match &mut doc.defs[site.def] {
        Def::Op(o) => &mut o.sels,
        Def::Frag(f) => &mut f.sels,
        _ => panic!("site in a non-executable definition"),
    };
    for k in &site.idx {
        cur = match &mut cur[*k] {
            Sel::Field { sels, .. } | Sel::Inline { sels, .. } => sels,
            Sel::Spread { .. } => panic!("site through a spread"),
        };
    }
    cur
}

fn has_subscription(doc: &Doc) -> bool {
    doc.ops().any(|o| o.kind == "subscription")
}

/// Sites where adding a selection or a `@skip`/`@include` cannot touch a subscription root.
fn plain_sites(flat: &FlatSchema, doc: &Doc) -> Vec<Site> {
    let sub = has_subscription(doc);
    sites(flat, doc)
        .into_iter()
        .filter(|s| s.parent.is_some())
        .filter(|s| !(s.at_root && (s.kind == "subscription" || (s.kind == "fragment" && sub))))
        .collect()
}

fn op_sites(flat: &FlatSchema, doc: &Doc) -> Vec<Site> {
    plain_sites(flat, doc).into_iter().filter(|s| s.kind != "fragment").collect()
}

fn fresh(rng: &mut Rng, p: &str) -> String {
    format!("{p}{}", rng.below(90000) + 10000)
}

fn leaf(alias: Option<String>, name: &str) -> Sel {
    Sel::Field { alias, name: name.to_string(), args: vec![], dirs: vec![], sels: vec![] }
}

fn typename() -> Sel {
    leaf(None, "__typename")
}

fn dir(name: &str, args: Vec<(&str, Val)>) -> DirApp {
    DirApp { name: name.to_string(), args: args.into_iter().map(|(k, v)| (k.to_string(), v)).collect() }
}

fn const_args(rng: &mut Rng, flat: &FlatSchema, f: &FieldDef) -> Vec<(String, Val)> {
    let mut out = Vec::new();
    for a in &f.args {
        let required = a.ty.is_non_null() && a.default.is_none();
        if required || rng.bool() {
            out.push((a.name.clone(), valid_const(rng, flat, &a.ty, 2, false)));
        }
    }
    out
}

fn has_required(f: &FieldDef) -> bool {
    f.args.iter().any(|a| a.ty.is_non_null() && a.default.is_none())
}

/// A new aliased selection of `f` with constant arguments (and `__typename` below a composite).
fn select(rng: &mut Rng, flat: &FlatSchema, f: &FieldDef, alias: &str) -> Sel {
    Sel::Field {
        alias: Some(alias.to_string()),
        name: f.name.clone(),
        args: const_args(rng, flat, f),
        dirs: vec![],
        sels: if flat.is_composite(f.ty.inner_name()) { vec![typename()] } else { vec![] },
    }
}

fn select_fresh(rng: &mut Rng, flat: &FlatSchema, f: &FieldDef, prefix: &str) -> Sel {
    let alias = fresh(rng, prefix);
    select(rng, flat, f, &alias)
}

fn fields_of<'a>(flat: &'a FlatSchema, site: &Site) -> &'a [FieldDef] {
    site.parent.as_deref().and_then(|p| flat.ty(p)).map(|t| t.fields.as_slice()).unwrap_or(&[])
}

fn pick_site<'a>(rng: &mut Rng, sites: &'a [Site]) -> Option<&'a Site> {
    if sites.is_empty() {
        None
    } else {
        Some(&sites[rng.below(sites.len())])
    }
}

/// A site together with a field of its parent type that satisfies `pred`.
fn site_with_field(
    rng: &mut Rng,
    flat: &FlatSchema,
    sites: &[Site],
    pred: &dyn Fn(&FieldDef) -> bool,
) -> Option<(Site, FieldDef)> {
    let mut c: Vec<(Site, FieldDef)> = Vec::new();
    for s in sites {
        for f in fields_of(flat, s) {
            if pred(f) {
                c.push((s.clone(), f.clone()));
            }
        }
    }
    if c.is_empty() {
        None
    } else {
        Some(c[rng.below(c.len())].clone())
    }
}

fn add_var(doc: &mut Doc, def: usize, v: VarDef) {
    if let Def::Op(o) = &mut doc.defs[def] {
        o.vars.push(v);
        o.shorthand = false;
    }
}

fn var(name: &str, ty: TyRef, default: Option<Val>) -> VarDef {
    VarDef { name: name.to_string(), ty, default, dirs: vec![] }
}

/// Push `@include(if: <v>)` (or `@skip`) on a fresh `__typename` selection at `site`.
fn add_conditional(rng: &mut Rng, doc: &mut Doc, site: &Site, v: Val) {
    let name = if rng.bool() { "include" } else { "skip" };
    let alias = fresh(rng, "zt");
    list_mut(doc, site).push(Sel::Field {
        alias: Some(alias),
        name: "__typename".into(),
        args: vec![],
        dirs: vec![dir(name, vec![("if", v)])],
        sels: vec![],
    });
}

/// The name of a fragment that is spread somewhere reachable: an existing one, or a new
/// `fragment ZFn on P { __typename }` spread at a plain site with parent `P`.
fn ensure_fragment(rng: &mut Rng, flat: &FlatSchema, doc: &mut Doc) -> Option<String> {
    let existing: Vec<String> = doc.frags().map(|f| f.name.clone()).collect();
    if !existing.is_empty() && rng.chance(2, 3) {
        return Some(rng.pick(&existing).clone());
    }
    let ps = op_sites(flat, doc);
    let site = pick_site(rng, &ps)?.clone();
    let name = fresh(rng, "ZF");
    let on = site.parent.clone()?;
    list_mut(doc, &site).push(Sel::Spread { name: name.clone(), dirs: vec![] });
    doc.defs.push(Def::Frag(FragDef { name: name.clone(), on, dirs: vec![], sels: vec![typename()] }));
    Some(name)
}

/// A literal that is NOT valid for `ty`, or `None` if every literal is (nullable custom scalar).
pub fn invalid_const(rng: &mut Rng, flat: &FlatSchema, ty: &TyRef) -> Option<Val> {
    if ty.is_non_null() && rng.chance(1, 5) {
        return Some(Val::Null);
    }
    match ty.nullable() {
        TyRef::List(item) => {
            let bad = invalid_const(rng, flat, &item)?;
            Some(match rng.below(3) {
                0 if !matches!(bad, Val::Null | Val::List(_)) => bad,
                1 => Val::List(vec![valid_const(rng, flat, &item, 1, false), bad]),
                _ => Val::List(vec![bad]),
            })
        }
        TyRef::Named(n) => {
            let pick = |rng: &mut Rng, xs: Vec<Val>| xs[rng.below(xs.len())].clone();
            match n.as_str() {
                "Int" => Some(pick(
                    rng,
                    vec![
                        Val::Str("1".into()),
                        Val::Float("1.5".into()),
                        Val::Int(2147483648),
                        Val::Int(-2147483649),
                        Val::Bool(true),
                        Val::Enum("ZZ".into()),
                        Val::List(vec![Val::Int(1)]),
                        Val::Obj(vec![("a".into(), Val::Int(1))]),
                    ],
                )),
                "Float" => Some(pick(rng, vec![Val::Str("1.5".into()), Val::Bool(false), Val::Enum("ZZ".into()), Val::List(vec![Val::Float("1.5".into())])])),
                "String" => Some(pick(rng, vec![Val::Int(1), Val::Bool(true), Val::Enum("ZZ".into()), Val::Float("1.5".into()), Val::List(vec![Val::Str("s".into())])])),
                "Boolean" => Some(pick(rng, vec![Val::Int(0), Val::Str("true".into()), Val::Enum("YES".into()), Val::List(vec![Val::Bool(true)])])),
                "ID" => Some(pick(rng, vec![Val::Float("1.5".into()), Val::Bool(true), Val::Enum("ZZ".into()), Val::Obj(vec![])])),
                _ => {
                    let t = flat.ty(&n)?;
                    match t.kind {
                        Kind::Enum => Some(pick(
                            rng,
                            vec![
                                Val::Str(t.values[0].name.clone()),
                                Val::Enum("ZZ_NOT_A_VALUE".into()),
                                Val::Int(1),
                                Val::Bool(true),
                                Val::List(vec![Val::Enum(t.values[0].name.clone())]),
                            ],
                        )),
                        Kind::Input => {
                            let mut good = loop {
                                if let Val::Obj(fs) = valid_const(rng, flat, &TyRef::named(&n).non_null(), 2, false) {
                                    break fs;
                                }
                            };
                            let required: Vec<usize> = good
                                .iter()
                                .enumerate()
                                .filter(|(_, (k, _))| {
                                    t.input_fields.iter().any(|f| f.name == *k && f.ty.is_non_null() && f.default.is_none())
                                })
                                .map(|(i, _)| i)
                                .collect();
                            Some(match rng.below(5) {
                                0 => Val::Int(1),
                                1 => Val::Str("x".into()),
                                2 if !required.is_empty() => {
                                    good.remove(*rng.pick(&required));
                                    Val::Obj(good)
                                }
                                3 => {
                                    let f = rng.pick(&t.input_fields).clone();
                                    match invalid_const(rng, flat, &f.ty) {
                                        Some(bad) => {
                                            good.retain(|(k, _)| *k != f.name);
                                            good.push((f.name.clone(), bad));
                                            Val::Obj(good)
                                        }
                                        None => Val::Bool(true),
                                    }
                                }
                                _ => {
                                    good.push(("zz_undefined_field".into(), Val::Int(1)));
                                    Val::Obj(good)
                                }
                            })
                        }
                        _ => {
                            if ty.is_non_null() {
                                Some(Val::Null)
                            } else {
                                None
                            }
                        }
                    }
                }
            }
        }
        TyRef::NonNull(_) => None,
    }
}

fn is_custom_scalar(flat: &FlatSchema, n: &str) -> bool {
    flat.kind(n) == Some(Kind::Scalar) && !BUILTIN_SCALARS.contains(&n)
}

/// A value for an argument of type `ty` that holds `$name` in a nested position, together with
/// the type a variable must have to be allowed exactly there.
/// Returns (value, exact location type of the variable, "list" | "object").
fn nested_var_value(rng: &mut Rng, flat: &FlatSchema, ty: &TyRef, name: &str) -> Option<(Val, TyRef, &'static str)> {
    match ty.nullable() {
        TyRef::List(item) => {
            if is_custom_scalar(flat, item.inner_name()) && item.list_depth() == 0 {
                // fine: the entries of a list of scalars are typed by the scalar
            }
            let mut items = Vec::new();
            if rng.bool() {
                let c = valid_const(rng, flat, &item.clone().non_null(), 1, false);
                // a single value coerced to an inner list would change the nesting: keep real items
                if !(matches!(item.nullable(), TyRef::List(_)) && !matches!(c, Val::List(_))) {
                    items.push(c);
                }
            }
            items.push(Val::Var(name.to_string()));
            Some((Val::List(items), *item, "list"))
        }
        TyRef::Named(n) if flat.kind(&n) == Some(Kind::Input) => {
            let t = flat.ty(&n)?;
            let f = rng.pick(&t.input_fields).clone();
            let mut fields = vec![(f.name.clone(), Val::Var(name.to_string()))];
            for g in &t.input_fields {
                if g.name != f.name && g.ty.is_non_null() && g.default.is_none() {
                    fields.push((g.name.clone(), valid_const(rng, flat, &g.ty, 1, false)));
                }
            }
            // a location with a default accepts a nullable variable: report the type without `!`
            let loc = if f.default.is_some() { f.ty.nullable() } else { f.ty.clone() };
            Some((Val::Obj(fields), loc, "object"))
        }
        _ => None,
    }
}

fn nestable(flat: &FlatSchema, f: &FieldDef) -> bool {
    f.args.iter().any(|a| match a.ty.nullable() {
        TyRef::List(_) => true,
        TyRef::Named(n) => flat.kind(&n) == Some(Kind::Input),
        _ => false,
    })
}

/// Add, at a site inside an operation, a new selection of a field with a list- or input-typed
/// argument holding `$zv` nested; `retype` turns the exact location type into the variable's type.
fn add_nested_var_use(
    rng: &mut Rng,
    flat: &FlatSchema,
    doc: &mut Doc,
    define: bool,
    retype: &dyn Fn(&mut Rng, &TyRef) -> Option<TyRef>,
) -> Option<()> {
    let ss = op_sites(flat, doc);
    let (site, f) = site_with_field(rng, flat, &ss, &|f| nestable(flat, f))?;
    let cands: Vec<&InputDef> = f
        .args
        .iter()
        .filter(|a| match a.ty.nullable() {
            TyRef::List(_) => true,
            TyRef::Named(n) => flat.kind(&n) == Some(Kind::Input),
            _ => false,
        })
        .collect();
    let a = (*rng.pick(&cands)).clone();
    let vname = fresh(rng, "zv");
    let (val, loc, _) = nested_var_value(rng, flat, &a.ty, &vname)?;
    let vty = retype(rng, &loc)?;
    let alias = fresh(rng, "zn");
    let mut sel = select(rng, flat, &f, &alias);
    if let Sel::Field { args, .. } = &mut sel {
        args.retain(|(n, _)| *n != a.name);
        args.push((a.name.clone(), val));
    }
    list_mut(doc, &site).push(sel);
    if define {
        add_var(doc, site.def, var(&vname, vty, None));
    }
    Some(())
}

// ---------------------------------------------------------------------------------------------
// The families
// ---------------------------------------------------------------------------------------------

pub fn mutate(family: &str, rng: &mut Rng, flat: &FlatSchema, doc: &Doc) -> Option<Doc> {
    let mut d = doc.clone();
    let ok = apply(family, rng, flat, &mut d);
    ok.map(|_| d)
}

fn name_all_ops(doc: &mut Doc) {
    let mut n = 0;
    for def in doc.defs.iter_mut() {
        if let Def::Op(o) = def {
            if o.name.is_none() {
                n += 1;
                o.name = Some(format!("ZAnon{n}"));
            }
        }
    }
}

fn op_indices(doc: &Doc) -> Vec<usize> {
    doc.defs.iter().enumerate().filter(|(_, d)| matches!(d, Def::Op(_))).map(|(i, _)| i).collect()
}

fn apply(family: &str, rng: &mut Rng, flat: &FlatSchema, doc: &mut Doc) -> Option<()> {
    let boolean_nn = TyRef::named("Boolean").non_null();
    match family {
        R::EXECUTABLE_DEFINITIONS => {
            let def = match rng.below(3) {
                0 => {
                    let mut t = TypeDef::new(Kind::Object, "ZzExtra");
                    t.fields.push(FieldDef { desc: None, name: "x".into(), args: vec![], ty: TyRef::named("Int"), dirs: vec![] });
                    Def::Type(t)
                }
                1 => Def::Type(TypeDef::new(Kind::Scalar, "ZzScalar")),
                _ => Def::Directive(DirectiveDef { desc: None, name: "zzdir".into(), args: vec![], repeatable: false, locations: vec!["FIELD".into()] }),
            };
            let i = rng.below(doc.defs.len() + 1);
            doc.defs.insert(i, def);
        }
        R::OPERATION_NAME_UNIQUENESS => {
            let ops = op_indices(doc);
            let i = *rng.pick(&ops);
            if let Def::Op(o) = &mut doc.defs[i] {
                if o.name.is_none() {
                    o.name = Some("ZDup".into());
                }
            }
            let c = doc.defs[i].clone();
            doc.defs.push(c);
        }
        R::LONE_ANONYMOUS_OPERATION => {
            let ops = op_indices(doc);
            if ops.len() >= 2 && rng.bool() {
                let i = *rng.pick(&ops);
                if let Def::Op(o) = &mut doc.defs[i] {
                    o.name = None;
                }
            } else {
                let i = *rng.pick(&ops);
                let mut c = doc.defs[i].clone();
                if let Def::Op(o) = &mut c {
                    o.name = None;
                }
                if rng.bool() {
                    if let Def::Op(o) = &mut doc.defs[i] {
                        if o.name.is_none() {
                            o.name = Some("ZNamed".into());
                        }
                    }
                }
                doc.defs.push(c);
            }
        }
        R::UNDEFINED_ROOT_OPERATION_TYPE => {
            let mut kinds = Vec::new();
            if flat.mutation.is_none() {
                kinds.push("mutation");
            }
            if flat.subscription.is_none() {
                kinds.push("subscription");
            }
            if kinds.is_empty() {
                return None;
            }
            name_all_ops(doc);
            doc.defs.push(Def::Op(OpDef {
                kind: rng.pick_str(&kinds).to_string(),
                name: Some("ZUndefRoot".into()),
                vars: vec![],
                dirs: vec![],
                sels: vec![typename()],
                shorthand: false,
            }));
        }
        R::SINGLE_ROOT_FIELD => {
            let subs: Vec<usize> = op_indices(doc)
                .into_iter()
                .filter(|i| matches!(&doc.defs[*i], Def::Op(o) if o.kind == "subscription"))
                .collect();
            if subs.is_empty() {
                return None;
            }
            let i = *rng.pick(&subs);
            let Def::Op(o) = &mut doc.defs[i] else { return None };
            let root = flat.root("subscription")?.to_string();
            let first = o.sels.first().cloned()?;
            let extra = match (&first, rng.below(4)) {
                (_, 0) => typename(),
                (Sel::Field { name, args, sels, .. }, _) => {
                    Sel::Field { alias: Some(fresh(rng, "zr")), name: name.clone(), args: args.clone(), dirs: vec![], sels: sels.clone() }
                }
                _ => typename(),
            };
            match rng.below(4) {
                0 => o.sels.push(extra),
                1 => o.sels.push(Sel::Inline { on: None, dirs: vec![], sels: vec![extra] }),
                2 => o.sels.push(Sel::Inline { on: Some(root), dirs: vec![], sels: vec![extra] }),
                _ => {
                    let name = fresh(rng, "ZR");
                    o.sels.push(Sel::Spread { name: name.clone(), dirs: vec![] });
                    doc.defs.push(Def::Frag(FragDef { name, on: root, dirs: vec![], sels: vec![extra] }));
                }
            }
        }
        R::SUBSCRIPTION_SKIP_INCLUDE => {
            let subs: Vec<usize> = op_indices(doc)
                .into_iter()
                .filter(|i| matches!(&doc.defs[*i], Def::Op(o) if o.kind == "subscription"))
                .collect();
            if subs.is_empty() {
                return None;
            }
            let i = *rng.pick(&subs);
            let Def::Op(o) = &mut doc.defs[i] else { return None };
            let d = if rng.bool() { dir("skip", vec![("if", Val::Bool(false))]) } else { dir("include", vec![("if", Val::Bool(true))]) };
            if rng.chance(1, 4) {
                // move the root selections into a named fragment whose first selection is conditional
                let root = flat.root("subscription")?.to_string();
                let mut inner = std::mem::take(&mut o.sels);
                match inner.first_mut()? {
                    Sel::Field { dirs, .. } | Sel::Spread { dirs, .. } | Sel::Inline { dirs, .. } => {
                        dirs.retain(|x| x.name != d.name);
                        dirs.push(d)
                    }
                }
                let name = fresh(rng, "ZS");
                o.sels.push(Sel::Spread { name: name.clone(), dirs: vec![] });
                doc.defs.push(Def::Frag(FragDef { name, on: root, dirs: vec![], sels: inner }));
            } else if rng.chance(1, 3) {
                // wrap the root selections into a conditional inline fragment
                let inner = std::mem::take(&mut o.sels);
                o.sels.push(Sel::Inline { on: None, dirs: vec![d], sels: inner });
            } else {
                match o.sels.first_mut()? {
                    Sel::Field { dirs, .. } | Sel::Spread { dirs, .. } | Sel::Inline { dirs, .. } => {
                        dirs.retain(|x| x.name != d.name);
                        dirs.push(d)
                    }
                }
            }
        }
        R::FIELDS_ON_CORRECT_TYPE => {
            let ss = plain_sites(flat, doc);
            let site = pick_site(rng, &ss)?.clone();
            let parent = site.parent.clone()?;
            let is_query_root = flat.query.as_deref() == Some(parent.as_str());
            let sel = match rng.below(4) {
                0 if !is_query_root => Sel::Field { alias: None, name: "__schema".into(), args: vec![], dirs: vec![], sels: vec![typename()] },
                1 if !is_query_root => Sel::Field {
                    alias: None,
                    name: "__type".into(),
                    args: vec![("name".into(), Val::Str("Query".into()))],
                    dirs: vec![],
                    sels: vec![typename()],
                },
                2 => {
                    // a leaf field of another type
                    let others: Vec<String> = flat
                        .types
                        .iter()
                        .filter(|t| t.name != parent)
                        .flat_map(|t| t.fields.iter())
                        .filter(|f| flat.is_leaf(f.ty.inner_name()) && f.args.is_empty())
                        .map(|f| f.name.clone())
                        .filter(|n| flat.field(&parent, n).is_none())
                        .collect();
                    if others.is_empty() {
                        leaf(None, "zz_undefined")
                    } else {
                        { let a = fresh(rng, "zo"); let n = rng.pick(&others).clone(); leaf(Some(a), &n) }
                    }
                }
                _ => leaf(None, "zz_undefined"),
            };
            list_mut(doc, &site).push(sel);
        }
        R::OVERLAPPING_FIELDS => return overlapping(rng, flat, doc),
        R::SCALAR_LEAFS => {
            let ss = plain_sites(flat, doc);
            if rng.bool() {
                let (site, f) = site_with_field(rng, flat, &ss, &|f| flat.is_leaf(f.ty.inner_name()))?;
                let mut sel = select_fresh(rng, flat, &f, "zl");
                if let Sel::Field { sels, .. } = &mut sel {
                    sels.push(if rng.bool() { typename() } else { leaf(None, "zz") });
                }
                list_mut(doc, &site).push(sel);
            } else {
                let (site, f) = site_with_field(rng, flat, &ss, &|f| flat.is_composite(f.ty.inner_name()))?;
                let mut sel = select_fresh(rng, flat, &f, "zl");
                if let Sel::Field { sels, .. } = &mut sel {
                    sels.clear();
                }
                list_mut(doc, &site).push(sel);
            }
        }
        R::KNOWN_ARGUMENT_NAMES => {
            let ss = plain_sites(flat, doc);
            if rng.chance(2, 3) {
                let (site, f) = site_with_field(rng, flat, &ss, &|_| true)?;
                let mut sel = select_fresh(rng, flat, &f, "za");
                if let Sel::Field { args, .. } = &mut sel {
                    args.push(("zz_unknown".into(), Val::Int(1)));
                }
                list_mut(doc, &site).push(sel);
            } else {
                let site = pick_site(rng, &ss)?.clone();
                list_mut(doc, &site).push(Sel::Field {
                    alias: Some(fresh(rng, "za")),
                    name: "__typename".into(),
                    args: vec![],
                    dirs: vec![dir("include", vec![("if", Val::Bool(true)), ("zz_unknown", Val::Int(1))])],
                    sels: vec![],
                });
            }
        }
        R::UNIQUE_ARGUMENT_NAMES => {
            let ss = plain_sites(flat, doc);
            if rng.chance(2, 3) {
                let (site, f) = site_with_field(rng, flat, &ss, &|f| !f.args.is_empty())?;
                let mut sel = select_fresh(rng, flat, &f, "zu");
                if let Sel::Field { args, .. } = &mut sel {
                    if args.is_empty() {
                        let a = &f.args[0];
                        args.push((a.name.clone(), valid_const(rng, flat, &a.ty, 1, false)));
                    }
                    let c = args[0].clone();
                    let at = rng.below(args.len() + 1);
                    args.insert(at, c);
                }
                list_mut(doc, &site).push(sel);
            } else {
                let site = pick_site(rng, &ss)?.clone();
                list_mut(doc, &site).push(Sel::Field {
                    alias: Some(fresh(rng, "zu")),
                    name: "__typename".into(),
                    args: vec![],
                    dirs: vec![dir("include", vec![("if", Val::Bool(true)), ("if", Val::Bool(true))])],
                    sels: vec![],
                });
            }
        }
        R::PROVIDED_REQUIRED_ARGUMENTS => {
            let ss = plain_sites(flat, doc);
            if rng.chance(2, 3) {
                let (site, f) = site_with_field(rng, flat, &ss, &has_required)?;
                let mut sel = select_fresh(rng, flat, &f, "zq");
                let req: Vec<String> = f.args.iter().filter(|a| a.ty.is_non_null() && a.default.is_none()).map(|a| a.name.clone()).collect();
                let victim = rng.pick(&req).clone();
                if let Sel::Field { args, .. } = &mut sel {
                    args.retain(|(n, _)| *n != victim);
                }
                list_mut(doc, &site).push(sel);
            } else {
                let site = pick_site(rng, &ss)?.clone();
                list_mut(doc, &site).push(Sel::Field {
                    alias: Some(fresh(rng, "zq")),
                    name: "__typename".into(),
                    args: vec![],
                    dirs: vec![dir(if rng.bool() { "skip" } else { "include" }, vec![])],
                    sels: vec![],
                });
            }
        }
        R::FRAGMENT_NAME_UNIQUENESS => {
            let name = ensure_fragment(rng, flat, doc)?;
            let c = doc.defs.iter().find(|d| matches!(d, Def::Frag(f) if f.name == name))?.clone();
            let at = rng.below(doc.defs.len() + 1);
            doc.defs.insert(at, c);
        }
        R::FRAGMENT_TYPE_EXISTENCE => {
            let ss = op_sites(flat, doc);
            let site = pick_site(rng, &ss)?.clone();
            if rng.bool() {
                list_mut(doc, &site).push(Sel::Inline { on: Some("ZzUndefinedType".into()), dirs: vec![], sels: vec![typename()] });
            } else {
                let name = fresh(rng, "ZU");
                list_mut(doc, &site).push(Sel::Spread { name: name.clone(), dirs: vec![] });
                doc.defs.push(Def::Frag(FragDef { name, on: "ZzUndefinedType".into(), dirs: vec![], sels: vec![typename()] }));
            }
        }
        R::FRAGMENTS_ON_COMPOSITE_TYPES => {
            let ss = op_sites(flat, doc);
            let site = pick_site(rng, &ss)?.clone();
            let non_composite: Vec<String> = flat.types.iter().filter(|t| !flat.is_composite(&t.name)).map(|t| t.name.clone()).collect();
            let on = rng.pick(&non_composite).clone();
            if rng.bool() {
                list_mut(doc, &site).push(Sel::Inline { on: Some(on), dirs: vec![], sels: vec![typename()] });
            } else {
                let name = fresh(rng, "ZC");
                list_mut(doc, &site).push(Sel::Spread { name: name.clone(), dirs: vec![] });
                doc.defs.push(Def::Frag(FragDef { name, on, dirs: vec![], sels: vec![typename()] }));
            }
        }
        R::NO_UNUSED_FRAGMENTS => {
            let on = flat.query.clone()?;
            let at = rng.below(doc.defs.len() + 1);
            doc.defs.insert(at, Def::Frag(FragDef { name: fresh(rng, "ZUnused"), on, dirs: vec![], sels: vec![typename()] }));
        }
        R::KNOWN_FRAGMENT_NAMES => {
            let ss = plain_sites(flat, doc);
            let site = pick_site(rng, &ss)?.clone();
            list_mut(doc, &site).push(Sel::Spread { name: "ZzUndefinedFragment".into(), dirs: vec![] });
        }
        R::NO_FRAGMENT_CYCLES => {
            let name = ensure_fragment(rng, flat, doc)?;
            let fi = doc.defs.iter().position(|d| matches!(d, Def::Frag(f) if f.name == name))?;
            let on = match &doc.defs[fi] {
                Def::Frag(f) => f.on.clone(),
                _ => return None,
            };
            let spread = Sel::Spread { name: name.clone(), dirs: vec![] };
            let through_field: Option<FieldDef> = flat
                .ty(&on)
                .and_then(|t| t.fields.iter().find(|h| !has_required(h) && h.ty.inner_name() == on).cloned());
            match rng.below(5) {
                4 if through_field.is_some() => {
                    let h = through_field.unwrap();
                    let alias = fresh(rng, "zh");
                    if let Def::Frag(f) = &mut doc.defs[fi] {
                        f.sels.push(Sel::Field { alias: Some(alias), name: h.name.clone(), args: vec![], dirs: vec![], sels: vec![spread] });
                    }
                }
                0 | 4 => {
                    if let Def::Frag(f) = &mut doc.defs[fi] {
                        f.sels.push(spread);
                    }
                }
                1 => {
                    if let Def::Frag(f) = &mut doc.defs[fi] {
                        f.sels.push(Sel::Inline { on: None, dirs: vec![], sels: vec![spread] });
                    }
                }
                2 => {
                    if let Def::Frag(f) = &mut doc.defs[fi] {
                        f.sels.push(Sel::Inline { on: Some(on), dirs: vec![], sels: vec![Sel::Inline { on: None, dirs: vec![], sels: vec![spread] }] });
                    }
                }
                _ => {
                    let g = fresh(rng, "ZG");
                    if let Def::Frag(f) = &mut doc.defs[fi] {
                        f.sels.push(Sel::Spread { name: g.clone(), dirs: vec![] });
                    }
                    let inner = if rng.bool() { spread } else { Sel::Inline { on: None, dirs: vec![], sels: vec![spread] } };
                    doc.defs.push(Def::Frag(FragDef { name: g, on, dirs: vec![], sels: vec![inner] }));
                }
            }
        }
        R::POSSIBLE_FRAGMENT_SPREADS => {
            let ss = op_sites(flat, doc);
            let mut c: Vec<(Site, String)> = Vec::new();
            for s in &ss {
                let p = s.parent.clone()?;
                let mine = flat.possible_types(&p);
                for t in flat.types.iter().filter(|t| flat.is_composite(&t.name) && !t.name.starts_with("__")) {
                    if t.name != p && !flat.possible_types(&t.name).iter().any(|x| mine.contains(x)) {
                        c.push((s.clone(), t.name.clone()));
                    }
                }
            }
            if c.is_empty() {
                return None;
            }
            let (site, on) = c[rng.below(c.len())].clone();
            if rng.bool() {
                list_mut(doc, &site).push(Sel::Inline { on: Some(on), dirs: vec![], sels: vec![typename()] });
            } else {
                let name = fresh(rng, "ZP");
                list_mut(doc, &site).push(Sel::Spread { name: name.clone(), dirs: vec![] });
                doc.defs.push(Def::Frag(FragDef { name, on, dirs: vec![], sels: vec![typename()] }));
            }
        }
        R::VALUES_OF_CORRECT_TYPE => {
            match rng.below(4) {
                0 => {
                    let ss = plain_sites(flat, doc);
                    let site = pick_site(rng, &ss)?.clone();
                    let bad = invalid_const(rng, flat, &TyRef::named("Boolean"))?;
                    add_conditional(rng, doc, &site, bad);
                }
                1 => {
                    // invalid default value of a used variable
                    let ss = op_sites(flat, doc);
                    let site = pick_site(rng, &ss)?.clone();
                    let v = fresh(rng, "zd");
                    let bad = invalid_const(rng, flat, &TyRef::named("Boolean"))?;
                    add_var(doc, site.def, var(&v, TyRef::named("Boolean"), Some(bad)));
                    add_conditional(rng, doc, &site, Val::Var(v));
                }
                _ => {
                    let ss = plain_sites(flat, doc);
                    let (site, f) = site_with_field(rng, flat, &ss, &|f| !f.args.is_empty())?;
                    let mut order: Vec<&InputDef> = f.args.iter().collect();
                    rng.shuffle(&mut order);
                    let (a, bad) = order.into_iter().find_map(|a| invalid_const(rng, flat, &a.ty).map(|b| (a.clone(), b)))?;
                    let mut sel = select_fresh(rng, flat, &f, "zw");
                    if let Sel::Field { args, .. } = &mut sel {
                        args.retain(|(n, _)| *n != a.name);
                        args.push((a.name.clone(), bad));
                    }
                    list_mut(doc, &site).push(sel);
                }
            }
        }
        R::UNIQUE_INPUT_FIELD_NAMES => {
            let ss = plain_sites(flat, doc);
            let objish = |a: &InputDef| {
                let n = a.ty.inner_name();
                flat.kind(n) == Some(Kind::Input) || is_custom_scalar(flat, n)
            };
            let (site, f) = site_with_field(rng, flat, &ss, &|f| f.args.iter().any(objish))?;
            let cands: Vec<&InputDef> = f.args.iter().filter(|a| objish(a)).collect();
            let a = (*rng.pick(&cands)).clone();
            let n = a.ty.inner_name().to_string();
            let mut fields = if flat.kind(&n) == Some(Kind::Input) {
                loop {
                    if let Val::Obj(fs) = valid_const(rng, flat, &TyRef::named(&n).non_null(), 2, false) {
                        break fs;
                    }
                }
            } else {
                vec![("k".to_string(), Val::Int(1))]
            };
            if fields.is_empty() {
                let t = flat.ty(&n)?;
                let g = rng.pick(&t.input_fields).clone();
                fields.push((g.name.clone(), valid_const(rng, flat, &g.ty, 1, false)));
            }
            let dup = fields[rng.below(fields.len())].clone();
            let at = rng.below(fields.len() + 1);
            fields.insert(at, dup);
            let mut v = Val::Obj(fields);
            for _ in 0..a.ty.list_depth() {
                v = Val::List(vec![v]);
            }
            let mut sel = select_fresh(rng, flat, &f, "zi");
            if let Sel::Field { args, .. } = &mut sel {
                args.retain(|(k, _)| *k != a.name);
                args.push((a.name.clone(), v));
            }
            list_mut(doc, &site).push(sel);
        }
        R::KNOWN_DIRECTIVES => {
            let ss = plain_sites(flat, doc);
            let site = pick_site(rng, &ss)?.clone();
            match rng.below(6) {
                4 | 5 => {
                    // an undefined directive (or @skip in a wrong place) on a definition, a
                    // variable definition, a spread or an inline fragment
                    let d = if rng.bool() { dir("zzUndefinedDirective", vec![]) } else { dir("deprecated", vec![]) };
                    match rng.below(4) {
                        0 => match &mut doc.defs[site.def] {
                            Def::Op(o) => {
                                o.dirs.push(d);
                                o.shorthand = false;
                            }
                            Def::Frag(f) => f.dirs.push(d),
                            _ => {}
                        },
                        1 => {
                            let ops = op_indices(doc);
                            let with_vars: Vec<usize> = ops.into_iter().filter(|i| matches!(&doc.defs[*i], Def::Op(o) if !o.vars.is_empty())).collect();
                            if with_vars.is_empty() {
                                return None;
                            }
                            let i = *rng.pick(&with_vars);
                            if let Def::Op(o) = &mut doc.defs[i] {
                                let j = rng.below(o.vars.len());
                                o.vars[j].dirs.push(if rng.bool() { d } else { dir("skip", vec![("if", Val::Bool(true))]) });
                            }
                        }
                        2 => list_mut(doc, &site).push(Sel::Inline { on: None, dirs: vec![d], sels: vec![typename()] }),
                        _ => {
                            let name = ensure_fragment(rng, flat, doc)?;
                            let on = doc.frags().find(|f| f.name == name)?.on.clone();
                            let ss2: Vec<Site> = plain_sites(flat, doc).into_iter().filter(|s| s.parent.as_deref() == Some(on.as_str()) && s.def != doc.defs.iter().position(|x| matches!(x, Def::Frag(f) if f.name == name)).unwrap_or(usize::MAX)).collect();
                            let site2 = pick_site(rng, &ss2)?.clone();
                            list_mut(doc, &site2).push(Sel::Spread { name, dirs: vec![d] });
                        }
                    }
                }
                0 => {
                    // wrong location: @skip on an operation or a fragment definition
                    let cond = dir("skip", vec![("if", Val::Bool(false))]);
                    match &mut doc.defs[site.def] {
                        Def::Op(o) => {
                            o.dirs.push(cond);
                            o.shorthand = false;
                        }
                        Def::Frag(f) => f.dirs.push(cond),
                        _ => {}
                    }
                }
                1 => {
                    let alias = fresh(rng, "zk");
                    list_mut(doc, &site).push(Sel::Field {
                        alias: Some(alias),
                        name: "__typename".into(),
                        args: vec![],
                        dirs: vec![dir("deprecated", vec![])],
                        sels: vec![],
                    });
                }
                _ => {
                    let alias = fresh(rng, "zk");
                    list_mut(doc, &site).push(Sel::Field {
                        alias: Some(alias),
                        name: "__typename".into(),
                        args: vec![],
                        dirs: vec![dir("zzUndefinedDirective", vec![])],
                        sels: vec![],
                    });
                }
            }
        }
        R::UNIQUE_DIRECTIVES_PER_LOCATION if rng.bool() => {
            // a custom non-repeatable directive twice at one of its own locations
            let ss = plain_sites(flat, doc);
            let site = pick_site(rng, &ss)?.clone();
            let cands: Vec<&DirectiveDef> = flat
                .directives
                .iter()
                .filter(|d| !d.repeatable && !matches!(d.name.as_str(), "skip" | "include" | "deprecated" | "specifiedBy"))
                .filter(|d| d.locations.iter().any(|l| matches!(l.as_str(), "QUERY" | "MUTATION" | "SUBSCRIPTION" | "FIELD" | "FRAGMENT_DEFINITION" | "INLINE_FRAGMENT" | "VARIABLE_DEFINITION")))
                .collect();
            if cands.is_empty() {
                return None;
            }
            let d = (*rng.pick(&cands)).clone();
            let mk = |rng: &mut Rng| DirApp {
                name: d.name.clone(),
                args: d
                    .args
                    .iter()
                    .filter(|a| a.ty.is_non_null() && a.default.is_none())
                    .map(|a| (a.name.clone(), valid_const(rng, flat, &a.ty, 2, false)))
                    .collect(),
            };
            let two = vec![mk(rng), mk(rng)];
            let mut locs: Vec<&str> = d.locations.iter().map(|l| l.as_str()).collect();
            rng.shuffle(&mut locs);
            for l in locs {
                match (l, &mut doc.defs[site.def]) {
                    ("QUERY", Def::Op(o)) if o.kind == "query" => {
                        o.dirs.retain(|x| x.name != d.name);
                        o.dirs.extend(two);
                        o.shorthand = false;
                        return Some(());
                    }
                    ("MUTATION", Def::Op(o)) if o.kind == "mutation" => {
                        o.dirs.retain(|x| x.name != d.name);
                        o.dirs.extend(two);
                        return Some(());
                    }
                    ("SUBSCRIPTION", Def::Op(o)) if o.kind == "subscription" => {
                        o.dirs.retain(|x| x.name != d.name);
                        o.dirs.extend(two);
                        return Some(());
                    }
                    ("FRAGMENT_DEFINITION", Def::Frag(f)) => {
                        f.dirs.retain(|x| x.name != d.name);
                        f.dirs.extend(two);
                        return Some(());
                    }
                    ("VARIABLE_DEFINITION", Def::Op(o)) if !o.vars.is_empty() => {
                        let j = rng.below(o.vars.len());
                        o.vars[j].dirs.retain(|x| x.name != d.name);
                        o.vars[j].dirs.extend(two);
                        return Some(());
                    }
                    ("FIELD", _) => {
                        let alias = fresh(rng, "zx");
                        list_mut(doc, &site).push(Sel::Field { alias: Some(alias), name: "__typename".into(), args: vec![], dirs: two, sels: vec![] });
                        return Some(());
                    }
                    ("INLINE_FRAGMENT", _) => {
                        list_mut(doc, &site).push(Sel::Inline { on: None, dirs: two, sels: vec![typename()] });
                        return Some(());
                    }
                    _ => {}
                }
            }
            return None;
        }
        R::UNIQUE_DIRECTIVES_PER_LOCATION => {
            let ss = plain_sites(flat, doc);
            let site = pick_site(rng, &ss)?.clone();
            let a = dir("include", vec![("if", Val::Bool(true))]);
            let b = if rng.bool() { a.clone() } else { dir("include", vec![("if", Val::Bool(false))]) };
            let alias = fresh(rng, "zx");
            list_mut(doc, &site).push(Sel::Field { alias: Some(alias), name: "__typename".into(), args: vec![], dirs: vec![a, b], sels: vec![] });
        }
        R::UNIQUE_VARIABLE_NAMES => {
            let with_vars: Vec<usize> = op_indices(doc).into_iter().filter(|i| matches!(&doc.defs[*i], Def::Op(o) if !o.vars.is_empty())).collect();
            if !with_vars.is_empty() && rng.chance(2, 3) {
                let i = *rng.pick(&with_vars);
                if let Def::Op(o) = &mut doc.defs[i] {
                    let j = rng.below(o.vars.len());
                    let c = o.vars[j].clone();
                    o.vars.push(c);
                }
            } else {
                let ss = op_sites(flat, doc);
                let site = pick_site(rng, &ss)?.clone();
                let v = fresh(rng, "zb");
                add_var(doc, site.def, var(&v, boolean_nn.clone(), None));
                add_var(doc, site.def, var(&v, boolean_nn.clone(), None));
                add_conditional(rng, doc, &site, Val::Var(v));
            }
        }
        R::VARIABLES_ARE_INPUT_TYPES => {
            let ss = op_sites(flat, doc);
            let site = pick_site(rng, &ss)?.clone();
            let v = fresh(rng, "zo");
            let outputs: Vec<String> = flat.types.iter().filter(|t| flat.is_composite(&t.name)).map(|t| t.name.clone()).collect();
            let ty = if rng.bool() { "ZzUndefinedType".to_string() } else { rng.pick(&outputs).clone() };
            add_var(doc, site.def, var(&v, TyRef::named(&ty), None));
            add_conditional(rng, doc, &site, Val::Var(v));
        }
        R::NO_UNDEFINED_VARIABLES => {
            if rng.bool() {
                let ss = plain_sites(flat, doc);
                let site = pick_site(rng, &ss)?.clone();
                add_conditional(rng, doc, &site, Val::Var("zzUndefined".into()));
            } else if rng.bool() {
                add_nested_var_use(rng, flat, doc, false, &|_, t| Some(t.clone()))?;
            } else {
                // inside an object literal given to a custom scalar, or as a plain argument
                let ss = plain_sites(flat, doc);
                let (site, f) = site_with_field(rng, flat, &ss, &|f| !f.args.is_empty())?;
                let a = rng.pick(&f.args).clone();
                let v = if is_custom_scalar(flat, a.ty.inner_name()) && a.ty.list_depth() == 0 {
                    Val::Obj(vec![("k".into(), Val::Var("zzUndefined".into()))])
                } else {
                    Val::Var("zzUndefined".into())
                };
                let mut sel = select_fresh(rng, flat, &f, "zy");
                if let Sel::Field { args, .. } = &mut sel {
                    args.retain(|(k, _)| *k != a.name);
                    args.push((a.name.clone(), v));
                }
                list_mut(doc, &site).push(sel);
            }
        }
        R::NO_UNUSED_VARIABLES => {
            let ops = op_indices(doc);
            let i = *rng.pick(&ops);
            let ty = TyRef::named(rng.pick_str(&["Int", "String", "Boolean", "ID", "Float"]));
            add_var(doc, i, var(&fresh(rng, "zzUnused"), ty, None));
        }
        R::VARIABLES_IN_ALLOWED_POSITION => {
            match rng.below(6) {
                0 | 1 | 2 => {
                    let ss = op_sites(flat, doc);
                    let site = pick_site(rng, &ss)?.clone();
                    let v = fresh(rng, "zp");
                    let def = match rng.below(4) {
                        0 => var(&v, TyRef::named("Boolean"), None),
                        1 => var(&v, TyRef::named("Boolean"), Some(Val::Null)),
                        2 => var(&v, TyRef::named("Int").non_null(), None),
                        _ => var(&v, TyRef::named("Boolean").non_null().list(), None),
                    };
                    add_var(doc, site.def, def);
                    add_conditional(rng, doc, &site, Val::Var(v));
                }
                _ => {
                    // a variable nested in a list / object literal whose type does not fit there
                    add_nested_var_use(rng, flat, doc, true, &|rng, loc| {
                        Some(match rng.below(3) {
                            // the list type where the item type is expected
                            0 => loc.clone().list(),
                            // nullable where non-null is expected (only a violation for non-null locations)
                            1 if loc.is_non_null() => loc.nullable(),
                            1 => loc.clone().list().non_null(),
                            // another named type
                            _ => {
                                let other = if loc.inner_name() == "String" { "Int" } else { "String" };
                                crate::gen::schema_gen::replace_inner(loc, other)
                            }
                        })
                    })?;
                }
            }
        }
        "Valid:DuplicateSubscriptionRootField" => {
            let subs: Vec<usize> = op_indices(doc)
                .into_iter()
                .filter(|i| matches!(&doc.defs[*i], Def::Op(o) if o.kind == "subscription"))
                .collect();
            if subs.is_empty() {
                return None;
            }
            let i = *rng.pick(&subs);
            let Def::Op(o) = &mut doc.defs[i] else { return None };
            let first = o.sels.first().cloned()?;
            match rng.below(3) {
                0 => o.sels.push(first),
                1 => o.sels.push(Sel::Inline { on: None, dirs: vec![], sels: vec![first] }),
                _ => {
                    let inner = std::mem::take(&mut o.sels);
                    o.sels.push(Sel::Inline { on: None, dirs: vec![], sels: inner });
                }
            }
        }
        "Valid:SameTypeSpread" => {
            let ss = plain_sites(flat, doc);
            let site = pick_site(rng, &ss)?.clone();
            let on = site.parent.clone()?;
            list_mut(doc, &site).push(Sel::Inline { on: Some(on), dirs: vec![], sels: vec![typename()] });
        }
        "Valid:ConditionlessInlineFragment" => {
            let ss: Vec<Site> = sites(flat, doc).into_iter().filter(|s| s.parent.is_some()).collect();
            let site = pick_site(rng, &ss)?.clone();
            let l = list_mut(doc, &site);
            let inner = std::mem::take(l);
            l.push(Sel::Inline { on: None, dirs: vec![], sels: inner });
        }
        "Valid:SingleValueForList" => {
            let ss = plain_sites(flat, doc);
            let listy = |a: &InputDef| a.ty.is_list() && !is_custom_scalar(flat, a.ty.inner_name());
            let (site, f) = site_with_field(rng, flat, &ss, &|f| f.args.iter().any(listy))?;
            let cands: Vec<&InputDef> = f.args.iter().filter(|a| listy(a)).collect();
            let a = (*rng.pick(&cands)).clone();
            let inner = TyRef::named(a.ty.inner_name()).non_null();
            let v = valid_const(rng, flat, &inner, 1, false);
            let mut sel = select_fresh(rng, flat, &f, "zs");
            if let Sel::Field { args, .. } = &mut sel {
                args.retain(|(k, _)| *k != a.name);
                args.push((a.name.clone(), v));
            }
            list_mut(doc, &site).push(sel);
        }
        "Valid:NestedVariables" => {
            add_nested_var_use(rng, flat, doc, true, &|rng, loc| Some(if rng.bool() { loc.clone() } else { loc.clone().non_null() }))?;
        }
        "Valid:IdenticalFieldsMerge" => {
            let ss = plain_sites(flat, doc);
            let with_fields: Vec<Site> = ss.into_iter().filter(|s| !fields_of(flat, s).is_empty()).collect();
            let (site, f) = site_with_field(rng, flat, &with_fields, &|_| true)?;
            let sel = select_fresh(rng, flat, &f, "zm");
            let l = list_mut(doc, &site);
            l.push(sel.clone());
            if rng.bool() {
                l.push(sel);
            } else {
                l.push(Sel::Inline { on: None, dirs: vec![], sels: vec![sel] });
            }
        }
        "Valid:MetaFields" => {
            let ss = plain_sites(flat, doc);
            let roots: Vec<Site> = ss.iter().filter(|s| s.parent == flat.query && s.parent.is_some()).cloned().collect();
            if !roots.is_empty() && rng.bool() {
                let site = pick_site(rng, &roots)?.clone();
                let sel = if rng.bool() {
                    Sel::Field { alias: None, name: "__schema".into(), args: vec![], dirs: vec![], sels: vec![Sel::Field { alias: None, name: "types".into(), args: vec![], dirs: vec![], sels: vec![leaf(None, "name")] }] }
                } else {
                    Sel::Field { alias: None, name: "__type".into(), args: vec![("name".into(), Val::Str("Query".into()))], dirs: vec![], sels: vec![leaf(None, "kind"), typename()] }
                };
                list_mut(doc, &site).push(sel);
            } else {
                let site = pick_site(rng, &ss)?.clone();
                list_mut(doc, &site).push(typename());
            }
        }
        "Valid:NonNullDefaultIntoNonNull" => {
            let ss = op_sites(flat, doc);
            let site = pick_site(rng, &ss)?.clone();
            let v = fresh(rng, "zd");
            add_var(doc, site.def, var(&v, TyRef::named("Boolean"), Some(Val::Bool(rng.bool()))));
            add_conditional(rng, doc, &site, Val::Var(v));
        }
        "SharedFragment:UndefinedVariableInOneOperation" => shared_fragment_variable(rng, flat, doc, false)?,
        "Valid:SharedFragmentVariables" => shared_fragment_variable(rng, flat, doc, true)?,
        "AbstractParent:ConflictWithOneObject" => abstract_parent_overlap(rng, flat, doc, false)?,
        "Valid:AbstractParentSameField" => abstract_parent_overlap(rng, flat, doc, true)?,
        "Valid:ExclusiveObjectsDifferentFields" => {
            let (site, o1, g1, o2, g2) = exclusive_pair(rng, flat, doc, true)?;
            let key = fresh(rng, "ze");
            let l = list_mut(doc, &site);
            l.push(Sel::Inline { on: Some(o1), dirs: vec![], sels: vec![select_leaf(&g1, &key)] });
            l.push(Sel::Inline { on: Some(o2), dirs: vec![], sels: vec![select_leaf(&g2, &key)] });
        }
        _ => return None,
    }
    Some(())
}

fn select_leaf(f: &FieldDef, alias: &str) -> Sel {
    Sel::Field {
        alias: Some(alias.to_string()),
        name: f.name.clone(),
        args: vec![],
        dirs: vec![],
        sels: vec![],
    }
}

/// A plain site under which two different object types are possible, with a leaf field (no
/// required argument) of each: of the same type if `same_shape`, of different shape otherwise.
fn exclusive_pair(rng: &mut Rng, flat: &FlatSchema, doc: &Doc, same_shape: bool) -> Option<(Site, String, FieldDef, String, FieldDef)> {
    let ss = op_sites(flat, doc);
    let mut c = Vec::new();
    for s in &ss {
        let p = s.parent.clone()?;
        let objs = flat.possible_types(&p);
        for a in &objs {
            for b in &objs {
                if a >= b {
                    continue;
                }
                let (ta, tb) = (flat.ty(a)?, flat.ty(b)?);
                for fa in ta.fields.iter().filter(|f| flat.is_leaf(f.ty.inner_name()) && !has_required(f)) {
                    for fb in tb.fields.iter().filter(|f| flat.is_leaf(f.ty.inner_name()) && !has_required(f)) {
                        if (fa.ty == fb.ty) == same_shape && (same_shape && fa.name != fb.name || !same_shape) {
                            c.push((s.clone(), a.clone(), fa.clone(), b.clone(), fb.clone()));
                        }
                    }
                }
            }
        }
    }
    if c.is_empty() {
        None
    } else {
        Some(c[rng.below(c.len())].clone())
    }
}

fn overlapping(rng: &mut Rng, flat: &FlatSchema, doc: &mut Doc) -> Option<()> {
    let ss = plain_sites(flat, doc);
    let key = fresh(rng, "zc");
    for _ in 0..6 {
        match rng.below(5) {
            // (a) two different leaf fields under one response name
            0 => {
                let simple = |f: &FieldDef| flat.is_leaf(f.ty.inner_name()) && !has_required(f);
                let two: Vec<Site> = ss.iter().filter(|s| fields_of(flat, s).iter().filter(|f| simple(f)).count() >= 2).cloned().collect();
                let Some(site) = pick_site(rng, &two).cloned() else { continue };
                let fs: Vec<FieldDef> = fields_of(flat, &site).iter().filter(|f| simple(f)).cloned().collect();
                let i = rng.below(fs.len());
                let mut j = rng.below(fs.len() - 1);
                if j >= i {
                    j += 1;
                }
                let l = list_mut(doc, &site);
                l.push(select_leaf(&fs[i], &key));
                match rng.below(3) {
                    0 => l.push(select_leaf(&fs[j], &key)),
                    1 => l.push(Sel::Inline { on: None, dirs: vec![], sels: vec![select_leaf(&fs[j], &key)] }),
                    _ => {
                        let name = fresh(rng, "ZM");
                        l.push(Sel::Spread { name: name.clone(), dirs: vec![] });
                        let on = site.parent.clone()?;
                        doc.defs.push(Def::Frag(FragDef { name, on, dirs: vec![], sels: vec![select_leaf(&fs[j], &key)] }));
                    }
                }
                return Some(());
            }
            // (b) one field twice with different arguments
            1 | 2 => {
                let Some((site, f)) = site_with_field(rng, flat, &ss, &|f| !f.args.is_empty()) else { continue };
                let a = rng.pick(&f.args).clone();
                let s1 = select(rng, flat, &f, &key);
                let Sel::Field { args: base, .. } = &s1 else { continue };
                let mut args1: Vec<(String, Val)> = base.clone();
                let mut args2: Vec<(String, Val)> = base.clone();
                let cur = args1.iter().find(|(k, _)| *k == a.name).map(|(_, v)| v.clone());
                let set = |args: &mut Vec<(String, Val)>, v: Option<Val>| {
                    args.retain(|(k, _)| *k != a.name);
                    if let Some(v) = v {
                        args.push((a.name.clone(), v));
                    }
                };
                let mut done = false;
                if let TyRef::List(item) = a.ty.nullable() {
                    if rng.chance(2, 3) {
                        // list literals where one is a proper prefix of the other
                        let x = valid_const(rng, flat, &item.clone().non_null(), 1, false);
                        let y = valid_const(rng, flat, &item.clone().non_null(), 1, false);
                        let nested = matches!(item.nullable(), TyRef::List(_));
                        if !(nested && (!matches!(x, Val::List(_)) || !matches!(y, Val::List(_)))) {
                            let (short, long) = (Val::List(vec![x.clone()]), Val::List(vec![x, y]));
                            if rng.bool() {
                                set(&mut args1, Some(long));
                                set(&mut args2, Some(short));
                            } else {
                                set(&mut args1, Some(short));
                                set(&mut args2, Some(long));
                            }
                            done = true;
                        }
                    }
                }
                if !done {
                    let required = a.ty.is_non_null() && a.default.is_none();
                    if !required && cur.is_some() && rng.chance(1, 3) {
                        set(&mut args2, None);
                        done = true;
                    } else {
                        for _ in 0..8 {
                            let v = valid_const(rng, flat, &a.ty, 2, false);
                            if Some(&v) != cur.as_ref() && !matches!((&v, &cur), (Val::Obj(_), Some(Val::Obj(_)))) {
                                set(&mut args2, Some(v));
                                done = true;
                                break;
                            }
                        }
                    }
                }
                if !done {
                    continue;
                }
                let mk = |args: Vec<(String, Val)>| match &s1 {
                    Sel::Field { alias, name, dirs, sels, .. } => Sel::Field { alias: alias.clone(), name: name.clone(), args, dirs: dirs.clone(), sels: sels.clone() },
                    _ => unreachable!(),
                };
                let l = list_mut(doc, &site);
                l.push(mk(args1));
                l.push(mk(args2));
                return Some(());
            }
            // (c) different response shapes under mutually exclusive object types
            3 => {
                let Some((site, o1, g1, o2, g2)) = exclusive_pair(rng, flat, doc, false) else { continue };
                let l = list_mut(doc, &site);
                l.push(Sel::Inline { on: Some(o1), dirs: vec![], sels: vec![select_leaf(&g1, &key)] });
                l.push(Sel::Inline { on: Some(o2), dirs: vec![], sels: vec![select_leaf(&g2, &key)] });
                return Some(());
            }
            // (d) a conflict one level down: `k: h { c: f1 } k: h { c: f2 }`
            _ => {
                let simple = |f: &FieldDef| flat.is_leaf(f.ty.inner_name()) && !has_required(f);
                let Some((site, h)) = site_with_field(rng, flat, &ss, &|h| {
                    !has_required(h)
                        && flat.ty(h.ty.inner_name()).map(|t| t.fields.iter().filter(|f| simple(f)).count() >= 2).unwrap_or(false)
                }) else {
                    continue;
                };
                let fs: Vec<FieldDef> = flat.ty(h.ty.inner_name())?.fields.iter().filter(|f| simple(f)).cloned().collect();
                let inner_key = fresh(rng, "zd");
                let outer = |inner: Sel| Sel::Field { alias: Some(key.clone()), name: h.name.clone(), args: vec![], dirs: vec![], sels: vec![inner] };
                let l = list_mut(doc, &site);
                l.push(outer(select_leaf(&fs[0], &inner_key)));
                l.push(outer(select_leaf(&fs[1], &inner_key)));
                return Some(());
            }
        }
    }
    None
}

/// Two or three new query operations that spread one fragment using a variable (directly or through
/// a nested fragment; in a directive argument or a field argument). `valid`: every operation
/// declares the variable; otherwise one of them — at a random position — does not (it may declare
/// and use another variable, or none at all).
fn shared_fragment_variable(rng: &mut Rng, flat: &FlatSchema, doc: &mut Doc, valid: bool) -> Option<()> {
    let root = flat.root("query")?.to_string();
    name_all_ops(doc);
    let v = fresh(rng, "zsv");
    let frag = fresh(rng, "ZSF");
    // where the variable is used
    let use_sel = {
        let with_bool_arg = flat.ty(&root)?.fields.iter().find(|f| {
            f.args.iter().filter(|a| a.ty.is_non_null() && a.default.is_none()).count() == 0
                && f.args.iter().any(|a| a.ty.nullable() == TyRef::named("Boolean") && a.ty.list_depth() == 0)
                && flat.is_leaf(f.ty.inner_name())
        });
        match with_bool_arg {
            Some(f) if rng.bool() => {
                let a = f.args.iter().find(|a| a.ty.nullable() == TyRef::named("Boolean")).unwrap();
                Sel::Field { alias: Some(fresh(rng, "zsa")), name: f.name.clone(), args: vec![(a.name.clone(), Val::Var(v.clone()))], dirs: vec![], sels: vec![] }
            }
            _ => Sel::Field {
                alias: Some(fresh(rng, "zst")),
                name: "__typename".into(),
                args: vec![],
                dirs: vec![dir(if rng.bool() { "include" } else { "skip" }, vec![("if", Val::Var(v.clone()))])],
                sels: vec![],
            },
        }
    };
    if rng.bool() {
        let inner = fresh(rng, "ZSG");
        doc.defs.push(Def::Frag(FragDef { name: frag.clone(), on: root.clone(), dirs: vec![], sels: vec![typename(), Sel::Spread { name: inner.clone(), dirs: vec![] }] }));
        doc.defs.push(Def::Frag(FragDef { name: inner, on: root.clone(), dirs: vec![], sels: vec![use_sel] }));
    } else {
        doc.defs.push(Def::Frag(FragDef { name: frag.clone(), on: root.clone(), dirs: vec![], sels: vec![use_sel] }));
    }
    let n = rng.range(2, 3);
    let odd = rng.below(n);
    let mut ops = Vec::new();
    for i in 0..n {
        let mut vars = Vec::new();
        let mut sels = vec![Sel::Spread { name: frag.clone(), dirs: vec![] }];
        if valid || i != odd {
            vars.push(var(&v, TyRef::named("Boolean").non_null(), None));
        } else if rng.bool() {
            let other = fresh(rng, "zso");
            vars.push(var(&other, TyRef::named("Boolean").non_null(), None));
            sels.push(Sel::Field { alias: Some(fresh(rng, "zsu")), name: "__typename".into(), args: vec![], dirs: vec![dir("include", vec![("if", Val::Var(other))])], sels: vec![] });
        }
        if rng.bool() {
            sels.insert(0, typename());
        }
        ops.push(Def::Op(OpDef { kind: "query".into(), name: Some(fresh(rng, "ZSQ")), vars, dirs: vec![], sels, shorthand: false }));
    }
    // new operations before or after the existing definitions
    if rng.bool() {
        doc.defs.extend(ops);
    } else {
        for (k, o) in ops.into_iter().enumerate() {
            doc.defs.insert(k, o);
        }
    }
    Some(())
}

/// Under a site whose parent is an interface `P` with two or more possible object types: one
/// response key selected under `... on O1`, `... on O2` (objects) and `... on P`, in random order.
/// The object-typed selections are leaf fields of one type (so shapes agree); the selection on `P`
/// is an interface field `g`. `valid`: all three select `g`. Otherwise exactly one object selects a
/// different field of the same type — legal against the other object, a conflict against `P`.
fn abstract_parent_overlap(rng: &mut Rng, flat: &FlatSchema, doc: &mut Doc, valid: bool) -> Option<()> {
    let ss = op_sites(flat, doc);
    let mut c: Vec<(Site, String, String, String, FieldDef, FieldDef)> = Vec::new();
    let simple = |f: &FieldDef| flat.is_leaf(f.ty.inner_name()) && f.args.is_empty();
    for s in &ss {
        let Some(p) = s.parent.clone() else { continue };
        if flat.kind(&p) != Some(Kind::Interface) {
            continue;
        }
        let objs = flat.possible_types(&p);
        if objs.len() < 2 {
            continue;
        }
        let Some(pt) = flat.ty(&p) else { continue };
        for g in pt.fields.iter().filter(|f| simple(f)) {
            for o in &objs {
                let Some(ot) = flat.ty(o) else { continue };
                // the object's own `g` must have exactly the interface's type, or shapes could differ
                if ot.fields.iter().find(|f| f.name == g.name).map(|f| f.ty != g.ty || !f.args.is_empty()).unwrap_or(true) {
                    continue;
                }
                for h in ot.fields.iter().filter(|f| simple(f) && f.name != g.name && f.ty == g.ty) {
                    for o1 in objs.iter().filter(|x| *x != o) {
                        let ok1 = flat.ty(o1).and_then(|t| t.fields.iter().find(|f| f.name == g.name)).map(|f| f.ty == g.ty && f.args.is_empty()).unwrap_or(false);
                        if ok1 {
                            c.push((s.clone(), p.clone(), o1.clone(), o.clone(), g.clone(), h.clone()));
                        }
                    }
                }
            }
        }
    }
    if c.is_empty() {
        return None;
    }
    let (site, p, o1, o2, g, h) = c[rng.below(c.len())].clone();
    let key = fresh(rng, "zab");
    let mut parts = vec![
        Sel::Inline { on: Some(o1), dirs: vec![], sels: vec![select_leaf(&g, &key)] },
        Sel::Inline { on: Some(o2), dirs: vec![], sels: vec![select_leaf(if valid { &g } else { &h }, &key)] },
        Sel::Inline { on: Some(p), dirs: vec![], sels: vec![select_leaf(&g, &key)] },
    ];
    rng.shuffle(&mut parts);
    if rng.chance(1, 4) {
        // the abstract selection directly in the parent selection set
        for x in parts.iter_mut() {
            if let Sel::Inline { on, .. } = x {
                if on.as_deref().map(|t| flat.kind(t) == Some(Kind::Interface)).unwrap_or(false) && rng.bool() {
                    *on = None;
                }
            }
        }
    }
    list_mut(doc, &site).extend(parts);
    Some(())
}
