//! A mixed stream of hostile text inputs built from the shared workload sources (DESIGN §4).

use crate::corpus::{self, CorpusFile};
use crate::gen::text;
use crate::prng::Rng;

pub struct TextSource {
    pub files: Vec<CorpusFile>,
}

impl TextSource {
    pub fn new() -> Self {
        TextSource {
            files: corpus::all(),
        }
    }

    pub fn corpus_text<'a>(&'a self, rng: &mut Rng) -> &'a str {
        if self.files.is_empty() {
            return "{ a }";
        }
        &self.files[rng.below(self.files.len())].text
    }

    /// A corpus text of bounded size (re-draws a few times, then truncates at a char boundary).
    pub fn corpus_text_max<'a>(&'a self, rng: &mut Rng, max: usize) -> &'a str {
        for _ in 0..8 {
            let t = self.corpus_text(rng);
            if t.len() <= max {
                return t;
            }
        }
        let t = self.corpus_text(rng);
        let mut e = max.min(t.len());
        while !t.is_char_boundary(e) {
            e -= 1;
        }
        &t[..e]
    }

    /// One random input; returns (source kind, text).
    pub fn random(&self, rng: &mut Rng) -> (&'static str, String) {
        match rng.below(100) {
            0..=14 => ("char_soup", text::char_soup(rng, 40)),
            15..=29 => ("lexeme_soup", text::lexeme_soup(rng, 30)),
            30..=59 => {
                let base = self.corpus_text_max(rng, 6000).to_string();
                let n = rng.range(1, 4);
                let mut s = base;
                for _ in 0..n {
                    s = text::mutate_tokens(rng, &s);
                }
                ("corpus_mutant", s)
            }
            60..=69 => {
                let t = self.corpus_text_max(rng, 8000);
                let b = text::char_boundaries(t);
                let i = *rng.pick(&b);
                ("corpus_prefix", t[..i].to_string())
            }
            70..=77 => {
                let a = self.corpus_text_max(rng, 4000).to_string();
                let b = self.corpus_text_max(rng, 4000).to_string();
                ("splice", text::splice(rng, &a, &b))
            }
            78..=87 => {
                let fam = *rng.pick(text::NEST_FAMILIES);
                let d = *rng.pick(&[0usize, 1, 2, 3, 5, 10, 31, 32, 33, 64, 100, 128, 200]);
                ("nested", text::nested(fam, d))
            }
            88..=93 => {
                // wrap a small corpus or soup text in N bracket levels
                let inner = if rng.bool() {
                    text::lexeme_soup(rng, 6)
                } else {
                    self.corpus_text_max(rng, 300).to_string()
                };
                let (o, c) = *rng.pick(&[("{", "}"), ("[", "]"), ("(", ")"), ("{a(x:[", "])}")]);
                let n = rng.range(1, 40);
                ("wrapped", format!("{}{}{}", o.repeat(n), inner, c.repeat(n)))
            }
            _ => {
                // soup inserted in the middle of a corpus file
                let t = self.corpus_text_max(rng, 3000);
                let b = text::char_boundaries(t);
                let i = *rng.pick(&b);
                let soup = if rng.bool() {
                    text::char_soup(rng, 6)
                } else {
                    text::lexeme_soup(rng, 4)
                };
                ("corpus_infix", format!("{}{}{}", &t[..i], soup, &t[i..]))
            }
        }
    }
}

impl Default for TextSource {
    fn default() -> Self {
        Self::new()
    }
}
