//! Converter from apollo-compiler's `ast::Document` to the harness model, for the *parsed path*
//! (corpora, apollo-smith output, token mutants): there only the validation logic of a reference
//! model is independent of apollo-rs, not the parsing. Evidence counts the two paths separately.

use crate::gen::model::*;
use apollo_compiler::ast;

fn ty(t: &ast::Type) -> TyRef {
    match t {
        ast::Type::Named(n) => TyRef::named(n.as_str()),
        ast::Type::NonNullNamed(n) => TyRef::named(n.as_str()).non_null(),
        ast::Type::List(t) => ty(t).list(),
        ast::Type::NonNullList(t) => ty(t).list().non_null(),
    }
}

fn val(v: &ast::Value) -> Option<Val> {
    Some(match v {
        ast::Value::Null => Val::Null,
        ast::Value::Enum(n) => Val::Enum(n.to_string()),
        ast::Value::Variable(n) => Val::Var(n.to_string()),
        ast::Value::String(s) => Val::Str(s.clone()),
        ast::Value::Float(f) => Val::Float(f.as_str().to_string()),
        ast::Value::Int(i) => Val::Int(i.as_str().parse::<i64>().ok()?),
        ast::Value::Boolean(b) => Val::Bool(*b),
        ast::Value::List(items) => Val::List(items.iter().map(|x| val(x)).collect::<Option<Vec<_>>>()?),
        ast::Value::Object(fs) => Val::Obj(
            fs.iter()
                .map(|(k, v)| val(v).map(|v| (k.to_string(), v)))
                .collect::<Option<Vec<_>>>()?,
        ),
    })
}

fn dirs(d: &ast::DirectiveList) -> Option<Vec<DirApp>> {
    d.iter()
        .map(|d| {
            Some(DirApp {
                name: d.name.to_string(),
                args: d
                    .arguments
                    .iter()
                    .map(|a| val(&a.value).map(|v| (a.name.to_string(), v)))
                    .collect::<Option<Vec<_>>>()?,
            })
        })
        .collect()
}

fn desc(d: &Option<apollo_compiler::Node<str>>) -> Option<String> {
    d.as_ref().map(|s| s.to_string())
}

fn input_def(a: &ast::InputValueDefinition) -> Option<InputDef> {
    Some(InputDef {
        desc: desc(&a.description),
        name: a.name.to_string(),
        ty: ty(&a.ty),
        default: match &a.default_value {
            Some(v) => Some(val(v)?),
            None => None,
        },
        dirs: dirs(&a.directives)?,
    })
}

fn field_def(f: &ast::FieldDefinition) -> Option<FieldDef> {
    Some(FieldDef {
        desc: desc(&f.description),
        name: f.name.to_string(),
        args: f.arguments.iter().map(|a| input_def(a)).collect::<Option<Vec<_>>>()?,
        ty: ty(&f.ty),
        dirs: dirs(&f.directives)?,
    })
}

fn enum_val(v: &ast::EnumValueDefinition) -> Option<EnumVal> {
    Some(EnumVal {
        desc: desc(&v.description),
        name: v.value.to_string(),
        dirs: dirs(&v.directives)?,
    })
}

fn sels(s: &[ast::Selection]) -> Option<Vec<Sel>> {
    s.iter()
        .map(|s| {
            Some(match s {
                ast::Selection::Field(f) => Sel::Field {
                    alias: f.alias.as_ref().map(|a| a.to_string()),
                    name: f.name.to_string(),
                    args: f
                        .arguments
                        .iter()
                        .map(|a| val(&a.value).map(|v| (a.name.to_string(), v)))
                        .collect::<Option<Vec<_>>>()?,
                    dirs: dirs(&f.directives)?,
                    sels: sels(&f.selection_set)?,
                },
                ast::Selection::FragmentSpread(f) => Sel::Spread {
                    name: f.fragment_name.to_string(),
                    dirs: dirs(&f.directives)?,
                },
                ast::Selection::InlineFragment(f) => Sel::Inline {
                    on: f.type_condition.as_ref().map(|t| t.to_string()),
                    dirs: dirs(&f.directives)?,
                    sels: sels(&f.selection_set)?,
                },
            })
        })
        .collect()
}

fn op_kind(o: ast::OperationType) -> &'static str {
    match o {
        ast::OperationType::Query => "query",
        ast::OperationType::Mutation => "mutation",
        ast::OperationType::Subscription => "subscription",
    }
}

fn roots(r: &[apollo_compiler::Node<(ast::OperationType, ast::NamedType)>]) -> Vec<(String, String)> {
    r.iter().map(|n| (op_kind(n.0).to_string(), n.1.to_string())).collect()
}

/// `None` when the document holds something the model cannot represent (an Int literal beyond i64).
pub fn doc_from_ast(doc: &ast::Document) -> Option<Doc> {
    let mut out = Doc::default();
    for d in &doc.definitions {
        use ast::Definition as D;
        let def = match d {
            D::OperationDefinition(o) => Def::Op(OpDef {
                kind: op_kind(o.operation_type).to_string(),
                name: o.name.as_ref().map(|n| n.to_string()),
                vars: o
                    .variables
                    .iter()
                    .map(|v| {
                        Some(VarDef {
                            name: v.name.to_string(),
                            ty: ty(&v.ty),
                            default: match &v.default_value {
                                Some(x) => Some(val(x)?),
                                None => None,
                            },
                            dirs: dirs(&v.directives)?,
                        })
                    })
                    .collect::<Option<Vec<_>>>()?,
                dirs: dirs(&o.directives)?,
                sels: sels(&o.selection_set)?,
                shorthand: false,
            }),
            D::FragmentDefinition(f) => Def::Frag(FragDef {
                name: f.name.to_string(),
                on: f.type_condition.to_string(),
                dirs: dirs(&f.directives)?,
                sels: sels(&f.selection_set)?,
            }),
            D::DirectiveDefinition(dd) => Def::Directive(DirectiveDef {
                desc: desc(&dd.description),
                name: dd.name.to_string(),
                args: dd.arguments.iter().map(|a| input_def(a)).collect::<Option<Vec<_>>>()?,
                repeatable: dd.repeatable,
                locations: dd.locations.iter().map(|l| l.name().to_string()).collect(),
            }),
            D::SchemaDefinition(s) => Def::Schema(SchemaDef {
                ext: false,
                desc: desc(&s.description),
                dirs: dirs(&s.directives)?,
                roots: roots(&s.root_operations),
            }),
            D::SchemaExtension(s) => Def::Schema(SchemaDef {
                ext: true,
                desc: None,
                dirs: dirs(&s.directives)?,
                roots: roots(&s.root_operations),
            }),
            D::ScalarTypeDefinition(t) => {
                let mut x = TypeDef::new(Kind::Scalar, t.name.as_str());
                x.desc = desc(&t.description);
                x.dirs = dirs(&t.directives)?;
                Def::Type(x)
            }
            D::ScalarTypeExtension(t) => {
                let mut x = TypeDef::new(Kind::Scalar, t.name.as_str());
                x.ext = true;
                x.dirs = dirs(&t.directives)?;
                Def::Type(x)
            }
            D::ObjectTypeDefinition(t) => {
                let mut x = TypeDef::new(Kind::Object, t.name.as_str());
                x.desc = desc(&t.description);
                x.implements = t.implements_interfaces.iter().map(|n| n.to_string()).collect();
                x.dirs = dirs(&t.directives)?;
                x.fields = t.fields.iter().map(|f| field_def(f)).collect::<Option<Vec<_>>>()?;
                Def::Type(x)
            }
            D::ObjectTypeExtension(t) => {
                let mut x = TypeDef::new(Kind::Object, t.name.as_str());
                x.ext = true;
                x.implements = t.implements_interfaces.iter().map(|n| n.to_string()).collect();
                x.dirs = dirs(&t.directives)?;
                x.fields = t.fields.iter().map(|f| field_def(f)).collect::<Option<Vec<_>>>()?;
                Def::Type(x)
            }
            D::InterfaceTypeDefinition(t) => {
                let mut x = TypeDef::new(Kind::Interface, t.name.as_str());
                x.desc = desc(&t.description);
                x.implements = t.implements_interfaces.iter().map(|n| n.to_string()).collect();
                x.dirs = dirs(&t.directives)?;
                x.fields = t.fields.iter().map(|f| field_def(f)).collect::<Option<Vec<_>>>()?;
                Def::Type(x)
            }
            D::InterfaceTypeExtension(t) => {
                let mut x = TypeDef::new(Kind::Interface, t.name.as_str());
                x.ext = true;
                x.implements = t.implements_interfaces.iter().map(|n| n.to_string()).collect();
                x.dirs = dirs(&t.directives)?;
                x.fields = t.fields.iter().map(|f| field_def(f)).collect::<Option<Vec<_>>>()?;
                Def::Type(x)
            }
            D::UnionTypeDefinition(t) => {
                let mut x = TypeDef::new(Kind::Union, t.name.as_str());
                x.desc = desc(&t.description);
                x.dirs = dirs(&t.directives)?;
                x.members = t.members.iter().map(|n| n.to_string()).collect();
                Def::Type(x)
            }
            D::UnionTypeExtension(t) => {
                let mut x = TypeDef::new(Kind::Union, t.name.as_str());
                x.ext = true;
                x.dirs = dirs(&t.directives)?;
                x.members = t.members.iter().map(|n| n.to_string()).collect();
                Def::Type(x)
            }
            D::EnumTypeDefinition(t) => {
                let mut x = TypeDef::new(Kind::Enum, t.name.as_str());
                x.desc = desc(&t.description);
                x.dirs = dirs(&t.directives)?;
                x.values = t.values.iter().map(|v| enum_val(v)).collect::<Option<Vec<_>>>()?;
                Def::Type(x)
            }
            D::EnumTypeExtension(t) => {
                let mut x = TypeDef::new(Kind::Enum, t.name.as_str());
                x.ext = true;
                x.dirs = dirs(&t.directives)?;
                x.values = t.values.iter().map(|v| enum_val(v)).collect::<Option<Vec<_>>>()?;
                Def::Type(x)
            }
            D::InputObjectTypeDefinition(t) => {
                let mut x = TypeDef::new(Kind::Input, t.name.as_str());
                x.desc = desc(&t.description);
                x.dirs = dirs(&t.directives)?;
                x.input_fields = t.fields.iter().map(|f| input_def(f)).collect::<Option<Vec<_>>>()?;
                Def::Type(x)
            }
            D::InputObjectTypeExtension(t) => {
                let mut x = TypeDef::new(Kind::Input, t.name.as_str());
                x.ext = true;
                x.dirs = dirs(&t.directives)?;
                x.input_fields = t.fields.iter().map(|f| input_def(f)).collect::<Option<Vec<_>>>()?;
                Def::Type(x)
            }
        };
        out.defs.push(def);
    }
    Some(out)
}
