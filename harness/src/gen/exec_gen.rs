//! Generator of executable documents against a `FlatSchema`, biased to be valid (the oracles and
//! the code under test decide; monitors that need validity as a precondition filter on it).

use crate::gen::model::*;
use crate::gen::schema_gen::{dir_apps, valid_const};
use crate::prng::Rng;

#[derive(Clone, Debug)]
pub struct ExecOpts {
    pub max_depth: usize,
    pub max_fields: usize,
    pub fragments: bool,
    pub variables: bool,
    pub directives: bool,
    pub skip_include: bool,
    pub introspection_meta: bool,
    /// allow un-aliased duplicates and name-keyed fields (exercises field merging)
    pub merging: bool,
    pub subscriptions: bool,
    pub mutations: bool,
    pub max_ops: usize,
}

impl Default for ExecOpts {
    fn default() -> Self {
        ExecOpts {
            max_depth: 4,
            max_fields: 4,
            fragments: true,
            variables: true,
            directives: true,
            skip_include: true,
            introspection_meta: true,
            merging: true,
            subscriptions: true,
            mutations: true,
            max_ops: 3,
        }
    }
}

struct Gen<'a> {
    s: &'a FlatSchema,
    o: &'a ExecOpts,
    alias_n: usize,
    /// variables of the operation being generated: (name, type, has_default)
    vars: Vec<VarDef>,
    used_vars: Vec<String>,
    frags: Vec<FragDef>,
    frag_budget: usize,
    /// fragments currently being generated (no spreads to them: avoids cycles)
    frag_stack: Vec<String>,
    in_fragment: bool,
    /// variables used inside fragments: they must be defined by every operation that spreads them,
    /// so fragments only use variables from this shared pool, which every operation defines
    shared_vars: Vec<VarDef>,
    /// names of fragments spread (transitively) by the operation being generated
    spread_in_op: Vec<String>,
    var_n: usize,
    /// argument lists used for un-aliased selections of a field name (document-wide)
    canon_args: Vec<(String, Vec<(String, Val)>)>,
}

fn is_subscription_root(g: &Gen, parent: &str, depth: usize, op_kind: &str) -> bool {
    let _ = (g, parent);
    op_kind == "subscription" && depth == 0
}

impl<'a> Gen<'a> {
    fn value_for(&mut self, rng: &mut Rng, ty: &TyRef, allow_var: bool, depth: usize) -> Val {
        if allow_var && self.o.variables && rng.chance(1, 3) {
            return self.var_for(rng, ty);
        }
        // literal, possibly with variables nested in lists/objects
        if !ty.is_non_null() && rng.chance(1, 10) {
            return Val::Null;
        }
        match ty.nullable() {
            TyRef::List(t) if depth > 0 && rng.chance(3, 4) => {
                let n = rng.below(3);
                Val::List((0..n).map(|_| self.value_for(rng, &t, allow_var, depth - 1)).collect())
            }
            TyRef::Named(n) if self.s.kind(&n) == Some(Kind::Input) && depth > 0 && rng.chance(3, 4) => {
                let t = self.s.ty(&n).unwrap().clone();
                let mut fields = Vec::new();
                for f in &t.input_fields {
                    let required = f.ty.is_non_null() && f.default.is_none();
                    if required || rng.bool() {
                        fields.push((f.name.clone(), self.value_for(rng, &f.ty, allow_var, depth - 1)));
                    }
                }
                Val::Obj(fields)
            }
            _ => valid_const(rng, self.s, ty, depth, false),
        }
    }

    /// Define (or reuse) a variable whose type may flow into location type `loc`.
    fn var_for(&mut self, rng: &mut Rng, loc: &TyRef) -> Val {
        // reuse an existing variable of a compatible (identical or stricter) type
        let pool: Vec<VarDef> = if self.in_fragment { self.shared_vars.clone() } else { self.vars.clone() };
        for v in &pool {
            if v.ty == *loc || v.ty == loc.clone().non_null() {
                if rng.bool() {
                    self.used_vars.push(v.name.clone());
                    return Val::Var(v.name.clone());
                }
            }
        }
        if self.in_fragment {
            // fragments only use the shared pool; if nothing fits, fall back to a literal
            return valid_const(rng, self.s, loc, 2, false);
        }
        self.var_n += 1;
        let name = format!("v{}", self.var_n);
        // variable type: the location type itself, or stricter (non-null), or — with a default —
        // nullable into a non-null location
        let mut ty = loc.clone();
        let mut default = None;
        match rng.below(6) {
            0 => ty = ty.non_null(),
            1 => {
                // nullable variable with a non-null default into a non-null location is allowed
                if loc.is_non_null() {
                    ty = loc.nullable();
                    let d = valid_const(rng, self.s, loc, 2, false);
                    if d != Val::Null {
                        default = Some(d);
                    } else {
                        ty = loc.clone();
                    }
                }
            }
            2 => {
                if !ty.is_non_null() || rng.bool() {
                    default = Some(valid_const(rng, self.s, &ty, 2, false));
                }
            }
            _ => {}
        }
        let dirs = if self.o.directives {
            dir_apps(rng, self.s, "VARIABLE_DEFINITION", false, 1, 8)
        } else {
            vec![]
        };
        self.vars.push(VarDef {
            name: name.clone(),
            ty,
            default,
            dirs,
        });
        self.used_vars.push(name.clone());
        Val::Var(name)
    }

    fn exec_dirs(&mut self, rng: &mut Rng, loc: &str, allow_skip: bool) -> Vec<DirApp> {
        let mut out = Vec::new();
        if self.o.skip_include && allow_skip && rng.chance(1, 6) {
            let name = if rng.bool() { "skip" } else { "include" };
            let v = if self.o.variables && rng.bool() {
                self.var_for(rng, &TyRef::named("Boolean").non_null())
            } else {
                Val::Bool(rng.bool())
            };
            out.push(DirApp {
                name: name.into(),
                args: vec![("if".into(), v)],
            });
            if rng.chance(1, 3) {
                // both directives on one selection, in either order
                let other = if name == "skip" { "include" } else { "skip" };
                let v = if self.o.variables && rng.bool() {
                    self.var_for(rng, &TyRef::named("Boolean").non_null())
                } else {
                    Val::Bool(rng.bool())
                };
                let app = DirApp { name: other.into(), args: vec![("if".into(), v)] };
                if rng.bool() {
                    out.push(app);
                } else {
                    out.insert(0, app);
                }
            }
        }
        if self.o.directives {
            let mut apps = dir_apps(rng, self.s, loc, false, 1, 8);
            // executable directive arguments may use variables
            for a in apps.iter_mut() {
                if let Some(def) = self.s.directive(&a.name).cloned() {
                    for (an, av) in a.args.iter_mut() {
                        if let Some(ad) = def.args.iter().find(|x| x.name == *an) {
                            if loc != "VARIABLE_DEFINITION" && rng.chance(1, 4) {
                                *av = self.value_for(rng, &ad.ty, true, 1);
                            }
                        }
                    }
                }
            }
            out.extend(apps);
        }
        out
    }

    fn args_for(&mut self, rng: &mut Rng, f: &FieldDef) -> Vec<(String, Val)> {
        let mut args = Vec::new();
        for a in &f.args {
            let required = a.ty.is_non_null() && a.default.is_none();
            if required || rng.chance(2, 3) {
                args.push((a.name.clone(), self.value_for(rng, &a.ty, true, 2)));
            }
        }
        if args.len() > 1 && rng.bool() {
            rng.shuffle(&mut args);
        }
        args
    }

    fn sels(&mut self, rng: &mut Rng, parent: &str, depth: usize, op_kind: &str) -> Vec<Sel> {
        let mut out: Vec<Sel> = Vec::new();
        let pt = match self.s.ty(parent) {
            Some(t) => t.clone(),
            None => return vec![],
        };
        let sub_root = is_subscription_root(self, parent, depth, op_kind) && !self.in_fragment;
        let n = if sub_root { 1 } else { rng.range(1, self.o.max_fields) };
        for _ in 0..n {
            let choice = rng.below(10);
            let can_nest = depth < self.o.max_depth;
            if sub_root || choice < 6 || !can_nest {
                // a field
                if pt.kind == Kind::Union || (pt.fields.is_empty()) {
                    if !out.iter().any(|s| matches!(s, Sel::Field{name,..} if name=="__typename")) {
                        out.push(Sel::Field {
                            alias: None,
                            name: "__typename".into(),
                            args: vec![],
                            dirs: vec![],
                            sels: vec![],
                        });
                    }
                    if pt.kind != Kind::Union {
                        continue;
                    }
                    // unions need inline fragments for anything else
                    if can_nest {
                        if let Some(m) = pt.members.first().cloned() {
                            let m = if rng.bool() { m } else { rng.pick(&pt.members).clone() };
                            let inner = self.sels(rng, &m, depth + 1, op_kind);
                            if !inner.is_empty() {
                                out.push(Sel::Inline {
                                    on: Some(m),
                                    dirs: self.exec_dirs(rng, "INLINE_FRAGMENT", true),
                                    sels: inner,
                                });
                            }
                        }
                    }
                    continue;
                }
                if self.o.introspection_meta && !sub_root && rng.chance(1, 12) {
                    out.push(Sel::Field {
                        alias: if rng.bool() { None } else { Some(self.alias(rng)) },
                        name: "__typename".into(),
                        args: vec![],
                        dirs: self.exec_dirs(rng, "FIELD", true),
                        sels: vec![],
                    });
                    continue;
                }
                let f = rng.pick(&pt.fields).clone();
                let inner_ty = f.ty.inner_name().to_string();
                let composite = self.s.is_composite(&inner_ty);
                if composite && !can_nest {
                    // look for a leaf field instead
                    if let Some(lf) = pt.fields.iter().find(|x| self.s.is_leaf(x.ty.inner_name())).cloned() {
                        let args = self.args_for(rng, &lf);
                        out.push(Sel::Field {
                            alias: Some(self.alias(rng)),
                            name: lf.name.clone(),
                            args,
                            dirs: vec![],
                            sels: vec![],
                        });
                    } else {
                        out.push(Sel::Field {
                            alias: Some(self.alias(rng)),
                            name: "__typename".into(),
                            args: vec![],
                            dirs: vec![],
                            sels: vec![],
                        });
                    }
                    continue;
                }
                let unaliased = self.o.merging && rng.chance(1, 3);
                let args = if unaliased {
                    // un-aliased uses of one field share one argument list, so that they can merge
                    let key = f.name.clone();
                    match self.canon_args.iter().find(|(k, _)| *k == key) {
                        Some((_, a)) => a.clone(),
                        None => {
                            // literals only (variables are per operation) and no implementer-only
                            // extra argument (the same response name may be selected on the interface)
                            let was = self.o.variables;
                            let o2 = ExecOpts { variables: false, ..self.o.clone() };
                            let _ = was;
                            let mut g2 = Gen { s: self.s, o: &o2, alias_n: 0, vars: vec![], used_vars: vec![], frags: vec![], frag_budget: 0, frag_stack: vec![], in_fragment: false, shared_vars: vec![], spread_in_op: vec![], var_n: 0, canon_args: vec![] };
                            let mut a = g2.args_for(rng, &f);
                            a.retain(|(n, _)| n != "extra");
                            self.canon_args.push((key, a.clone()));
                            a
                        }
                    }
                } else {
                    self.args_for(rng, &f)
                };
                let sub = if composite { self.sels(rng, &inner_ty, depth + 1, op_kind) } else { vec![] };
                let sel = Sel::Field {
                    // `name: name` has the same response key as the bare field
                    alias: if unaliased {
                        if rng.chance(1, 4) {
                            Some(f.name.clone())
                        } else {
                            None
                        }
                    } else {
                        Some(self.alias(rng))
                    },
                    name: f.name.clone(),
                    args,
                    dirs: self.exec_dirs(rng, "FIELD", !sub_root),
                    sels: sub,
                };
                if self.o.merging && !sub_root && rng.chance(1, 8) {
                    // exact duplicate: always mergeable
                    out.push(sel.clone());
                }
                out.push(sel);
            } else if choice < 8 {
                // inline fragment
                let on = self.pick_condition(rng, &pt);
                let target = on.clone().unwrap_or_else(|| parent.to_string());
                let inner = self.sels(rng, &target, depth + 1, op_kind);
                if !inner.is_empty() {
                    out.push(Sel::Inline {
                        on,
                        dirs: self.exec_dirs(rng, "INLINE_FRAGMENT", true),
                        sels: inner,
                    });
                }
            } else if self.o.fragments {
                // named fragment spread: reuse or create
                let cond = self.pick_condition(rng, &pt).unwrap_or_else(|| parent.to_string());
                let existing: Vec<String> = self
                    .frags
                    .iter()
                    .filter(|f| f.on == cond && !self.frag_stack.contains(&f.name))
                    .map(|f| f.name.clone())
                    .collect();
                let name = if !existing.is_empty() && rng.bool() {
                    Some(rng.pick(&existing).clone())
                } else if self.frag_budget > 0 {
                    self.frag_budget -= 1;
                    self.alias_n += 1;
                    let name = format!("Frag{}", self.alias_n);
                    self.frag_stack.push(name.clone());
                    let was = self.in_fragment;
                    self.in_fragment = true;
                    let inner = self.sels(rng, &cond, depth + 1, "query");
                    let dirs = self.exec_dirs(rng, "FRAGMENT_DEFINITION", false);
                    self.in_fragment = was;
                    self.frag_stack.pop();
                    if inner.is_empty() {
                        None
                    } else {
                        self.frags.push(FragDef {
                            name: name.clone(),
                            on: cond.clone(),
                            dirs,
                            sels: inner,
                        });
                        Some(name)
                    }
                } else {
                    None
                };
                if let Some(name) = name {
                    self.spread_in_op.push(name.clone());
                    out.push(Sel::Spread {
                        name,
                        dirs: self.exec_dirs(rng, "FRAGMENT_SPREAD", true),
                    });
                }
            }
        }
        if out.is_empty() {
            out.push(Sel::Field {
                alias: None,
                name: "__typename".into(),
                args: vec![],
                dirs: vec![],
                sels: vec![],
            });
        }
        out
    }

    /// A type condition applicable inside `pt`: the type itself, or any composite type whose
    /// possible object types intersect those of `pt`; or none.
    fn pick_condition(&mut self, rng: &mut Rng, pt: &FlatType) -> Option<String> {
        let mine = self.s.possible_types(&pt.name);
        let mut c: Vec<String> = vec![pt.name.clone()];
        for t in &self.s.types {
            if t.name != pt.name && matches!(t.kind, Kind::Object | Kind::Interface | Kind::Union) {
                let theirs = self.s.possible_types(&t.name);
                if theirs.iter().any(|x| mine.contains(x)) {
                    c.push(t.name.clone());
                }
            }
        }
        if rng.chance(1, 5) {
            None
        } else {
            Some(rng.pick(&c).clone())
        }
    }

    fn alias(&mut self, _rng: &mut Rng) -> String {
        self.alias_n += 1;
        format!("k{}", self.alias_n)
    }
}

/// Generate an executable document for `schema`. Returns the document model.
pub fn gen_executable(rng: &mut Rng, s: &FlatSchema, o: &ExecOpts) -> Doc {
    let mut g = Gen {
        s,
        o,
        alias_n: 0,
        vars: vec![],
        used_vars: vec![],
        frags: vec![],
        frag_budget: if o.fragments { 3 } else { 0 },
        frag_stack: vec![],
        in_fragment: false,
        shared_vars: vec![],
        spread_in_op: vec![],
        var_n: 0,
        canon_args: vec![],
    };
    // a small pool of variables that fragments may use; every operation that (transitively)
    // spreads a fragment using one of them must define it, so all operations define the used ones.
    if o.variables && o.fragments {
        g.shared_vars = vec![
            VarDef {
                name: "sb".into(),
                ty: TyRef::named("Boolean").non_null(),
                default: None,
                dirs: vec![],
            },
            VarDef {
                name: "si".into(),
                ty: TyRef::named("Int"),
                default: Some(Val::Int(3)),
                dirs: vec![],
            },
        ];
    }
    let mut kinds = vec!["query"];
    if o.mutations && s.mutation.is_some() {
        kinds.push("mutation");
    }
    if o.subscriptions && s.subscription.is_some() {
        kinds.push("subscription");
    }
    let nops = rng.range(1, o.max_ops.max(1));
    let mut ops: Vec<OpDef> = Vec::new();
    for i in 0..nops {
        let kind = rng.pick_str(&kinds).to_string();
        let Some(root) = s.root(&kind).map(|r| r.to_string()) else { continue };
        g.vars.clear();
        g.used_vars.clear();
        g.spread_in_op.clear();
        let sels = g.sels(rng, &root, 0, &kind);
        let dirs = g.exec_dirs(rng, &kind.to_uppercase(), false);
        // shared variables used by fragments reachable from this operation
        let mut vars = g.vars.clone();
        let mut need: Vec<String> = Vec::new();
        let mut stack = g.spread_in_op.clone();
        let mut seen: Vec<String> = Vec::new();
        while let Some(fname) = stack.pop() {
            if seen.contains(&fname) {
                continue;
            }
            seen.push(fname.clone());
            if let Some(f) = g.frags.iter().find(|f| f.name == fname) {
                collect_vars_and_spreads(&f.sels, &f.dirs, &mut need, &mut stack);
            }
        }
        for sv in &g.shared_vars {
            if need.contains(&sv.name) && !vars.iter().any(|v| v.name == sv.name) {
                vars.push(sv.clone());
            }
        }
        // named unless it is the only operation
        let name = if nops == 1 && rng.bool() { None } else { Some(format!("Op{i}")) };
        ops.push(OpDef {
            shorthand: rng.bool(),
            kind,
            name,
            vars,
            dirs,
            sels,
        });
    }
    let mut defs: Vec<Def> = ops.into_iter().map(Def::Op).collect();
    for f in g.frags {
        let i = rng.below(defs.len() + 1);
        defs.insert(i, Def::Frag(f));
    }
    Doc { defs }
}

fn collect_val_vars(v: &Val, out: &mut Vec<String>) {
    match v {
        Val::Var(n) => out.push(n.clone()),
        Val::List(xs) => xs.iter().for_each(|x| collect_val_vars(x, out)),
        Val::Obj(fs) => fs.iter().for_each(|(_, x)| collect_val_vars(x, out)),
        _ => {}
    }
}

pub fn collect_vars_and_spreads(sels: &[Sel], dirs: &[DirApp], vars: &mut Vec<String>, spreads: &mut Vec<String>) {
    for d in dirs {
        for (_, v) in &d.args {
            collect_val_vars(v, vars);
        }
    }
    for s in sels {
        match s {
            Sel::Field { args, dirs, sels, .. } => {
                for (_, v) in args {
                    collect_val_vars(v, vars);
                }
                collect_vars_and_spreads(sels, dirs, vars, spreads);
            }
            Sel::Spread { name, dirs } => {
                spreads.push(name.clone());
                collect_vars_and_spreads(&[], dirs, vars, spreads);
            }
            Sel::Inline { dirs, sels, .. } => collect_vars_and_spreads(sels, dirs, vars, spreads),
        }
    }
}
