//! Harness-side model of GraphQL documents (type system + executable), independent of apollo-rs:
//! plain data, a printer with randomised trivia, and a flattened schema view used by the reference
//! models. Nothing here calls into the crates under test.

use crate::prng::Rng;
use std::fmt::Write;

#[derive(Clone, Debug, PartialEq, Eq, Hash)]
pub enum TyRef {
    Named(String),
    List(Box<TyRef>),
    NonNull(Box<TyRef>),
}

impl TyRef {
    pub fn named(n: &str) -> TyRef {
        TyRef::Named(n.to_string())
    }
    pub fn list(self) -> TyRef {
        TyRef::List(Box::new(self))
    }
    pub fn non_null(self) -> TyRef {
        match self {
            TyRef::NonNull(_) => self,
            t => TyRef::NonNull(Box::new(t)),
        }
    }
    pub fn nullable(&self) -> TyRef {
        match self {
            TyRef::NonNull(t) => (**t).clone(),
            t => t.clone(),
        }
    }
    pub fn is_non_null(&self) -> bool {
        matches!(self, TyRef::NonNull(_))
    }
    pub fn is_list(&self) -> bool {
        matches!(self.nullable(), TyRef::List(_))
    }
    pub fn item(&self) -> Option<TyRef> {
        match self.nullable() {
            TyRef::List(t) => Some(*t),
            _ => None,
        }
    }
    pub fn inner_name(&self) -> &str {
        match self {
            TyRef::Named(n) => n,
            TyRef::List(t) | TyRef::NonNull(t) => t.inner_name(),
        }
    }
    pub fn print(&self) -> String {
        match self {
            TyRef::Named(n) => n.clone(),
            TyRef::List(t) => format!("[{}]", t.print()),
            TyRef::NonNull(t) => format!("{}!", t.print()),
        }
    }
    pub fn list_depth(&self) -> usize {
        match self {
            TyRef::Named(_) => 0,
            TyRef::List(t) => 1 + t.list_depth(),
            TyRef::NonNull(t) => t.list_depth(),
        }
    }
}

#[derive(Clone, Debug, PartialEq)]
pub enum Val {
    Null,
    Int(i64),
    /// Float literal text, e.g. "1.5", "2e10"
    Float(String),
    Str(String),
    Bool(bool),
    Enum(String),
    List(Vec<Val>),
    Obj(Vec<(String, Val)>),
    Var(String),
}

#[derive(Clone, Debug, PartialEq)]
pub struct DirApp {
    pub name: String,
    pub args: Vec<(String, Val)>,
}

#[derive(Clone, Debug, PartialEq)]
pub struct InputDef {
    pub desc: Option<String>,
    pub name: String,
    pub ty: TyRef,
    pub default: Option<Val>,
    pub dirs: Vec<DirApp>,
}

#[derive(Clone, Debug, PartialEq)]
pub struct FieldDef {
    pub desc: Option<String>,
    pub name: String,
    pub args: Vec<InputDef>,
    pub ty: TyRef,
    pub dirs: Vec<DirApp>,
}

#[derive(Clone, Debug, PartialEq)]
pub struct EnumVal {
    pub desc: Option<String>,
    pub name: String,
    pub dirs: Vec<DirApp>,
}

#[derive(Clone, Copy, Debug, PartialEq, Eq, Hash)]
pub enum Kind {
    Scalar,
    Object,
    Interface,
    Union,
    Enum,
    Input,
}

impl Kind {
    pub fn keyword(self) -> &'static str {
        match self {
            Kind::Scalar => "scalar",
            Kind::Object => "type",
            Kind::Interface => "interface",
            Kind::Union => "union",
            Kind::Enum => "enum",
            Kind::Input => "input",
        }
    }
    pub fn location(self) -> &'static str {
        match self {
            Kind::Scalar => "SCALAR",
            Kind::Object => "OBJECT",
            Kind::Interface => "INTERFACE",
            Kind::Union => "UNION",
            Kind::Enum => "ENUM",
            Kind::Input => "INPUT_OBJECT",
        }
    }
}

#[derive(Clone, Debug, PartialEq)]
pub struct TypeDef {
    pub kind: Kind,
    pub ext: bool,
    pub desc: Option<String>,
    pub name: String,
    pub implements: Vec<String>,
    pub fields: Vec<FieldDef>,
    pub members: Vec<String>,
    pub values: Vec<EnumVal>,
    pub input_fields: Vec<InputDef>,
    pub dirs: Vec<DirApp>,
}

impl TypeDef {
    pub fn new(kind: Kind, name: &str) -> TypeDef {
        TypeDef {
            kind,
            ext: false,
            desc: None,
            name: name.to_string(),
            implements: vec![],
            fields: vec![],
            members: vec![],
            values: vec![],
            input_fields: vec![],
            dirs: vec![],
        }
    }
}

#[derive(Clone, Debug, PartialEq)]
pub struct DirectiveDef {
    pub desc: Option<String>,
    pub name: String,
    pub args: Vec<InputDef>,
    pub repeatable: bool,
    pub locations: Vec<String>,
}

#[derive(Clone, Debug, PartialEq)]
pub struct SchemaDef {
    pub ext: bool,
    pub desc: Option<String>,
    pub dirs: Vec<DirApp>,
    /// (operation kind: "query" | "mutation" | "subscription", type name)
    pub roots: Vec<(String, String)>,
}

#[derive(Clone, Debug, PartialEq)]
pub struct VarDef {
    pub name: String,
    pub ty: TyRef,
    pub default: Option<Val>,
    pub dirs: Vec<DirApp>,
}

#[derive(Clone, Debug, PartialEq)]
pub enum Sel {
    Field {
        alias: Option<String>,
        name: String,
        args: Vec<(String, Val)>,
        dirs: Vec<DirApp>,
        sels: Vec<Sel>,
    },
    Spread {
        name: String,
        dirs: Vec<DirApp>,
    },
    Inline {
        on: Option<String>,
        dirs: Vec<DirApp>,
        sels: Vec<Sel>,
    },
}

#[derive(Clone, Debug, PartialEq)]
pub struct OpDef {
    /// "query" | "mutation" | "subscription"
    pub kind: String,
    pub name: Option<String>,
    pub vars: Vec<VarDef>,
    pub dirs: Vec<DirApp>,
    pub sels: Vec<Sel>,
    /// print as `{ ... }` shorthand (only meaningful for anonymous queries without vars/dirs)
    pub shorthand: bool,
}

#[derive(Clone, Debug, PartialEq)]
pub struct FragDef {
    pub name: String,
    pub on: String,
    pub dirs: Vec<DirApp>,
    pub sels: Vec<Sel>,
}

#[derive(Clone, Debug, PartialEq)]
pub enum Def {
    Schema(SchemaDef),
    Type(TypeDef),
    Directive(DirectiveDef),
    Op(OpDef),
    Frag(FragDef),
}

impl Def {
    pub fn is_executable(&self) -> bool {
        matches!(self, Def::Op(_) | Def::Frag(_))
    }
}

#[derive(Clone, Debug, PartialEq, Default)]
pub struct Doc {
    pub defs: Vec<Def>,
}

impl Doc {
    pub fn type_system(&self) -> Doc {
        Doc {
            defs: self.defs.iter().filter(|d| !d.is_executable()).cloned().collect(),
        }
    }
    pub fn executable(&self) -> Doc {
        Doc {
            defs: self.defs.iter().filter(|d| d.is_executable()).cloned().collect(),
        }
    }
    pub fn ops(&self) -> impl Iterator<Item = &OpDef> {
        self.defs.iter().filter_map(|d| match d {
            Def::Op(o) => Some(o),
            _ => None,
        })
    }
    pub fn frags(&self) -> impl Iterator<Item = &FragDef> {
        self.defs.iter().filter_map(|d| match d {
            Def::Frag(f) => Some(f),
            _ => None,
        })
    }
    pub fn frag(&self, name: &str) -> Option<&FragDef> {
        self.frags().find(|f| f.name == name)
    }
}

// ---------------------------------------------------------------------------------------------
// Printer
// ---------------------------------------------------------------------------------------------

/// Printing style. `Plain` is deterministic single-space output; `Trivia(rng)` inserts random
/// ignored tokens (spaces, newlines, commas, comments) wherever the grammar allows them and picks
/// block/quoted strings at random.
pub struct Printer<'a> {
    pub out: String,
    rng: Option<&'a mut Rng>,
}

pub fn quote_string(s: &str) -> String {
    let mut o = String::with_capacity(s.len() + 2);
    o.push('"');
    for c in s.chars() {
        match c {
            '"' => o.push_str("\\\""),
            '\\' => o.push_str("\\\\"),
            '\n' => o.push_str("\\n"),
            '\r' => o.push_str("\\r"),
            '\t' => o.push_str("\\t"),
            '\u{8}' => o.push_str("\\b"),
            '\u{c}' => o.push_str("\\f"),
            c if (c as u32) < 0x20 || c as u32 == 0x7f => {
                let _ = write!(o, "\\u{:04X}", c as u32);
            }
            c => o.push(c),
        }
    }
    o.push('"');
    o
}

/// Can `s` be written as a block string `"""\n<s>\n"""`-style and read back unchanged by the
/// spec's BlockStringValue? (conservative: single line or simple lines, no CR, no leading/trailing
/// blank lines, no leading whitespace on any line, no `"""`, no trailing quote/backslash issues)
fn block_safe(s: &str) -> bool {
    if s.is_empty() || s.contains("\"\"\"") || s.contains('\r') || s.contains('\\') {
        return false;
    }
    if s.ends_with('"') || s.starts_with('"') {
        return false;
    }
    if s.chars().any(|c| (c as u32) < 0x20 && c != '\n') {
        return false;
    }
    for line in s.split('\n') {
        if line.is_empty() || line.starts_with(' ') || line.starts_with('\t') || line.trim().is_empty() {
            return false;
        }
    }
    true
}

impl<'a> Printer<'a> {
    pub fn plain() -> Printer<'static> {
        Printer {
            out: String::new(),
            rng: None,
        }
    }
    pub fn trivia(rng: &'a mut Rng) -> Printer<'a> {
        Printer {
            out: String::new(),
            rng: Some(rng),
        }
    }

    /// Mandatory separation between two tokens that would otherwise merge (names, numbers).
    fn sp(&mut self) {
        match self.rng.as_mut() {
            None => self.out.push(' '),
            Some(r) => {
                let s = match r.below(12) {
                    0 => "\n",
                    1 => "  ",
                    2 => " ,",
                    3 => "\t",
                    4 => " # c\n",
                    5 => "\r\n",
                    6 => ", ",
                    _ => " ",
                };
                self.out.push_str(s);
            }
        }
    }
    /// Optional separation (around punctuators).
    fn osp(&mut self) {
        if let Some(r) = self.rng.as_mut() {
            let s = match r.below(14) {
                0 => " ",
                1 => "\n",
                2 => "  ",
                3 => ",",
                4 => " #x\n",
                5 => "\u{FEFF}",
                _ => "",
            };
            self.out.push_str(s);
        }
    }
    /// Separation in plain mode, optional in trivia mode (between a punctuator and something).
    fn psp(&mut self) {
        match self.rng {
            None => self.out.push(' '),
            Some(_) => self.osp(),
        }
    }
    fn tok(&mut self, t: &str) {
        self.out.push_str(t);
    }

    fn string(&mut self, s: &str, allow_block: bool) {
        let block = allow_block
            && block_safe(s)
            && match self.rng.as_mut() {
                None => false,
                Some(r) => r.chance(1, 3),
            };
        if block {
            let style = self.rng.as_mut().map(|r| r.below(3)).unwrap_or(0);
            match style {
                0 => {
                    let _ = write!(self.out, "\"\"\"{}\"\"\"", s);
                }
                1 => {
                    let _ = write!(self.out, "\"\"\"\n{}\n\"\"\"", s);
                }
                _ => {
                    let ind = "    ";
                    let body: Vec<String> = s.split('\n').map(|l| format!("{ind}{l}")).collect();
                    let _ = write!(self.out, "\"\"\"\n{}\n  \"\"\"", body.join("\n"));
                }
            }
        } else {
            self.out.push_str(&quote_string(s));
        }
    }

    fn desc(&mut self, d: &Option<String>) {
        if let Some(d) = d {
            self.string(d, true);
            self.psp();
        }
    }

    pub fn value(&mut self, v: &Val) {
        match v {
            Val::Null => self.tok("null"),
            Val::Int(i) => {
                let _ = write!(self.out, "{i}");
            }
            Val::Float(f) => self.tok(f),
            Val::Str(s) => self.string(s, true),
            Val::Bool(b) => self.tok(if *b { "true" } else { "false" }),
            Val::Enum(e) => self.tok(e),
            Val::Var(n) => {
                self.tok("$");
                self.tok(n);
            }
            Val::List(items) => {
                self.tok("[");
                for (i, it) in items.iter().enumerate() {
                    if i > 0 {
                        self.sp();
                    } else {
                        self.osp();
                    }
                    self.value(it);
                }
                self.osp();
                self.tok("]");
            }
            Val::Obj(fields) => {
                self.tok("{");
                for (i, (k, v)) in fields.iter().enumerate() {
                    if i > 0 {
                        self.sp();
                    } else {
                        self.osp();
                    }
                    self.tok(k);
                    self.osp();
                    self.tok(":");
                    self.psp();
                    self.value(v);
                }
                self.osp();
                self.tok("}");
            }
        }
    }

    fn args(&mut self, args: &[(String, Val)]) {
        if args.is_empty() {
            return;
        }
        self.tok("(");
        for (i, (k, v)) in args.iter().enumerate() {
            if i > 0 {
                self.sp();
            } else {
                self.osp();
            }
            self.tok(k);
            self.osp();
            self.tok(":");
            self.psp();
            self.value(v);
        }
        self.osp();
        self.tok(")");
    }

    fn dirs(&mut self, dirs: &[DirApp]) {
        for d in dirs {
            self.psp();
            self.tok("@");
            self.tok(&d.name);
            self.args(&d.args);
        }
    }

    fn input_def(&mut self, a: &InputDef) {
        self.desc(&a.desc);
        self.tok(&a.name);
        self.osp();
        self.tok(":");
        self.psp();
        self.tok(&a.ty.print());
        if let Some(d) = &a.default {
            self.psp();
            self.tok("=");
            self.psp();
            self.value(d);
        }
        self.dirs(&a.dirs);
    }

    fn arg_defs(&mut self, args: &[InputDef]) {
        if args.is_empty() {
            return;
        }
        self.tok("(");
        for (i, a) in args.iter().enumerate() {
            if i > 0 {
                self.sp();
            } else {
                self.osp();
            }
            self.input_def(a);
        }
        self.osp();
        self.tok(")");
    }

    fn nl(&mut self) {
        match self.rng {
            None => self.out.push('\n'),
            Some(_) => self.sp(),
        }
    }

    pub fn type_def(&mut self, t: &TypeDef) {
        if t.ext {
            self.tok("extend");
            self.sp();
        } else {
            self.desc(&t.desc);
        }
        self.tok(t.kind.keyword());
        self.sp();
        self.tok(&t.name);
        if !t.implements.is_empty() {
            self.sp();
            self.tok("implements");
            self.sp();
            let lead = self.rng.as_mut().map(|r| r.chance(1, 5)).unwrap_or(false);
            if lead {
                self.tok("&");
                self.osp();
            }
            for (i, n) in t.implements.iter().enumerate() {
                if i > 0 {
                    self.psp();
                    self.tok("&");
                    self.psp();
                }
                self.tok(n);
            }
        }
        self.dirs(&t.dirs);
        match t.kind {
            Kind::Scalar => {}
            Kind::Object | Kind::Interface => {
                if !t.fields.is_empty() {
                    self.psp();
                    self.tok("{");
                    for f in &t.fields {
                        self.nl();
                        self.desc(&f.desc);
                        self.tok(&f.name);
                        self.arg_defs(&f.args);
                        self.osp();
                        self.tok(":");
                        self.psp();
                        self.tok(&f.ty.print());
                        self.dirs(&f.dirs);
                    }
                    self.nl();
                    self.tok("}");
                }
            }
            Kind::Union => {
                if !t.members.is_empty() {
                    self.psp();
                    self.tok("=");
                    self.psp();
                    let lead = self.rng.as_mut().map(|r| r.chance(1, 5)).unwrap_or(false);
                    if lead {
                        self.tok("|");
                        self.osp();
                    }
                    for (i, m) in t.members.iter().enumerate() {
                        if i > 0 {
                            self.psp();
                            self.tok("|");
                            self.psp();
                        }
                        self.tok(m);
                    }
                }
            }
            Kind::Enum => {
                if !t.values.is_empty() {
                    self.psp();
                    self.tok("{");
                    for v in &t.values {
                        self.nl();
                        self.desc(&v.desc);
                        self.tok(&v.name);
                        self.dirs(&v.dirs);
                    }
                    self.nl();
                    self.tok("}");
                }
            }
            Kind::Input => {
                if !t.input_fields.is_empty() {
                    self.psp();
                    self.tok("{");
                    for f in &t.input_fields {
                        self.nl();
                        self.input_def(f);
                    }
                    self.nl();
                    self.tok("}");
                }
            }
        }
    }

    pub fn directive_def(&mut self, d: &DirectiveDef) {
        self.desc(&d.desc);
        self.tok("directive");
        self.psp();
        self.tok("@");
        self.tok(&d.name);
        self.arg_defs(&d.args);
        if d.repeatable {
            self.sp();
            self.tok("repeatable");
        }
        self.sp();
        self.tok("on");
        self.sp();
        let lead = self.rng.as_mut().map(|r| r.chance(1, 5)).unwrap_or(false);
        if lead {
            self.tok("|");
            self.osp();
        }
        for (i, l) in d.locations.iter().enumerate() {
            if i > 0 {
                self.psp();
                self.tok("|");
                self.psp();
            }
            self.tok(l);
        }
    }

    pub fn schema_def(&mut self, s: &SchemaDef) {
        if s.ext {
            self.tok("extend");
            self.sp();
        } else {
            self.desc(&s.desc);
        }
        self.tok("schema");
        self.dirs(&s.dirs);
        if !s.roots.is_empty() {
            self.psp();
            self.tok("{");
            for (op, ty) in &s.roots {
                self.nl();
                self.tok(op);
                self.osp();
                self.tok(":");
                self.psp();
                self.tok(ty);
            }
            self.nl();
            self.tok("}");
        }
    }

    pub fn selection_set(&mut self, sels: &[Sel]) {
        self.tok("{");
        for (i, s) in sels.iter().enumerate() {
            if i > 0 {
                self.sp();
            } else {
                self.psp();
            }
            self.selection(s);
        }
        self.psp();
        self.tok("}");
    }

    pub fn selection(&mut self, s: &Sel) {
        match s {
            Sel::Field {
                alias,
                name,
                args,
                dirs,
                sels,
            } => {
                if let Some(a) = alias {
                    self.tok(a);
                    self.osp();
                    self.tok(":");
                    self.psp();
                }
                self.tok(name);
                self.args(args);
                self.dirs(dirs);
                if !sels.is_empty() {
                    self.psp();
                    self.selection_set(sels);
                }
            }
            Sel::Spread { name, dirs } => {
                self.tok("...");
                self.osp();
                self.tok(name);
                self.dirs(dirs);
            }
            Sel::Inline { on, dirs, sels } => {
                self.tok("...");
                if let Some(t) = on {
                    self.psp();
                    self.tok("on");
                    self.sp();
                    self.tok(t);
                }
                self.dirs(dirs);
                self.psp();
                self.selection_set(sels);
            }
        }
    }

    pub fn op_def(&mut self, o: &OpDef) {
        let can_short =
            o.shorthand && o.kind == "query" && o.name.is_none() && o.vars.is_empty() && o.dirs.is_empty();
        if !can_short {
            self.tok(&o.kind);
            if let Some(n) = &o.name {
                self.sp();
                self.tok(n);
            }
            if !o.vars.is_empty() {
                self.osp();
                self.tok("(");
                for (i, v) in o.vars.iter().enumerate() {
                    if i > 0 {
                        self.sp();
                    } else {
                        self.osp();
                    }
                    self.tok("$");
                    self.tok(&v.name);
                    self.osp();
                    self.tok(":");
                    self.psp();
                    self.tok(&v.ty.print());
                    if let Some(d) = &v.default {
                        self.psp();
                        self.tok("=");
                        self.psp();
                        self.value(d);
                    }
                    self.dirs(&v.dirs);
                }
                self.osp();
                self.tok(")");
            }
            self.dirs(&o.dirs);
            self.psp();
        }
        self.selection_set(&o.sels);
    }

    pub fn frag_def(&mut self, f: &FragDef) {
        self.tok("fragment");
        self.sp();
        self.tok(&f.name);
        self.sp();
        self.tok("on");
        self.sp();
        self.tok(&f.on);
        self.dirs(&f.dirs);
        self.psp();
        self.selection_set(&f.sels);
    }

    pub fn def(&mut self, d: &Def) {
        match d {
            Def::Schema(s) => self.schema_def(s),
            Def::Type(t) => self.type_def(t),
            Def::Directive(d) => self.directive_def(d),
            Def::Op(o) => self.op_def(o),
            Def::Frag(f) => self.frag_def(f),
        }
    }

    pub fn doc(&mut self, d: &Doc) {
        for (i, def) in d.defs.iter().enumerate() {
            if i > 0 {
                match self.rng {
                    None => self.out.push_str("\n\n"),
                    Some(_) => {
                        self.sp();
                    }
                }
            } else {
                self.osp();
            }
            self.def(def);
        }
        match self.rng {
            None => self.out.push('\n'),
            Some(_) => self.osp(),
        }
    }
}

pub fn print_plain(d: &Doc) -> String {
    let mut p = Printer::plain();
    p.doc(d);
    p.out
}

pub fn print_trivia(d: &Doc, rng: &mut Rng) -> String {
    let mut p = Printer::trivia(rng);
    p.doc(d);
    p.out
}

pub fn print_def_plain(d: &Def) -> String {
    let mut p = Printer::plain();
    p.def(d);
    p.out
}

pub fn print_value_plain(v: &Val) -> String {
    let mut p = Printer::plain();
    p.value(v);
    p.out
}

// ---------------------------------------------------------------------------------------------
// Flattened schema view (definitions and extensions merged in document order), used by the
// reference models. Built-ins are added here so the references do not depend on apollo's.
// ---------------------------------------------------------------------------------------------

pub const BUILTIN_SCALARS: &[&str] = &["Int", "Float", "String", "Boolean", "ID"];

#[derive(Clone, Debug)]
pub struct FlatType {
    pub kind: Kind,
    pub desc: Option<String>,
    pub name: String,
    pub implements: Vec<String>,
    pub fields: Vec<FieldDef>,
    pub members: Vec<String>,
    pub values: Vec<EnumVal>,
    pub input_fields: Vec<InputDef>,
    pub dirs: Vec<DirApp>,
    pub builtin: bool,
}

#[derive(Clone, Debug, Default)]
pub struct FlatSchema {
    pub desc: Option<String>,
    pub types: Vec<FlatType>,
    pub directives: Vec<DirectiveDef>,
    pub query: Option<String>,
    pub mutation: Option<String>,
    pub subscription: Option<String>,
    pub schema_dirs: Vec<DirApp>,
}

pub fn builtin_directive_defs() -> Vec<DirectiveDef> {
    let b = |n: &str, args: Vec<InputDef>, locs: &[&str]| DirectiveDef {
        desc: None,
        name: n.to_string(),
        args,
        repeatable: false,
        locations: locs.iter().map(|s| s.to_string()).collect(),
    };
    let arg = |n: &str, t: TyRef, d: Option<Val>| InputDef {
        desc: None,
        name: n.to_string(),
        ty: t,
        default: d,
        dirs: vec![],
    };
    vec![
        b(
            "skip",
            vec![arg("if", TyRef::named("Boolean").non_null(), None)],
            &["FIELD", "FRAGMENT_SPREAD", "INLINE_FRAGMENT"],
        ),
        b(
            "include",
            vec![arg("if", TyRef::named("Boolean").non_null(), None)],
            &["FIELD", "FRAGMENT_SPREAD", "INLINE_FRAGMENT"],
        ),
        b(
            "deprecated",
            vec![arg(
                "reason",
                TyRef::named("String"),
                Some(Val::Str("No longer supported".into())),
            )],
            &["FIELD_DEFINITION", "ARGUMENT_DEFINITION", "INPUT_FIELD_DEFINITION", "ENUM_VALUE"],
        ),
        b(
            "specifiedBy",
            vec![arg("url", TyRef::named("String").non_null(), None)],
            &["SCALAR"],
        ),
    ]
}

impl FlatSchema {
    /// Merge a (structurally sane) type-system document. First definition of a name wins; later
    /// extensions append. Does not validate.
    pub fn from_doc(doc: &Doc) -> FlatSchema {
        let mut s = FlatSchema::default();
        let mut explicit_schema = false;
        for d in &doc.defs {
            if let Def::Type(t) = d {
                if !t.ext && !s.types.iter().any(|x| x.name == t.name) {
                    s.types.push(FlatType {
                        kind: t.kind,
                        desc: t.desc.clone(),
                        name: t.name.clone(),
                        implements: vec![],
                        fields: vec![],
                        members: vec![],
                        values: vec![],
                        input_fields: vec![],
                        dirs: vec![],
                        builtin: false,
                    });
                }
            }
        }
        for d in &doc.defs {
            match d {
                Def::Type(t) => {
                    if let Some(ft) = s.types.iter_mut().find(|x| x.name == t.name && x.kind == t.kind) {
                        ft.implements.extend(t.implements.iter().cloned());
                        ft.fields.extend(t.fields.iter().cloned());
                        ft.members.extend(t.members.iter().cloned());
                        ft.values.extend(t.values.iter().cloned());
                        ft.input_fields.extend(t.input_fields.iter().cloned());
                        ft.dirs.extend(t.dirs.iter().cloned());
                    }
                }
                Def::Directive(dd) => {
                    if !s.directives.iter().any(|x| x.name == dd.name) {
                        s.directives.push(dd.clone());
                    }
                }
                Def::Schema(sd) => {
                    if !sd.ext {
                        explicit_schema = true;
                        s.desc = sd.desc.clone();
                    }
                    s.schema_dirs.extend(sd.dirs.iter().cloned());
                    for (op, ty) in &sd.roots {
                        explicit_schema = true;
                        let slot = match op.as_str() {
                            "query" => &mut s.query,
                            "mutation" => &mut s.mutation,
                            _ => &mut s.subscription,
                        };
                        if slot.is_none() {
                            *slot = Some(ty.clone());
                        }
                    }
                }
                _ => {}
            }
        }
        if !explicit_schema {
            for (n, slot) in [
                ("Query", &mut s.query),
                ("Mutation", &mut s.mutation),
                ("Subscription", &mut s.subscription),
            ] {
                if s.types.iter().any(|t| t.name == n && t.kind == Kind::Object) {
                    *slot = Some(n.to_string());
                }
            }
        }
        for b in BUILTIN_SCALARS {
            if !s.types.iter().any(|t| t.name == *b) {
                s.types.push(FlatType {
                    kind: Kind::Scalar,
                    desc: None,
                    name: b.to_string(),
                    implements: vec![],
                    fields: vec![],
                    members: vec![],
                    values: vec![],
                    input_fields: vec![],
                    dirs: vec![],
                    builtin: true,
                });
            }
        }
        for bd in builtin_directive_defs() {
            if !s.directives.iter().any(|d| d.name == bd.name) {
                s.directives.push(bd);
            }
        }
        s
    }

    pub fn ty(&self, name: &str) -> Option<&FlatType> {
        self.types.iter().find(|t| t.name == name)
    }
    pub fn kind(&self, name: &str) -> Option<Kind> {
        self.ty(name).map(|t| t.kind)
    }
    pub fn directive(&self, name: &str) -> Option<&DirectiveDef> {
        self.directives.iter().find(|d| d.name == name)
    }
    pub fn is_input_type(&self, name: &str) -> bool {
        matches!(self.kind(name), Some(Kind::Scalar | Kind::Enum | Kind::Input))
    }
    pub fn is_output_type(&self, name: &str) -> bool {
        matches!(
            self.kind(name),
            Some(Kind::Scalar | Kind::Enum | Kind::Object | Kind::Interface | Kind::Union)
        )
    }
    pub fn is_composite(&self, name: &str) -> bool {
        matches!(self.kind(name), Some(Kind::Object | Kind::Interface | Kind::Union))
    }
    pub fn is_leaf(&self, name: &str) -> bool {
        matches!(self.kind(name), Some(Kind::Scalar | Kind::Enum))
    }
    pub fn field(&self, ty: &str, field: &str) -> Option<&FieldDef> {
        self.ty(ty).and_then(|t| t.fields.iter().find(|f| f.name == field))
    }
    /// Object types that are possible runtime types of `name`.
    pub fn possible_types(&self, name: &str) -> Vec<String> {
        match self.ty(name) {
            Some(t) if t.kind == Kind::Object => vec![t.name.clone()],
            Some(t) if t.kind == Kind::Union => t.members.clone(),
            Some(t) if t.kind == Kind::Interface => self
                .types
                .iter()
                .filter(|o| o.kind == Kind::Object && o.implements.iter().any(|i| *i == t.name))
                .map(|o| o.name.clone())
                .collect(),
            _ => vec![],
        }
    }
    /// Is `sub` the same as or a subtype (implementer / member) of abstract `sup`?
    pub fn is_named_subtype(&self, sub: &str, sup: &str) -> bool {
        if sub == sup {
            return true;
        }
        match (self.ty(sub), self.ty(sup)) {
            (Some(s), Some(p)) => match p.kind {
                Kind::Interface => {
                    matches!(s.kind, Kind::Object | Kind::Interface) && s.implements.iter().any(|i| *i == p.name)
                }
                Kind::Union => s.kind == Kind::Object && p.members.iter().any(|m| *m == s.name),
                _ => false,
            },
            _ => false,
        }
    }
    pub fn root(&self, op: &str) -> Option<&str> {
        match op {
            "query" => self.query.as_deref(),
            "mutation" => self.mutation.as_deref(),
            _ => self.subscription.as_deref(),
        }
    }
}
