//! Generator of *syntactically valid* GraphQL documents whose nesting depth `D` is known by
//! construction (C04 clause e). `D` is the quantity the recursion limit is stated over: the maximum,
//! over all paths, of (enclosing selection sets) + (list-value and object-value levels) + (list-type
//! levels). Braces of type-system definition bodies and parentheses do not count.
//!
//! Every function `*_exact(d)` returns text whose depth is exactly `d`: one child reaches `d-1`
//! (sometimes two in a row — "two deep siblings", which is what exposes a missing decrement), the
//! others are at most that deep. Empty lists/objects (`[]`, `{}`), whose own depth is a matter of
//! definition, are only ever emitted next to a sibling that is at least one level deep, so `D` does
//! not depend on that definition.

use crate::prng::Rng;
use crate::refmodel::lexer::{RefKind, RefLexer};
use std::collections::BTreeSet;

#[derive(Clone, Debug)]
pub struct DefInfo {
    pub text: String,
    pub depth: usize,
    /// executable definition (every `{` counts) vs type-system definition (body braces do not)
    pub executable: bool,
}

#[derive(Clone, Debug)]
pub struct NestedDoc {
    pub text: String,
    pub depth: usize,
    pub defs: Vec<DefInfo>,
    /// construct kinds that lie on a deepest path / shapes used (coverage classes)
    pub labels: BTreeSet<&'static str>,
}

#[derive(Clone, Copy, PartialEq, Eq)]
pub enum ValueStyle {
    List,
    Object,
    Mixed,
}

pub struct NestGen<'a> {
    pub rng: &'a mut Rng,
    pub labels: BTreeSet<&'static str>,
    /// probability (out of 8) of emitting decorations (extra siblings, trivia)
    pub busy: usize,
}

impl<'a> NestGen<'a> {
    pub fn new(rng: &'a mut Rng) -> Self {
        NestGen {
            rng,
            labels: BTreeSet::new(),
            busy: 4,
        }
    }

    fn sep(&mut self) -> &'static str {
        if self.rng.below(8) < self.busy {
            self.rng.pick_str(&[" ", ", ", "\n", " ,", "  ", " # c\n", "\t"])
        } else {
            " "
        }
    }

    fn opt_ws(&mut self) -> &'static str {
        if self.rng.below(8) < self.busy {
            self.rng.pick_str(&["", "", " ", "\n"])
        } else {
            ""
        }
    }

    /// `k` depths with maximum exactly `d`; with `two_in_a_row`, two adjacent slots reach `d`.
    fn split(&mut self, d: usize, k: usize) -> Vec<usize> {
        self.split_l(d, k, None)
    }

    fn split_l(&mut self, d: usize, k: usize, sibling_label: Option<&'static str>) -> Vec<usize> {
        // non-designated siblings are mostly shallow, so that document size stays roughly linear in d
        let mut v: Vec<usize> = (0..k)
            .map(|_| if self.rng.chance(1, 4) { self.rng.below(d + 1) } else { self.rng.below(d.min(2) + 1) })
            .collect();
        let i = self.rng.below(k);
        v[i] = d;
        if k >= 2 && self.rng.chance(1, 3) {
            let j = if i + 1 < k { i + 1 } else { i - 1 };
            v[j] = d;
            if d >= 1 {
                if let Some(l) = sibling_label {
                    self.labels.insert(l);
                }
            }
        }
        v
    }

    pub fn scalar(&mut self, konst: bool) -> String {
        let n = if konst { 9 } else { 11 };
        match self.rng.below(n) {
            0 => "1".into(),
            1 => "-2.5e3".into(),
            2 => "\"s\"".into(),
            3 => "true".into(),
            4 => "null".into(),
            5 => "E".into(),
            6 => "\"\"\"b\"\"\"".into(),
            7 => "0".into(),
            8 => "\"[{\"".into(),
            _ => "$v".into(),
        }
    }

    /// A value with exactly `d` list/object levels around its deepest scalar.
    pub fn value_exact(&mut self, d: usize, konst: bool, style: ValueStyle) -> String {
        if d == 0 {
            return self.scalar(konst);
        }
        let list = match style {
            ValueStyle::List => true,
            ValueStyle::Object => false,
            ValueStyle::Mixed => self.rng.bool(),
        };
        self.labels.insert(if list { "list_value" } else { "object_value" });
        let k = if self.rng.below(8) < self.busy { self.rng.range(1, 3) } else { 1 };
        let depths = self.split_l(d - 1, k, Some(if list { "two_deep_sibling_list_items" } else { "two_deep_sibling_object_fields" }));
        let mut s = String::new();
        s.push_str(if list { "[" } else { "{" });
        s.push_str(self.opt_ws());
        for (i, cd) in depths.iter().enumerate() {
            if i > 0 {
                s.push_str(self.sep());
            }
            if !list {
                s.push_str(&format!("k{i}:"));
                s.push_str(self.opt_ws());
            }
            // an empty list/object only beside a sibling that is >= 1 deep, never as the deep one
            let is_designated = *cd == d - 1;
            if !is_designated && d - 1 >= 1 && self.rng.chance(1, 6) {
                s.push_str(if self.rng.bool() { "[]" } else { "{}" });
            } else {
                let st = if style == ValueStyle::Mixed { ValueStyle::Mixed } else { style };
                s.push_str(&self.value_exact(*cd, konst, st));
            }
        }
        s.push_str(self.opt_ws());
        s.push_str(if list { "]" } else { "}" });
        s
    }

    fn style(&mut self) -> ValueStyle {
        *self.rng.pick(&[ValueStyle::List, ValueStyle::Object, ValueStyle::Mixed, ValueStyle::Mixed])
    }

    /// A type reference with exactly `d` list levels.
    pub fn type_exact(&mut self, d: usize) -> String {
        if d > 0 {
            self.labels.insert("list_type");
        }
        let mut s = String::new();
        for _ in 0..d {
            s.push('[');
            s.push_str(self.opt_ws());
        }
        s.push_str(self.rng.pick_str(&["Int", "T", "String", "In"]));
        if self.rng.chance(1, 3) {
            s.push('!');
        }
        for _ in 0..d {
            s.push_str(self.opt_ws());
            s.push(']');
            if self.rng.chance(1, 4) {
                s.push('!');
            }
        }
        s
    }

    /// `(x: V)` where the deepest argument value has depth `d`.
    fn arguments_exact(&mut self, d: usize, konst: bool) -> String {
        let k = if self.rng.below(8) < self.busy { self.rng.range(1, 2) } else { 1 };
        let depths = self.split(d, k);
        let mut s = String::from("(");
        for (i, vd) in depths.iter().enumerate() {
            if i > 0 {
                s.push_str(self.sep());
            }
            let st = self.style();
            s.push_str(&format!("x{i}:"));
            s.push_str(self.opt_ws());
            s.push_str(&self.value_exact(*vd, konst, st));
        }
        s.push(')');
        s
    }

    /// ` @d(x: V)` with deepest value depth `d` (for `d == 0` possibly without arguments).
    fn directives_exact(&mut self, d: usize, konst: bool) -> String {
        if d == 0 && self.rng.bool() {
            return " @d".into();
        }
        if d > 0 {
            self.labels.insert("directive_argument");
        }
        let k = if self.rng.chance(1, 4) { 2 } else { 1 };
        let depths = self.split(d, k);
        let mut s = String::new();
        for vd in depths {
            s.push_str(" @d");
            s.push_str(&self.arguments_exact(vd, konst));
        }
        s
    }

    /// A field whose contribution below the enclosing selection set is exactly `d`.
    fn field_exact(&mut self, d: usize) -> String {
        let mut s = String::new();
        if self.rng.chance(1, 5) {
            s.push_str("al: ");
        }
        s.push_str(self.rng.pick_str(&["a", "b", "c", "__typename", "on"]));
        // parts: arguments, directives, sub-selection (needs >= 1)
        let mut parts: Vec<usize> = Vec::new(); // 0 = args, 1 = directives, 2 = selection set
        if d == 0 {
            if self.rng.chance(1, 3) {
                parts.push(0);
            }
            if self.rng.chance(1, 4) {
                parts.push(1);
            }
        } else {
            // choose which part carries d
            let carrier = self.rng.below(3);
            for p in 0..3 {
                if p == carrier || self.rng.below(8) < self.busy / 2 {
                    parts.push(p);
                }
            }
        }
        let depths = if parts.is_empty() { Vec::new() } else { self.split(d, parts.len()) };
        // the slot that must be >= 1 (selection set) gets at least 1
        for (p, pd) in parts.iter().zip(depths.iter()) {
            match p {
                0 => {
                    if *pd > 0 {
                        self.labels.insert("argument");
                    }
                    s.push_str(&self.arguments_exact(*pd, false));
                }
                1 => s.push_str(&self.directives_exact(*pd, false)),
                _ => {
                    if *pd == 0 {
                        continue; // a field without sub-selection
                    }
                    s.push(' ');
                    s.push_str(&self.selection_set_exact(*pd));
                }
            }
        }
        s
    }

    fn selection_exact(&mut self, d: usize) -> String {
        match self.rng.below(6) {
            0 if d >= 1 => {
                self.labels.insert("inline_fragment");
                let with_dir = self.rng.chance(1, 3);
                let mut s = String::from("...");
                if self.rng.bool() {
                    s.push_str(" on T");
                }
                if with_dir {
                    let ds = self.split(d, 2);
                    s.push_str(&self.directives_exact(ds[0], false));
                    s.push(' ');
                    s.push_str(&self.selection_set_exact(ds[1].max(1)));
                } else {
                    s.push(' ');
                    s.push_str(&self.selection_set_exact(d));
                }
                s
            }
            1 if d == 0 => "...F".into(),
            1 => {
                let mut s = String::from("...F");
                s.push_str(&self.directives_exact(d, false));
                s
            }
            _ => self.field_exact(d),
        }
    }

    /// `{ … }` whose selection-set nesting (plus values below) is exactly `d >= 1`.
    pub fn selection_set_exact(&mut self, d: usize) -> String {
        assert!(d >= 1);
        self.labels.insert("selection_set");
        let k = if self.rng.below(8) < self.busy { self.rng.range(1, 3) } else { 1 };
        let depths = self.split_l(d - 1, k, Some("two_deep_sibling_selections"));
        let mut s = String::from("{");
        s.push_str(self.opt_ws());
        for (i, sd) in depths.iter().enumerate() {
            if i > 0 {
                s.push_str(self.sep());
            }
            s.push_str(&self.selection_exact(*sd));
        }
        s.push_str(self.opt_ws());
        s.push('}');
        s
    }

    /// An operation or fragment definition with depth exactly `d >= 1`.
    pub fn executable_def_exact(&mut self, d: usize) -> String {
        assert!(d >= 1);
        match self.rng.below(5) {
            0 => self.selection_set_exact(d), // shorthand query
            1 => {
                let ds = self.split(d, 2);
                let mut s = String::from("fragment F on T");
                s.push_str(&self.directives_exact(ds[0], false));
                s.push(' ');
                s.push_str(&self.selection_set_exact(ds[1].max(1)));
                s
            }
            _ => {
                // query Q($v: TYPE = DEFAULT @d(x: V)) @d(x: V) { … }
                let with_vars = self.rng.chance(2, 3);
                let ds = if with_vars {
                    self.split(d, 5)
                } else {
                    let two = self.split(d, 2);
                    vec![0, 0, 0, two[0], two[1]]
                };
                let mut s = String::from(self.rng.pick_str(&["query", "mutation", "subscription"]));
                if self.rng.bool() {
                    s.push_str(" Q");
                }
                if with_vars {
                    s.push_str("($v:");
                    s.push_str(self.opt_ws());
                    if ds[0] > 0 {
                        self.labels.insert("variable_type");
                    }
                    s.push_str(&self.type_exact(ds[0]));
                    if ds[1] > 0 || self.rng.bool() {
                        if ds[1] > 0 {
                            self.labels.insert("variable_default");
                        }
                        s.push_str(" = ");
                        let st = self.style();
                        s.push_str(&self.value_exact(ds[1], true, st));
                    }
                    if ds[2] > 0 || self.rng.chance(1, 4) {
                        s.push_str(&self.directives_exact(ds[2], true));
                    }
                    if self.rng.chance(1, 4) {
                        s.push_str(", $w: Int");
                    }
                    s.push(')');
                }
                if ds[3] > 0 || self.rng.chance(1, 4) {
                    s.push_str(&self.directives_exact(ds[3], false));
                }
                s.push(' ');
                s.push_str(&self.selection_set_exact(ds[4].max(1)));
                s
            }
        }
    }

    /// `NAME(a: TYPE = DEFAULT @d(x: V))` style input value definition; depth exactly `d`.
    fn input_value_def_exact(&mut self, d: usize) -> String {
        let ds = self.split(d, 3);
        let mut s = String::new();
        if self.rng.chance(1, 6) {
            s.push_str("\"doc\" ");
        }
        s.push_str("k: ");
        s.push_str(&self.type_exact(ds[0]));
        if ds[1] > 0 || self.rng.bool() {
            if ds[1] > 0 {
                self.labels.insert("input_value_default");
            }
            s.push_str(" = ");
            let st = self.style();
            s.push_str(&self.value_exact(ds[1], true, st));
        }
        if ds[2] > 0 || self.rng.chance(1, 4) {
            s.push_str(&self.directives_exact(ds[2], true));
        }
        s
    }

    /// A type-system definition or extension with depth exactly `d` (`d == 0` allowed).
    pub fn type_system_def_exact(&mut self, d: usize) -> String {
        self.labels.insert("type_system_definition");
        match self.rng.below(10) {
            0 => {
                let ds = self.split(d, 4);
                let mut s = String::new();
                let head = self.rng.pick_str(&["type T", "interface I", "extend type T", "type T implements I & J"]);
                if !head.starts_with("extend") && self.rng.chance(1, 4) {
                    s.push_str("\"\"\"desc [[{{\"\"\"\n");
                }
                s.push_str(head);
                if ds[0] > 0 || self.rng.chance(1, 4) {
                    s.push_str(&self.directives_exact(ds[0], true));
                }
                s.push_str(" { f");
                if ds[1] > 0 || self.rng.bool() {
                    s.push('(');
                    s.push_str(&self.input_value_def_exact(ds[1]));
                    s.push(')');
                }
                s.push_str(": ");
                s.push_str(&self.type_exact(ds[2]));
                if ds[3] > 0 || self.rng.chance(1, 4) {
                    s.push_str(&self.directives_exact(ds[3], true));
                }
                if self.rng.bool() {
                    s.push_str(self.sep());
                    s.push_str("g: Int");
                }
                s.push_str(" }");
                s
            }
            1 => {
                let ds = self.split(d, 2);
                let mut s = String::from(self.rng.pick_str(&["input In", "extend input In"]));
                if ds[0] > 0 || self.rng.chance(1, 4) {
                    s.push_str(&self.directives_exact(ds[0], true));
                }
                s.push_str(" { ");
                s.push_str(&self.input_value_def_exact(ds[1]));
                if self.rng.bool() {
                    s.push_str(self.sep());
                    s.push_str("j: Int = 1");
                }
                s.push_str(" }");
                s
            }
            2 => {
                let ds = self.split(d, 2);
                let mut s = String::from("enum E");
                if ds[0] > 0 || self.rng.chance(1, 4) {
                    s.push_str(&self.directives_exact(ds[0], true));
                }
                s.push_str(" { A");
                if ds[1] > 0 || self.rng.chance(1, 4) {
                    s.push_str(&self.directives_exact(ds[1], true));
                }
                s.push_str(" B }");
                s
            }
            3 => {
                let mut s = String::from(self.rng.pick_str(&["scalar S", "extend scalar S", "union U", "extend union U"]));
                let union = s.contains("union");
                if d > 0 || s.starts_with("extend") || self.rng.bool() {
                    s.push_str(&self.directives_exact(d, true));
                }
                if union {
                    s.push_str(" = A | B");
                }
                s
            }
            4 => {
                let mut s = String::from("directive @d(");
                s.push_str(&self.input_value_def_exact(d));
                s.push_str(") ");
                if self.rng.bool() {
                    s.push_str("repeatable ");
                }
                s.push_str("on FIELD | QUERY");
                s
            }
            5 => {
                let mut s = String::from(self.rng.pick_str(&["schema", "extend schema"]));
                if d > 0 || self.rng.chance(1, 4) {
                    s.push_str(&self.directives_exact(d, true));
                }
                s.push_str(" { query: Q }");
                s
            }
            _ => {
                // plain object type with a list-typed field or argument
                let ds = self.split(d, 2);
                format!("type T {{ f(k: {}): {} }}", self.type_exact(ds[0]), self.type_exact(ds[1]))
            }
        }
    }

    /// A document of 1–3 definitions with depth exactly `d`.
    pub fn document_exact(&mut self, d: usize) -> NestedDoc {
        let k = if self.rng.below(8) < self.busy { self.rng.range(1, 3) } else { 1 };
        let depths = self.split(d, k);
        let mut defs = Vec::new();
        for dd in depths {
            let exec = if dd == 0 { false } else { self.rng.chance(2, 3) };
            let text = if exec { self.executable_def_exact(dd) } else { self.type_system_def_exact(dd) };
            defs.push(DefInfo {
                text,
                depth: dd,
                executable: exec,
            });
        }
        let mut text = String::new();
        if self.rng.chance(1, 8) {
            text.push_str(self.rng.pick_str(&["\u{FEFF}", "\n", "# lead\n", " "]));
        }
        for (i, df) in defs.iter().enumerate() {
            if i > 0 {
                text.push_str(self.rng.pick_str(&["\n", "\n\n", " ", "\n# c\n"]));
            }
            text.push_str(&df.text);
        }
        if self.rng.chance(1, 4) {
            text.push_str(self.rng.pick_str(&["\n", " ", "\n# end", ","]));
        }
        NestedDoc {
            text,
            depth: d,
            defs,
            labels: std::mem::take(&mut self.labels),
        }
    }
}

/// Independent token-level recount of the depth of ONE definition, used to cross-check the
/// generator's bookkeeping: maximum nesting of `{`/`[` over `RefLexer` tokens, where the body brace
/// of a type-system definition (a `{` opened at bracket depth 0 outside any parentheses) does not
/// count. Empty `[]`/`{}` are counted as one level, which by construction never exceeds a sibling.
/// `None`: the text is not lexically valid or the brackets are unbalanced.
pub fn recount_depth(def_text: &str, executable: bool) -> Option<usize> {
    let lexed = RefLexer::strict().lex(def_text);
    if lexed.error.is_some() {
        return None;
    }
    let mut stack: Vec<(RefKind, bool)> = Vec::new(); // (opening kind, counts)
    let mut depth = 0usize;
    let mut max = 0usize;
    let mut parens = 0usize;
    for t in lexed.significant() {
        match t.kind {
            RefKind::LParen => parens += 1,
            RefKind::RParen => parens = parens.checked_sub(1)?,
            RefKind::LCurly | RefKind::LBracket => {
                let body = !executable && t.kind == RefKind::LCurly && parens == 0 && stack.is_empty();
                let counts = !body;
                if counts {
                    depth += 1;
                    max = max.max(depth);
                }
                stack.push((t.kind, counts));
            }
            RefKind::RCurly | RefKind::RBracket => {
                let (open, counts) = stack.pop()?;
                let ok = matches!((open, t.kind), (RefKind::LCurly, RefKind::RCurly) | (RefKind::LBracket, RefKind::RBracket));
                if !ok {
                    return None;
                }
                if counts {
                    depth -= 1;
                }
            }
            _ => {}
        }
    }
    if !stack.is_empty() || parens != 0 {
        return None;
    }
    Some(max)
}
