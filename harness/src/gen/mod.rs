pub mod exec_gen;
pub mod from_ast;
pub mod inputs;
pub mod model;
pub mod schema_gen;
pub mod text;
