pub mod inputs;
pub mod text;
