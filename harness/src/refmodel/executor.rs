//! `RefExecutor` — the GraphQL execution algorithm (October 2021, section 6) written directly over
//! the harness document model (`FlatSchema` + executable `Doc`), executing against a *resolver
//! world*: a table `(object type name, field name) -> Outcome`.
//!
//! Nothing here calls into apollo-rs. The algorithm names follow the specification:
//! `ExecuteSelectionSet`, `CollectFields`, `DoesFragmentTypeApply`, `ExecuteField`,
//! `CoerceArgumentValues` (only its error/no-error verdict matters: outcomes do not depend on
//! argument values), `CompleteValue`, `ResolveAbstractType` (the world names the runtime type),
//! `MergeSelectionSets`, and "Handling Field Errors" (null propagation).
//!
//! Deliberate, documented choices of apollo-compiler that the reference follows (DESIGN Appendix B)
//! are marked `APOLLO-DOC` with their source.
//!
//! One choice the specification leaves open is made a *parameter* instead (`cancel`): section
//! 6.4.4 says that when a non-null field error propagates through a selection set, "any sibling
//! fields which have not yet executed or have not yet yielded a value may be cancelled". With
//! `cancel = true` the reference stops at the first propagation (a serial executor that cancels
//! everything it legally can), with `cancel = false` it executes every sibling and every remaining
//! list item. `data` is the same in both modes; the error multisets are the lower and upper end of
//! what a serial, document-order executor may report.

use crate::gen::model::*;
use serde_json::{json, Map, Value as J};
use std::collections::{BTreeMap, BTreeSet};

// ---------------------------------------------------------------------------------------------
// Resolver world
// ---------------------------------------------------------------------------------------------

/// What a resolver (or a list iterator, for items) yields.
#[derive(Clone, Debug, PartialEq)]
pub enum Outcome {
    /// A leaf JSON value, served as is (correct, wrong kind, out of range … the executor decides).
    Leaf(J),
    /// JSON null.
    Null,
    /// `resolve_field` returns `Err`; inside a `List`: the list iterator yields `Err` for that item.
    Err,
    /// An object whose `type_name()` is this string (right, unknown, or not a possible type).
    Object(String),
    /// A list (iterator / stream) of outcomes, nested arbitrarily.
    List(Vec<Outcome>),
}

impl Outcome {
    pub fn to_json(&self) -> J {
        match self {
            Outcome::Leaf(v) => json!({"leaf": v}),
            Outcome::Null => json!("null"),
            Outcome::Err => json!("err"),
            Outcome::Object(t) => json!({"object": t}),
            Outcome::List(xs) => json!({"list": xs.iter().map(|x| x.to_json()).collect::<Vec<_>>()}),
        }
    }
    pub fn from_json(v: &J) -> Option<Outcome> {
        match v {
            J::String(s) if s == "null" => Some(Outcome::Null),
            J::String(s) if s == "err" => Some(Outcome::Err),
            J::Object(m) => {
                if let Some(l) = m.get("leaf") {
                    Some(Outcome::Leaf(l.clone()))
                } else if let Some(t) = m.get("object") {
                    Some(Outcome::Object(t.as_str()?.to_string()))
                } else if let Some(J::Array(xs)) = m.get("list") {
                    xs.iter().map(Outcome::from_json).collect::<Option<Vec<_>>>().map(Outcome::List)
                } else {
                    None
                }
            }
            _ => None,
        }
    }
    /// Number of list items (at any depth) in this outcome: each is one stream item for C27.
    pub fn item_count(&self) -> usize {
        match self {
            Outcome::List(xs) => xs.len() + xs.iter().map(|x| x.item_count()).sum::<usize>(),
            _ => 0,
        }
    }
}

#[derive(Clone, Debug, PartialEq)]
pub struct Cell {
    /// Label of the outcome kind (coverage only, never consulted by an executor).
    pub kind: String,
    pub outcome: Outcome,
}

/// `(object type name, field name) -> Outcome`. A missing cell behaves as a resolver `Err`
/// ("unknown field"), in the reference and in the apollo-side implementations alike.
#[derive(Clone, Debug, Default, PartialEq)]
pub struct World {
    pub cells: BTreeMap<(String, String), Cell>,
}

impl World {
    pub fn get(&self, ty: &str, field: &str) -> Option<&Outcome> {
        self.cells.get(&(ty.to_string(), field.to_string())).map(|c| &c.outcome)
    }
    pub fn set(&mut self, ty: &str, field: &str, kind: &str, outcome: Outcome) {
        self.cells.insert(
            (ty.to_string(), field.to_string()),
            Cell {
                kind: kind.to_string(),
                outcome,
            },
        );
    }
    pub fn to_json(&self) -> J {
        let mut m = Map::new();
        for ((t, f), c) in &self.cells {
            m.insert(format!("{t}.{f}"), json!({"kind": c.kind, "outcome": c.outcome.to_json()}));
        }
        J::Object(m)
    }
    pub fn from_json(v: &J) -> Option<World> {
        let mut w = World::default();
        for (k, c) in v.as_object()? {
            let (t, f) = k.split_once('.')?;
            let kind = c.get("kind").and_then(|x| x.as_str()).unwrap_or("");
            w.set(t, f, kind, Outcome::from_json(c.get("outcome")?)?);
        }
        Some(w)
    }
}

// ---------------------------------------------------------------------------------------------
// Paths
// ---------------------------------------------------------------------------------------------

#[derive(Clone, Debug, PartialEq, Eq, Hash, PartialOrd, Ord)]
pub enum Seg {
    Key(String),
    Idx(usize),
}

pub type Path = Vec<Seg>;

pub fn path_to_json(p: &Path) -> J {
    J::Array(
        p.iter()
            .map(|s| match s {
                Seg::Key(k) => json!(k),
                Seg::Idx(i) => json!(i),
            })
            .collect(),
    )
}

pub fn path_from_json(v: &J) -> Option<Path> {
    v.as_array()?
        .iter()
        .map(|s| match s {
            J::String(k) => Some(Seg::Key(k.clone())),
            J::Number(n) => n.as_u64().map(|i| Seg::Idx(i as usize)),
            _ => None,
        })
        .collect()
}

/// Path with names masked: `k.k[].k` (used in violation signatures).
pub fn path_class(p: &Path) -> String {
    let mut s = String::from("$");
    for seg in p {
        match seg {
            Seg::Key(_) => s.push_str(".k"),
            Seg::Idx(_) => s.push_str("[]"),
        }
    }
    s
}

fn push(p: &Path, s: Seg) -> Path {
    let mut q = p.clone();
    q.push(s);
    q
}

// ---------------------------------------------------------------------------------------------
// Executor
// ---------------------------------------------------------------------------------------------

/// A field error reached a non-nullable position and is travelling to the nearest nullable parent
/// (section 6.4.4 "Handling Field Errors").
#[derive(Debug, Clone, Copy)]
pub struct Propagate;

#[derive(Clone, Debug, PartialEq, Eq)]
pub struct Call {
    pub object_type: String,
    pub field: String,
    /// Response path of the field being resolved.
    pub path: Path,
}

#[derive(Clone, Debug)]
pub struct RefResponse {
    /// `None` = `"data": null` (a null propagated to the root).
    pub data: Option<Map<String, J>>,
    pub errors: Vec<Path>,
    pub calls: Vec<Call>,
    /// Coverage events (which branches of the algorithm ran).
    pub events: BTreeSet<&'static str>,
}

/// A selection together with the *static* parent type of the selection set it was written in
/// (root type, type condition of the enclosing fragment, or the declared type of the enclosing
/// field). The specification's algorithm never needs it; it is carried for diagnosis only.
pub type SSel<'a> = (&'a Sel, &'a str);
pub type Group<'a> = (String, Vec<SSel<'a>>);

pub struct RefExecutor<'a> {
    pub schema: &'a FlatSchema,
    pub doc: &'a Doc,
    /// Coerced variable values (the output of `CoerceVariableValues`).
    pub vars: &'a Map<String, J>,
    pub world: &'a World,
    /// Section 6.4.4: cancel siblings / remaining list items once a propagation is certain.
    pub cancel: bool,
    /// DIAGNOSIS ONLY, never used for a verdict: complete a field's value with the type declared
    /// by the *static* parent type of its first selection (e.g. the interface) instead of the type
    /// declared by the runtime object type, which is what the specification prescribes
    /// ("Let fieldType be the return type defined for the field fieldName of objectType").
    pub complete_with_static_type: bool,
    pub errors: Vec<Path>,
    pub calls: Vec<Call>,
    pub events: BTreeSet<&'static str>,
}

fn meta_field_type(schema: &FlatSchema, object_type: &str, field: &str) -> Option<TyRef> {
    match field {
        // `__typename: String!` on every composite type (section 4.1 "Type Name Introspection").
        "__typename" => Some(TyRef::named("String").non_null()),
        // `__schema: __Schema!` and `__type(name: String!): __Type` on the query root only
        // (section 4.2 "Schema Introspection").
        "__schema" if schema.query.as_deref() == Some(object_type) => Some(TyRef::named("__Schema").non_null()),
        "__type" if schema.query.as_deref() == Some(object_type) => Some(TyRef::named("__Type")),
        _ => None,
    }
}

impl<'a> RefExecutor<'a> {
    pub fn new(schema: &'a FlatSchema, doc: &'a Doc, vars: &'a Map<String, J>, world: &'a World, cancel: bool) -> Self {
        RefExecutor {
            schema,
            doc,
            vars,
            world,
            cancel,
            complete_with_static_type: false,
            errors: vec![],
            calls: vec![],
            events: BTreeSet::new(),
        }
    }

    /// `ExecuteQuery` / `ExecuteMutation`: root selection set on the root operation type. Serial
    /// versus normal execution does not change the result of a serial reference.
    pub fn execute(mut self, op: &'a OpDef) -> RefResponse {
        let root = self.schema.root(&op.kind).unwrap_or("").to_string();
        let sels = self.root_sels(op);
        let r = self.execute_selection_set(&root, &sels, &vec![]);
        let data = match r {
            Ok(m) => Some(m),
            Err(Propagate) => {
                // "If all fields from the root of the request to the source of the field error
                // return Non-Null types, then the "data" entry in the response should be null."
                self.events.insert("null-propagated-to-root");
                None
            }
        };
        RefResponse {
            data,
            errors: self.errors,
            calls: self.calls,
            events: self.events,
        }
    }

    pub fn root_sels(&self, op: &'a OpDef) -> Vec<SSel<'a>> {
        let root: &'a str = self.schema.root(&op.kind).unwrap_or("");
        op.sels.iter().map(|s| (s, root)).collect()
    }

    /// `MergeSelectionSets(fields)`; each sub-selection's static parent is the declared type of the
    /// field it hangs from.
    pub fn merged_sub_selections(&self, fields: &[SSel<'a>]) -> Vec<SSel<'a>> {
        let mut sub: Vec<SSel<'a>> = Vec::new();
        for (f, parent) in fields {
            if let Sel::Field { name, sels, .. } = f {
                let schema: &'a FlatSchema = self.schema;
                let sp: &'a str = schema.field(parent, name).map(|fd| fd.ty.inner_name()).unwrap_or("");
                sub.extend(sels.iter().map(|s| (s, sp)));
            }
        }
        sub
    }

    /// `@skip` / `@include` as written in `CollectFields` step 3.a/3.b.
    fn excluded(&self, dirs: &[DirApp]) -> bool {
        let is_true = |d: &DirApp| -> bool {
            match d.args.iter().find(|(n, _)| n == "if").map(|(_, v)| v) {
                Some(Val::Bool(b)) => *b,
                Some(Val::Var(v)) => self.vars.get(v) == Some(&J::Bool(true)),
                _ => false,
            }
        };
        if let Some(d) = dirs.iter().find(|d| d.name == "skip") {
            if is_true(d) {
                return true;
            }
        }
        if let Some(d) = dirs.iter().find(|d| d.name == "include") {
            if !is_true(d) {
                return true;
            }
        }
        false
    }

    /// `DoesFragmentTypeApply(objectType, fragmentType)`.
    pub fn does_fragment_type_apply(&self, object_type: &str, fragment_type: &str) -> bool {
        match self.schema.ty(fragment_type) {
            Some(t) if t.kind == Kind::Object => t.name == object_type,
            Some(t) if t.kind == Kind::Interface => self
                .schema
                .ty(object_type)
                .map(|o| o.kind == Kind::Object && o.implements.iter().any(|i| *i == t.name))
                .unwrap_or(false),
            Some(t) if t.kind == Kind::Union => t.members.iter().any(|m| m == object_type),
            _ => false,
        }
    }

    /// `CollectFields(objectType, selectionSet, variableValues)`: ordered map response key →
    /// field selections, in order of first appearance.
    pub fn collect_fields(&self, object_type: &str, sels: &[SSel<'a>]) -> Vec<Group<'a>> {
        let mut groups: Vec<Group<'a>> = Vec::new();
        let mut visited: Vec<String> = Vec::new();
        self.collect_into(object_type, sels, &mut visited, &mut groups);
        groups
    }

    fn collect_into(&self, object_type: &str, sels: &[SSel<'a>], visited: &mut Vec<String>, groups: &mut Vec<Group<'a>>) {
        for ssel in sels {
            let ssel: SSel<'a> = *ssel;
            let sel: &'a Sel = ssel.0;
            match sel {
                Sel::Field { alias, name, dirs, .. } => {
                    if self.excluded(dirs) {
                        continue;
                    }
                    let key = alias.clone().unwrap_or_else(|| name.clone());
                    match groups.iter_mut().find(|(k, _)| *k == key) {
                        Some((_, v)) => v.push(ssel),
                        None => groups.push((key, vec![ssel])),
                    }
                }
                Sel::Spread { name, dirs } => {
                    if self.excluded(dirs) {
                        continue;
                    }
                    if visited.contains(name) {
                        continue;
                    }
                    visited.push(name.clone());
                    let Some(frag) = self.doc.frag(name) else { continue };
                    if !self.does_fragment_type_apply(object_type, &frag.on) {
                        continue;
                    }
                    let inner: Vec<SSel<'a>> = frag.sels.iter().map(|s| (s, frag.on.as_str())).collect();
                    self.collect_into(object_type, &inner, visited, groups);
                }
                Sel::Inline { on, dirs, sels } => {
                    if self.excluded(dirs) {
                        continue;
                    }
                    if let Some(cond) = on {
                        if !self.does_fragment_type_apply(object_type, cond) {
                            continue;
                        }
                    }
                    let parent: &'a str = match on {
                        Some(c) => c.as_str(),
                        None => ssel.1,
                    };
                    let inner: Vec<SSel<'a>> = sels.iter().map(|s| (s, parent)).collect();
                    self.collect_into(object_type, &inner, visited, groups);
                }
            }
        }
    }

    /// The declared type of `field` on `object_type` (meta-fields included).
    pub fn field_type(&self, object_type: &str, field: &str) -> Option<TyRef> {
        if field.starts_with("__") {
            if let Some(t) = meta_field_type(self.schema, object_type, field) {
                return Some(t);
            }
        }
        self.schema.field(object_type, field).map(|f| f.ty.clone())
    }

    /// `ExecuteSelectionSet(selectionSet, objectType, objectValue, variableValues)`.
    pub fn execute_selection_set(&mut self, object_type: &str, sels: &[SSel<'a>], path: &Path) -> Result<Map<String, J>, Propagate> {
        let groups = self.collect_fields(object_type, sels);
        let mut map = Map::new();
        let mut failed = false;
        for (key, fields) in groups {
            let Sel::Field { name, .. } = fields[0].0 else { continue };
            // "If fieldType is defined" — always is for a valid operation.
            let Some(ty) = self.field_type(object_type, name) else { continue };
            let fpath = push(path, Seg::Key(key.clone()));
            match self.execute_field(object_type, &ty, &fields, &fpath) {
                Ok(v) => {
                    map.insert(key, v);
                }
                Err(Propagate) => {
                    // "If during ExecuteSelectionSet() a field with a non-null fieldType raises a
                    // field error then that error must propagate to the entire selection set"
                    self.events.insert("selection-set-nulled-by-non-null-field");
                    if self.cancel {
                        return Err(Propagate);
                    }
                    failed = true;
                }
            }
        }
        if failed {
            Err(Propagate)
        } else {
            Ok(map)
        }
    }

    /// `ExecuteField`: coerce arguments, resolve, complete; a field error becomes `null` here if the
    /// field type is nullable, otherwise it keeps propagating.
    fn execute_field(&mut self, object_type: &str, ty: &TyRef, fields: &[SSel<'a>], path: &Path) -> Result<J, Propagate> {
        let Sel::Field { name, .. } = fields[0].0 else { unreachable!() };
        let completion_ty = if self.complete_with_static_type {
            self.field_type(fields[0].1, name).unwrap_or_else(|| ty.clone())
        } else {
            ty.clone()
        };
        let r = self.execute_field_inner(object_type, name, &completion_ty, fields, path);
        self.nullify(ty, r, "field")
    }

    fn nullify(&mut self, ty: &TyRef, r: Result<J, Propagate>, what: &'static str) -> Result<J, Propagate> {
        match r {
            Ok(v) => Ok(v),
            Err(Propagate) if ty.is_non_null() => {
                self.events.insert(match what {
                    "field" => "propagated-through-non-null-field",
                    "item" => "propagated-through-non-null-item",
                    _ => "propagated-through-non-null-list",
                });
                Err(Propagate)
            }
            Err(Propagate) => {
                self.events.insert(match what {
                    "field" => "error-nulled-at-field",
                    "item" => "error-nulled-at-list-item",
                    _ => "error-nulled-at-list",
                });
                Ok(J::Null)
            }
        }
    }

    fn execute_field_inner(&mut self, object_type: &str, name: &str, ty: &TyRef, fields: &[SSel<'a>], path: &Path) -> Result<J, Propagate> {
        // CoerceArgumentValues(objectType, field, variableValues): any failure is a field error.
        if !self.coerce_argument_values_ok(object_type, fields[0].0) {
            self.events.insert("argument-coercion-field-error");
            self.errors.push(path.clone());
            return Err(Propagate);
        }
        let resolved: Outcome = match name {
            // APOLLO-DOC: "`resolve_field` is never called for meta-fields `__typename`, `__schema`,
            // or `__type`. They are always handled implicitly." (Execution::enable_schema_introspection
            // docs, resolvers/mod.rs). `__typename` is the name of the object type being executed.
            "__typename" => {
                self.events.insert("typename-answered-by-executor");
                Outcome::Leaf(J::String(object_type.to_string()))
            }
            // APOLLO-DOC: "By default, schema introspection is disabled …: the meta-field `__schema`
            // and `__type` return a field error." (same doc comment). The reference is only ever run
            // with introspection disabled.
            "__schema" | "__type" if meta_field_type(self.schema, object_type, name).is_some() => {
                self.events.insert("schema-introspection-disabled-field-error");
                Outcome::Err
            }
            _ => {
                self.calls.push(Call {
                    object_type: object_type.to_string(),
                    field: name.to_string(),
                    path: path.clone(),
                });
                // a world without the cell: `unknown_field_error` ⇒ resolver Err
                self.world.get(object_type, name).cloned().unwrap_or(Outcome::Err)
            }
        };
        if resolved == Outcome::Err {
            // "If a field error is raised while resolving a field, it is handled as though the
            // field returned null, and the error must be added to the "errors" list"
            self.events.insert("resolver-error");
            self.errors.push(path.clone());
            return Err(Propagate);
        }
        self.complete_value(ty, &resolved, fields, path)
    }

    /// `CompleteValue(fieldType, fields, result, variableValues)`.
    pub fn complete_value(&mut self, ty: &TyRef, result: &Outcome, fields: &[SSel<'a>], path: &Path) -> Result<J, Propagate> {
        // 1. Non-Null: complete the inner type; a null result is a field error.
        // 2. "If result is null (or another internal value similar to null …), return null."
        if matches!(result, Outcome::Null) || matches!(result, Outcome::Leaf(J::Null)) {
            if ty.is_non_null() {
                self.events.insert("non-null-resolved-to-null");
                self.errors.push(path.clone());
                return Err(Propagate);
            }
            return Ok(J::Null);
        }
        let inner = ty.nullable();
        match (&inner, result) {
            // 3. List type
            (TyRef::List(item_ty), Outcome::List(items)) => {
                let mut out = Vec::with_capacity(items.len());
                let mut failed = false;
                for (i, item) in items.iter().enumerate() {
                    let ipath = push(path, Seg::Idx(i));
                    if *item == Outcome::Err {
                        // APOLLO-DOC: an `Err` item from the list iterator fails THE LIST, with the
                        // error located at the item's path — pinned by unit test `test_error_path`
                        // (resolvers/result_coercion.rs: `f: [Int]`, items `[42, Err]` ⇒
                        // `"f": null`, path `["f", 1]`); `ResolvedValue::list` docs: "If errors can
                        // happen during iteration, construct the `ResolvedValue::List` enum variant
                        // directly". The iterator is not advanced further.
                        self.events.insert("list-failed-by-iterator-error");
                        self.errors.push(ipath);
                        return Err(Propagate);
                    }
                    let r = self.complete_value(item_ty, item, fields, &ipath);
                    match self.nullify(item_ty, r, "item") {
                        Ok(v) => out.push(v),
                        Err(Propagate) => {
                            // "If a List type wraps a Non-Null type, and one of the elements of that
                            // list resolves to null, then the entire list must resolve to null."
                            self.events.insert("list-nulled-by-non-null-item");
                            if self.cancel {
                                // the list itself becomes null if its own type allows it (the caller
                                // applies the same rule with the same type; doing it here as well is
                                // idempotent and keeps the diagnosis mode exact)
                                return self.nullify(ty, Err(Propagate), "list");
                            }
                            failed = true;
                        }
                    }
                }
                if failed {
                    self.nullify(ty, Err(Propagate), "list")
                } else {
                    Ok(J::Array(out))
                }
            }
            // 3.a "If result is not a collection of values, raise a field error."
            (TyRef::List(_), _) => {
                self.events.insert("list-type-resolved-to-non-list");
                self.errors.push(path.clone());
                Err(Propagate)
            }
            // a collection where a named type is expected cannot be coerced / resolved
            (TyRef::Named(_), Outcome::List(_)) => {
                self.events.insert("named-type-resolved-to-list");
                self.errors.push(path.clone());
                Err(Propagate)
            }
            (TyRef::Named(n), Outcome::Leaf(v)) => {
                match self.schema.kind(n) {
                    // 4. Scalar or Enum: result coercion
                    Some(Kind::Scalar) | Some(Kind::Enum) => {
                        if self.coerce_leaf_ok(n, v) {
                            self.events.insert("leaf-completed");
                            Ok(v.clone())
                        } else {
                            self.events.insert("leaf-coercion-error");
                            self.errors.push(path.clone());
                            Err(Propagate)
                        }
                    }
                    // a leaf where an object is expected: ResolveAbstractType / object completion
                    // has nothing to work with ⇒ field error
                    _ => {
                        self.events.insert("composite-type-resolved-to-leaf");
                        self.errors.push(path.clone());
                        Err(Propagate)
                    }
                }
            }
            (TyRef::Named(n), Outcome::Object(runtime)) => {
                let object_type: String = match self.schema.kind(n) {
                    // 5. Object, Interface, Union
                    Some(Kind::Object) => {
                        if runtime == n {
                            runtime.clone()
                        } else {
                            self.events.insert("object-of-wrong-type");
                            self.errors.push(path.clone());
                            return Err(Propagate);
                        }
                    }
                    Some(Kind::Interface) | Some(Kind::Union) => {
                        // ResolveAbstractType must yield an Object type that is a possible type.
                        let is_object = self.schema.kind(runtime) == Some(Kind::Object);
                        if is_object && self.schema.possible_types(n).iter().any(|p| p == runtime) {
                            self.events.insert("abstract-type-resolved");
                            runtime.clone()
                        } else {
                            self.events.insert(if is_object { "object-not-a-possible-type" } else { "object-of-unknown-type" });
                            self.errors.push(path.clone());
                            return Err(Propagate);
                        }
                    }
                    // an object where a leaf is expected cannot be result-coerced
                    _ => {
                        self.events.insert("leaf-type-resolved-to-object");
                        self.errors.push(path.clone());
                        return Err(Propagate);
                    }
                };
                // MergeSelectionSets(fields)
                let sub = self.merged_sub_selections(fields);
                self.execute_selection_set(&object_type, &sub, path).map(J::Object)
            }
            (_, Outcome::Null) | (_, Outcome::Err) | (TyRef::NonNull(_), _) => unreachable!(),
        }
    }

    /// Result coercion of scalars and enums.
    ///
    /// APOLLO-DOC (resolvers/result_coercion.rs `complete_leaf_value`, and the docs of
    /// `ResolvedValue::Leaf`): built-in scalars are coerced strictly — for Int: "GraphQL services may
    /// coerce non-integer internal values to integers when reasonable … We choose not to, to keep
    /// with Rust's strong typing"; an integer outside 32 bits "overflows Int"; Float must be a JSON
    /// float, String a JSON string, Boolean a JSON boolean, ID a JSON string or integer. "For custom
    /// scalars, any JSON value is passed through as-is (including array or object)". Enums: "A
    /// GraphQL enum value is represented as a JSON string" and must be a value of the enum
    /// (section 3.9 result coercion).
    pub fn coerce_leaf_ok(&self, ty_name: &str, v: &J) -> bool {
        let Some(t) = self.schema.ty(ty_name) else { return false };
        if t.kind == Kind::Enum {
            return v.as_str().map(|s| t.values.iter().any(|ev| ev.name == s)).unwrap_or(false);
        }
        match ty_name {
            "Int" => match v {
                J::Number(n) if !n.is_f64() => n.as_i64().map(|i| i32::try_from(i).is_ok()).unwrap_or(false),
                _ => false,
            },
            "Float" => matches!(v, J::Number(n) if n.is_f64()),
            "String" => v.is_string(),
            "Boolean" => v.is_boolean(),
            "ID" => v.is_string() || matches!(v, J::Number(n) if n.is_i64()),
            _ => true,
        }
    }

    // -----------------------------------------------------------------------------------------
    // CoerceArgumentValues — verdict only
    // -----------------------------------------------------------------------------------------

    fn coerce_argument_values_ok(&self, object_type: &str, field: &Sel) -> bool {
        let Sel::Field { name, args, .. } = field else { return true };
        let arg_defs: Vec<InputDef> = if name == "__type" && meta_field_type(self.schema, object_type, name).is_some() {
            vec![InputDef {
                desc: None,
                name: "name".into(),
                ty: TyRef::named("String").non_null(),
                default: None,
                dirs: vec![],
            }]
        } else {
            match self.schema.field(object_type, name) {
                Some(f) => f.args.clone(),
                None => return true,
            }
        };
        for def in &arg_defs {
            let given = args.iter().find(|(n, _)| *n == def.name).map(|(_, v)| v);
            // hasValue / value, with a variable looked up in variableValues
            let (has_value, is_null, literal): (bool, bool, Option<&Val>) = match given {
                None => (false, false, None),
                Some(Val::Var(v)) => match self.vars.get(v) {
                    Some(j) => (true, j.is_null(), None),
                    None => (false, false, None),
                },
                Some(Val::Null) => (true, true, None),
                Some(lit) => (true, false, Some(lit)),
            };
            if !has_value && def.default.is_some() {
                continue;
            }
            if def.ty.is_non_null() && (!has_value || is_null) {
                return false;
            }
            if let Some(lit) = literal {
                if !self.literal_coerces(&def.ty, lit) {
                    return false;
                }
            }
        }
        true
    }

    /// Input coercion of a literal that passed validation: only variables nested in it can still
    /// fail at run time (a null or missing runtime value in a non-null position).
    fn literal_coerces(&self, ty: &TyRef, v: &Val) -> bool {
        match v {
            Val::Null => !ty.is_non_null(),
            Val::Var(name) => match self.vars.get(name) {
                Some(j) => !(j.is_null() && ty.is_non_null()),
                // no runtime value: as if absent; for a list item or an input field without default
                // that is null, which a non-null position rejects
                None => !ty.is_non_null(),
            },
            _ => match ty.nullable() {
                TyRef::List(item) => match v {
                    Val::List(xs) => xs.iter().all(|x| self.literal_coerces(&item, x)),
                    // "If the value passed as an input to a list type is not a list …, the result
                    // of input coercion is a list of size one"
                    single => self.literal_coerces(&item, single),
                },
                TyRef::Named(n) => match (self.schema.ty(&n), v) {
                    (Some(t), Val::Obj(fields)) if t.kind == Kind::Input => {
                        for fd in &t.input_fields {
                            match fields.iter().find(|(k, _)| *k == fd.name) {
                                Some((_, Val::Var(var))) if !self.vars.contains_key(var) => {
                                    // a variable without runtime value counts as "not provided"
                                    if fd.default.is_none() && fd.ty.is_non_null() {
                                        return false;
                                    }
                                }
                                Some((_, fv)) => {
                                    if !self.literal_coerces(&fd.ty, fv) {
                                        return false;
                                    }
                                }
                                None => {
                                    if fd.default.is_none() && fd.ty.is_non_null() {
                                        return false;
                                    }
                                }
                            }
                        }
                        true
                    }
                    _ => true,
                },
                TyRef::NonNull(_) => unreachable!(),
            },
        }
    }
}

// ---------------------------------------------------------------------------------------------
// Typing a response path (used by the direct checks on apollo's response)
// ---------------------------------------------------------------------------------------------

/// The positions from the root to `path`: for each segment the declared type of that position, and
/// the world outcome that produced the final position. `None` if `path` does not designate a
/// position the operation can produce in this world.
pub fn positions_along<'a>(ex: &RefExecutor<'a>, op: &'a OpDef, path: &Path) -> Option<(Vec<TyRef>, Outcome)> {
    let mut object_type = ex.schema.root(&op.kind)?.to_string();
    let mut sels: Vec<SSel<'a>> = ex.root_sels(op);
    let mut chain: Vec<TyRef> = Vec::new();
    let mut i = 0;
    let mut last: Option<Outcome> = None;
    while i < path.len() {
        let Seg::Key(key) = &path[i] else { return None };
        let groups = ex.collect_fields(&object_type, &sels);
        let (_, fields) = groups.into_iter().find(|(k, _)| k == key)?;
        let Sel::Field { name, .. } = fields[0].0 else { return None };
        let mut ty = ex.field_type(&object_type, name)?;
        let mut outcome: Outcome = match name.as_str() {
            "__typename" => Outcome::Leaf(J::String(object_type.clone())),
            "__schema" | "__type" if meta_field_type(ex.schema, &object_type, name).is_some() => Outcome::Err,
            _ => ex.world.get(&object_type, name).cloned().unwrap_or(Outcome::Err),
        };
        chain.push(ty.clone());
        i += 1;
        while i < path.len() {
            let Seg::Idx(j) = &path[i] else { break };
            let item_ty = ty.item()?;
            let item = match &outcome {
                Outcome::List(xs) => xs.get(*j)?.clone(),
                _ => return None,
            };
            ty = item_ty;
            outcome = item;
            chain.push(ty.clone());
            i += 1;
        }
        if i < path.len() {
            // descend into the object at this position
            let Outcome::Object(runtime) = &outcome else { return None };
            let named = ty.inner_name().to_string();
            if ty.is_list() {
                return None;
            }
            let ok = match ex.schema.kind(&named) {
                Some(Kind::Object) => *runtime == named,
                Some(Kind::Interface) | Some(Kind::Union) => ex.schema.possible_types(&named).iter().any(|p| p == runtime),
                _ => false,
            };
            if !ok {
                return None;
            }
            object_type = runtime.clone();
            sels = ex.merged_sub_selections(&fields);
        }
        last = Some(outcome);
    }
    Some((chain, last?))
}
