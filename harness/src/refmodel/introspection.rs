//! `RefIntrospection` — the result of the standard full introspection query, computed from the
//! harness model of a schema (DESIGN §5, §6 C24).
//!
//! This is a reference model written from the October 2021 specification (§4 Introspection, §3.5
//! built-in scalars, §3.13 built-in directives) and from graphql-js v16 semantics
//! (`buildASTSchema` + `introspectionFromSchema`): it is NOT graphql-js itself (no GraphQL
//! reference implementation is available offline). It shares no code with apollo-rs.
//!
//! What it encodes, with the graphql-js v16 source it mirrors:
//!
//! * the query text of `getIntrospectionQuery({descriptions, specifiedByUrl, directiveIsRepeatable,
//!   schemaDescription, inputValueDeprecation: true})` (`utilities/getIntrospectionQuery.ts`);
//! * merging: a type's components are those of its definition followed by those of its extensions in
//!   document order (`extendSchemaImpl::buildType`: `allNodes = [astNode, ...extensionASTNodes]`);
//! * `types`: the eight introspection types, every defined type, and the built-in scalars that are
//!   referenced by a field, argument or input field of a defined type or by an argument of a directive
//!   (`GraphQLSchema` constructor, `collectReferencedTypes`); `String` and `Boolean` are therefore
//!   always present (the introspection types and `@skip/@include/@deprecated` reference them);
//! * `directives`: the defined ones plus those of `skip, include, deprecated, specifiedBy` that are
//!   not defined (`buildASTSchema`);
//! * `possibleTypes`: for an interface the OBJECT types that declare it, in the order of their
//!   definitions (`_implementationsMap[..].objects` is filled while iterating the type map, which for
//!   `buildASTSchema` is the order of the type definitions); for a union its members, definition
//!   then extensions; `interfaces`: the declared list, definition then extensions;
//! * deprecation: `deprecationReason` = the `reason` argument of the first `@deprecated`, default
//!   "No longer supported"; `isDeprecated` = reason is not null (`extendSchema::getDeprecationReason`,
//!   `type/introspection.ts`);
//! * `defaultValue`: `print(astFromValue(valueFromAST(literal, type), type))`. Only implemented over
//!   the ENVELOPE OF CERTAINTY (see `default_in_envelope`), where that composition is the identity on
//!   the literal up to the printer's canonical spacing (`[a, b]`, `{k: v, k2: v2}`).

use crate::gen::model::*;
use serde_json::{json, Map, Value};

/// graphql-js v16 `getIntrospectionQuery` with every option on, as printed by graphql-js (seven
/// `ofType` levels below the first one).
pub const INTROSPECTION_QUERY: &str = r#"
    query IntrospectionQuery {
      __schema {
        description
        queryType { name }
        mutationType { name }
        subscriptionType { name }
        types {
          ...FullType
        }
        directives {
          name
          description
          isRepeatable
          locations
          args(includeDeprecated: true) {
            ...InputValue
          }
        }
      }
    }

    fragment FullType on __Type {
      kind
      name
      description
      specifiedByURL
      fields(includeDeprecated: true) {
        name
        description
        args(includeDeprecated: true) {
          ...InputValue
        }
        type {
          ...TypeRef
        }
        isDeprecated
        deprecationReason
      }
      inputFields(includeDeprecated: true) {
        ...InputValue
      }
      interfaces {
        ...TypeRef
      }
      enumValues(includeDeprecated: true) {
        name
        description
        isDeprecated
        deprecationReason
      }
      possibleTypes {
        ...TypeRef
      }
    }

    fragment InputValue on __InputValue {
      name
      description
      type { ...TypeRef }
      defaultValue
      isDeprecated
      deprecationReason
    }

    fragment TypeRef on __Type {
      kind
      name
      ofType {
        kind
        name
        ofType {
          kind
          name
          ofType {
            kind
            name
            ofType {
              kind
              name
              ofType {
                kind
                name
                ofType {
                  kind
                  name
                  ofType {
                    kind
                    name
                  }
                }
              }
            }
          }
        }
      }
    }
"#;

/// Number of nested `ofType` selections in the `TypeRef` fragment.
pub const TYPE_REF_LEVELS: usize = 7;

pub const BUILTIN_DIRECTIVES: &[&str] = &["skip", "include", "deprecated", "specifiedBy"];

pub const INTROSPECTION_TYPES: &[&str] = &[
    "__Schema",
    "__Type",
    "__TypeKind",
    "__Field",
    "__InputValue",
    "__EnumValue",
    "__Directive",
    "__DirectiveLocation",
];

// ---------------------------------------------------------------------------------------------
// Envelope of certainty
// ---------------------------------------------------------------------------------------------

fn simple_ascii(s: &str) -> bool {
    s.chars().all(|c| (' '..='~').contains(&c) && c != '"' && c != '\\')
}

/// JS `/^-?(?:0|[1-9][0-9]*)$/` (graphql-js `integerStringRegExp`).
fn integer_like(s: &str) -> bool {
    let d = s.strip_prefix('-').unwrap_or(s);
    !d.is_empty() && d.bytes().all(|b| b.is_ascii_digit()) && (d == "0" || !d.starts_with('0'))
}

/// A float literal whose text is what JavaScript's `String(Number(text))` gives back: plain decimal
/// notation, a fraction that does not end in `0`, at most 15 significant digits, magnitude in
/// [1e-6, 1e21) so that no exponent is used, no `-0.x`-style surprises (a leading `-` is kept by JS).
fn canonical_fraction_float(s: &str) -> bool {
    let d = s.strip_prefix('-').unwrap_or(s);
    let Some((ip, fp)) = d.split_once('.') else {
        return false;
    };
    if ip.is_empty() || fp.is_empty() {
        return false;
    }
    if !ip.bytes().all(|b| b.is_ascii_digit()) || !fp.bytes().all(|b| b.is_ascii_digit()) {
        return false;
    }
    if ip != "0" && ip.starts_with('0') {
        return false;
    }
    if fp.ends_with('0') {
        return false;
    }
    let sig = format!("{ip}{fp}");
    let sig = sig.trim_start_matches('0');
    if sig.is_empty() || sig.len() > 15 {
        return false;
    }
    // magnitude >= 1e-6: at most five zeros directly after the point when the integer part is 0
    if ip == "0" && fp.bytes().take_while(|b| *b == b'0').count() > 5 {
        return false;
    }
    ip.len() <= 15
}

/// Is the default-value literal `v` of an input value of type `ty` inside the class where
/// graphql-js's coerce-and-reprint is unambiguous (and equal to the literal)?
///
/// * `null` for a nullable type;
/// * Int: an integer literal in the 32-bit range; Float: a literal with a non-zero fraction in
///   canonical JS form (no `1.0`, no exponent, no Int-for-Float); String: a quoted string of
///   printable ASCII without `"` and `\`; Boolean; ID: such a string that does not look like an
///   integer (graphql-js prints an integer-looking ID without quotes; no Int-for-ID);
/// * enum: a value of the enum; custom scalar: Int (|n| < 2^53), canonical Float, simple string,
///   Boolean (the values `valueFromASTUntyped` / `astFromValue` map back to themselves);
/// * list type: a list literal (no single-value coercion) of in-envelope items;
/// * input object: fields in definition order, each in the envelope, every required field present,
///   and NO omitted field that has a default (graphql-js fills those in before printing).
pub fn default_in_envelope(s: &FlatSchema, ty: &TyRef, v: &Val) -> Result<(), &'static str> {
    match ty {
        TyRef::NonNull(t) => {
            if *v == Val::Null {
                return Err("null for a non-null type");
            }
            default_in_envelope(s, t, v)
        }
        _ if *v == Val::Null => Ok(()),
        TyRef::List(t) => match v {
            Val::List(items) => {
                for it in items {
                    default_in_envelope(s, t, it)?;
                }
                Ok(())
            }
            _ => Err("single value coerced to a list"),
        },
        TyRef::Named(n) => match (n.as_str(), v) {
            (_, Val::Var(_)) => Err("variable in a constant"),
            ("Int", Val::Int(i)) if i32::try_from(*i).is_ok() => Ok(()),
            ("Int", _) => Err("Int default that is not a 32-bit integer literal"),
            ("Float", Val::Float(f)) if canonical_fraction_float(f) => Ok(()),
            ("Float", _) => Err("Float default outside the canonical non-zero-fraction class"),
            ("String", Val::Str(x)) if simple_ascii(x) => Ok(()),
            ("String", _) => Err("String default that is not a simple ASCII string"),
            ("Boolean", Val::Bool(_)) => Ok(()),
            ("Boolean", _) => Err("Boolean default that is not a boolean literal"),
            ("ID", Val::Str(x)) if simple_ascii(x) && !integer_like(x) => Ok(()),
            ("ID", _) => Err("ID default that is not a simple non-integer-looking string"),
            (name, v) => match s.ty(name) {
                Some(t) if t.kind == Kind::Enum => match v {
                    Val::Enum(e) if t.values.iter().any(|x| x.name == *e) => Ok(()),
                    _ => Err("enum default that is not a value of the enum"),
                },
                Some(t) if t.kind == Kind::Scalar => match v {
                    Val::Int(i) if i.unsigned_abs() < (1u64 << 53) => Ok(()),
                    Val::Float(f) if canonical_fraction_float(f) => Ok(()),
                    Val::Str(x) if simple_ascii(x) => Ok(()),
                    Val::Bool(_) => Ok(()),
                    _ => Err("custom scalar default that is not a plain scalar literal"),
                },
                Some(t) if t.kind == Kind::Input => match v {
                    Val::Obj(fields) => {
                        let mut next = 0usize;
                        for (k, fv) in fields {
                            let Some(pos) = t.input_fields.iter().position(|f| f.name == *k) else {
                                return Err("object default with an unknown field");
                            };
                            if pos < next {
                                return Err("object default with fields out of definition order");
                            }
                            next = pos + 1;
                            default_in_envelope(s, &t.input_fields[pos].ty, fv)?;
                        }
                        for f in &t.input_fields {
                            if fields.iter().any(|(k, _)| *k == f.name) {
                                continue;
                            }
                            if f.default.is_some() {
                                return Err("object default omitting a field that has a default");
                            }
                            if f.ty.is_non_null() {
                                return Err("object default omitting a required field");
                            }
                        }
                        Ok(())
                    }
                    _ => Err("input object default that is not an object literal"),
                },
                _ => Err("default for a non-input type"),
            },
        },
    }
}

/// Which kind of literal a default value is (coverage classes).
pub fn default_kind(v: &Val) -> &'static str {
    match v {
        Val::Null => "null",
        Val::Int(_) => "int",
        Val::Float(_) => "float",
        Val::Str(_) => "string",
        Val::Bool(_) => "boolean",
        Val::Enum(_) => "enum",
        Val::List(_) => "list",
        Val::Obj(_) => "object",
        Val::Var(_) => "variable",
    }
}

/// graphql-js `print()` of a constant value node: `[a, b]`, `{k: v, k2: v2}`, JSON-style strings.
/// Only called on values inside the envelope (simple strings need no escaping).
pub fn print_default(v: &Val) -> String {
    match v {
        Val::Null => "null".into(),
        Val::Int(i) => i.to_string(),
        Val::Float(f) => f.clone(),
        Val::Str(s) => format!("\"{s}\""),
        Val::Bool(b) => b.to_string(),
        Val::Enum(e) => e.clone(),
        Val::Var(n) => format!("${n}"),
        Val::List(items) => format!("[{}]", items.iter().map(print_default).collect::<Vec<_>>().join(", ")),
        Val::Obj(fields) => format!(
            "{{{}}}",
            fields
                .iter()
                .map(|(k, v)| format!("{k}: {}", print_default(v)))
                .collect::<Vec<_>>()
                .join(", ")
        ),
    }
}

/// Why a type-system document is outside what the reference can judge with certainty, or `Ok`.
/// Besides the default-value envelope this excludes the places where graphql-js v16 and the
/// specification text pull in different directions (don't-care bands):
///
/// * a built-in scalar, introspection type or built-in directive (re)defined by the document;
/// * `@deprecated(reason: null)` (graphql-js v16: not deprecated; spec text: deprecated);
/// * `@specifiedBy` applied through a scalar *extension* (graphql-js v16 `buildASTSchema` reads the
///   directive from the definition node only);
/// * a `schema` extension without a `schema` definition.
pub fn schema_in_envelope(doc: &Doc) -> Result<(), &'static str> {
    let flat = RefIntrospection::merged(doc);
    let mut has_schema_def = false;
    let mut has_schema_ext = false;
    for d in &doc.defs {
        match d {
            Def::Type(t) => {
                if BUILTIN_SCALARS.contains(&t.name.as_str()) || t.name.starts_with("__") {
                    return Err("document defines or extends a built-in type");
                }
                if t.ext && t.kind == Kind::Scalar && t.dirs.iter().any(|a| a.name == "specifiedBy") {
                    return Err("@specifiedBy on a scalar extension");
                }
            }
            Def::Directive(dd) => {
                if BUILTIN_DIRECTIVES.contains(&dd.name.as_str()) {
                    return Err("document redefines a built-in directive");
                }
            }
            Def::Schema(s) => {
                if s.ext {
                    has_schema_ext = true
                } else {
                    has_schema_def = true
                }
            }
            _ => return Err("executable definition in a schema document"),
        }
    }
    if has_schema_ext && !has_schema_def {
        return Err("schema extension without schema definition");
    }
    let dep = |dirs: &[DirApp]| -> Result<(), &'static str> {
        for a in dirs.iter().filter(|a| a.name == "deprecated") {
            for (k, v) in &a.args {
                if k == "reason" && !matches!(v, Val::Str(_)) {
                    return Err("@deprecated reason that is not a string literal");
                }
            }
        }
        Ok(())
    };
    let input = |f: &InputDef| -> Result<(), &'static str> {
        dep(&f.dirs)?;
        if let Some(v) = &f.default {
            default_in_envelope(&flat, &f.ty, v)?;
        }
        Ok(())
    };
    for t in &flat.types {
        for f in &t.fields {
            dep(&f.dirs)?;
            for a in &f.args {
                input(a)?;
            }
        }
        for f in &t.input_fields {
            input(f)?;
        }
        for v in &t.values {
            dep(&v.dirs)?;
        }
        if t.kind == Kind::Scalar {
            for a in t.dirs.iter().filter(|a| a.name == "specifiedBy") {
                if !matches!(a.args.iter().find(|(k, _)| k == "url"), Some((_, Val::Str(_)))) {
                    return Err("@specifiedBy without a string url");
                }
            }
        }
    }
    for d in &flat.directives {
        for a in &d.args {
            input(a)?;
        }
    }
    Ok(())
}

// ---------------------------------------------------------------------------------------------
// The built-in introspection schema (spec §4.2 "Schema Introspection Schema"; graphql-js
// `type/introspection.ts`). Descriptions are left out: they are not compared.
// ---------------------------------------------------------------------------------------------

fn n(name: &str) -> TyRef {
    TyRef::named(name)
}
fn nn(name: &str) -> TyRef {
    TyRef::named(name).non_null()
}
/// `[name!]` / `[name!]!`
fn list_of(name: &str, outer_non_null: bool) -> TyRef {
    let t = TyRef::named(name).non_null().list();
    if outer_non_null {
        t.non_null()
    } else {
        t
    }
}
fn field(name: &str, ty: TyRef, include_deprecated_arg: bool) -> FieldDef {
    FieldDef {
        desc: None,
        name: name.into(),
        args: if include_deprecated_arg {
            vec![InputDef {
                desc: None,
                name: "includeDeprecated".into(),
                ty: n("Boolean"),
                default: Some(Val::Bool(false)),
                dirs: vec![],
            }]
        } else {
            vec![]
        },
        ty,
        dirs: vec![],
    }
}
fn object(name: &str, fields: Vec<FieldDef>) -> FlatType {
    FlatType {
        kind: Kind::Object,
        desc: None,
        name: name.into(),
        implements: vec![],
        fields,
        members: vec![],
        values: vec![],
        input_fields: vec![],
        dirs: vec![],
        builtin: true,
    }
}
fn enumeration(name: &str, values: &[&str]) -> FlatType {
    FlatType {
        kind: Kind::Enum,
        desc: None,
        name: name.into(),
        implements: vec![],
        fields: vec![],
        members: vec![],
        values: values
            .iter()
            .map(|v| EnumVal {
                desc: None,
                name: v.to_string(),
                dirs: vec![],
            })
            .collect(),
        input_fields: vec![],
        dirs: vec![],
        builtin: true,
    }
}

pub fn introspection_types() -> Vec<FlatType> {
    vec![
        object(
            "__Schema",
            vec![
                field("description", n("String"), false),
                field("types", list_of("__Type", true), false),
                field("queryType", nn("__Type"), false),
                field("mutationType", n("__Type"), false),
                field("subscriptionType", n("__Type"), false),
                field("directives", list_of("__Directive", true), false),
            ],
        ),
        object(
            "__Type",
            vec![
                field("kind", nn("__TypeKind"), false),
                field("name", n("String"), false),
                field("description", n("String"), false),
                field("specifiedByURL", n("String"), false),
                field("fields", list_of("__Field", false), true),
                field("interfaces", list_of("__Type", false), false),
                field("possibleTypes", list_of("__Type", false), false),
                field("enumValues", list_of("__EnumValue", false), true),
                field("inputFields", list_of("__InputValue", false), true),
                field("ofType", n("__Type"), false),
            ],
        ),
        enumeration(
            "__TypeKind",
            &["SCALAR", "OBJECT", "INTERFACE", "UNION", "ENUM", "INPUT_OBJECT", "LIST", "NON_NULL"],
        ),
        object(
            "__Field",
            vec![
                field("name", nn("String"), false),
                field("description", n("String"), false),
                field("args", list_of("__InputValue", true), true),
                field("type", nn("__Type"), false),
                field("isDeprecated", nn("Boolean"), false),
                field("deprecationReason", n("String"), false),
            ],
        ),
        object(
            "__InputValue",
            vec![
                field("name", nn("String"), false),
                field("description", n("String"), false),
                field("type", nn("__Type"), false),
                field("defaultValue", n("String"), false),
                field("isDeprecated", nn("Boolean"), false),
                field("deprecationReason", n("String"), false),
            ],
        ),
        object(
            "__EnumValue",
            vec![
                field("name", nn("String"), false),
                field("description", n("String"), false),
                field("isDeprecated", nn("Boolean"), false),
                field("deprecationReason", n("String"), false),
            ],
        ),
        object(
            "__Directive",
            vec![
                field("name", nn("String"), false),
                field("description", n("String"), false),
                field("isRepeatable", nn("Boolean"), false),
                field("locations", list_of("__DirectiveLocation", true), false),
                field("args", list_of("__InputValue", true), true),
            ],
        ),
        enumeration(
            "__DirectiveLocation",
            &[
                "QUERY",
                "MUTATION",
                "SUBSCRIPTION",
                "FIELD",
                "FRAGMENT_DEFINITION",
                "FRAGMENT_SPREAD",
                "INLINE_FRAGMENT",
                "VARIABLE_DEFINITION",
                "SCHEMA",
                "SCALAR",
                "OBJECT",
                "FIELD_DEFINITION",
                "ARGUMENT_DEFINITION",
                "INTERFACE",
                "UNION",
                "ENUM",
                "ENUM_VALUE",
                "INPUT_OBJECT",
                "INPUT_FIELD_DEFINITION",
            ],
        ),
    ]
}

// ---------------------------------------------------------------------------------------------
// The reference result
// ---------------------------------------------------------------------------------------------

pub struct RefIntrospection {
    /// Definitions and extensions merged in graphql-js order (definition first, then extensions
    /// in document order); user types in the order of their definitions; built-ins appended.
    pub flat: FlatSchema,
}

fn kind_name(k: Kind) -> &'static str {
    match k {
        Kind::Scalar => "SCALAR",
        Kind::Object => "OBJECT",
        Kind::Interface => "INTERFACE",
        Kind::Union => "UNION",
        Kind::Enum => "ENUM",
        Kind::Input => "INPUT_OBJECT",
    }
}

fn opt_str(s: &Option<String>) -> Value {
    match s {
        Some(s) => Value::String(s.clone()),
        None => Value::Null,
    }
}

/// (isDeprecated, deprecationReason) — graphql-js v16: reason of the first `@deprecated`, default
/// "No longer supported"; deprecated iff the reason is not null.
fn deprecation(dirs: &[DirApp]) -> (bool, Value) {
    match dirs.iter().find(|d| d.name == "deprecated") {
        None => (false, Value::Null),
        Some(d) => match d.args.iter().find(|(k, _)| k == "reason") {
            None => (true, Value::String("No longer supported".into())),
            Some((_, Val::Str(s))) => (true, Value::String(s.clone())),
            // outside the envelope (`schema_in_envelope` rejects it); graphql-js v16 semantics
            Some(_) => (false, Value::Null),
        },
    }
}

impl RefIntrospection {
    /// Merge in graphql-js order: all definitions in document order, then all extensions in
    /// document order (so that every type's components are definition-first).
    pub fn merged(doc: &Doc) -> FlatSchema {
        let mut reordered = Doc::default();
        let is_ext = |d: &Def| match d {
            Def::Type(t) => t.ext,
            Def::Schema(s) => s.ext,
            _ => false,
        };
        for d in doc.defs.iter().filter(|d| !is_ext(d)) {
            reordered.defs.push(d.clone());
        }
        for d in doc.defs.iter().filter(|d| is_ext(d)) {
            reordered.defs.push(d.clone());
        }
        FlatSchema::from_doc(&reordered)
    }

    pub fn new(doc: &Doc) -> RefIntrospection {
        RefIntrospection {
            flat: Self::merged(doc),
        }
    }

    /// Built-in scalars that the `types` list contains: `String` and `Boolean` always, the others
    /// when a field, argument or input field of a defined type or a directive argument names them.
    pub fn referenced_builtin_scalars(&self) -> Vec<&'static str> {
        let mut used: Vec<&'static str> = vec!["String", "Boolean"];
        let mut mark = |t: &TyRef| {
            let name = t.inner_name();
            if let Some(b) = BUILTIN_SCALARS.iter().find(|b| **b == name) {
                if !used.contains(b) {
                    used.push(b);
                }
            }
        };
        for t in self.flat.types.iter().filter(|t| !t.builtin) {
            for f in &t.fields {
                mark(&f.ty);
                for a in &f.args {
                    mark(&a.ty);
                }
            }
            for f in &t.input_fields {
                mark(&f.ty);
            }
        }
        for d in &self.flat.directives {
            for a in &d.args {
                mark(&a.ty);
            }
        }
        used
    }

    fn kind_of(&self, name: &str, intro: &[FlatType]) -> &'static str {
        if let Some(t) = intro.iter().find(|t| t.name == name) {
            return kind_name(t.kind);
        }
        self.flat.kind(name).map(kind_name).unwrap_or("?")
    }

    /// The `TypeRef` fragment applied to `ty` with `levels` nested `ofType` selections left.
    fn type_ref(&self, ty: &TyRef, levels: usize, intro: &[FlatType]) -> Value {
        let mut m = Map::new();
        let (kind, name, inner): (&str, Value, Option<&TyRef>) = match ty {
            TyRef::NonNull(t) => ("NON_NULL", Value::Null, Some(t)),
            TyRef::List(t) => ("LIST", Value::Null, Some(t)),
            TyRef::Named(n) => (self.kind_of(n, intro), Value::String(n.clone()), None),
        };
        m.insert("kind".into(), json!(kind));
        m.insert("name".into(), name);
        if levels > 0 {
            m.insert(
                "ofType".into(),
                match inner {
                    Some(t) => self.type_ref(t, levels - 1, intro),
                    None => Value::Null,
                },
            );
        }
        Value::Object(m)
    }

    fn input_value(&self, a: &InputDef, intro: &[FlatType]) -> Value {
        let (dep, reason) = deprecation(&a.dirs);
        json!({
            "name": a.name,
            "description": opt_str(&a.desc),
            "type": self.type_ref(&a.ty, TYPE_REF_LEVELS, intro),
            "defaultValue": match &a.default { Some(v) => Value::String(print_default(v)), None => Value::Null },
            "isDeprecated": dep,
            "deprecationReason": reason,
        })
    }

    fn full_type(&self, t: &FlatType, intro: &[FlatType]) -> Value {
        let named = |n: &String| self.type_ref(&TyRef::Named(n.clone()), TYPE_REF_LEVELS, intro);
        let fields = match t.kind {
            Kind::Object | Kind::Interface => Value::Array(
                t.fields
                    .iter()
                    .map(|f| {
                        let (dep, reason) = deprecation(&f.dirs);
                        json!({
                            "name": f.name,
                            "description": opt_str(&f.desc),
                            "args": f.args.iter().map(|a| self.input_value(a, intro)).collect::<Vec<_>>(),
                            "type": self.type_ref(&f.ty, TYPE_REF_LEVELS, intro),
                            "isDeprecated": dep,
                            "deprecationReason": reason,
                        })
                    })
                    .collect(),
            ),
            _ => Value::Null,
        };
        let input_fields = match t.kind {
            Kind::Input => Value::Array(t.input_fields.iter().map(|f| self.input_value(f, intro)).collect()),
            _ => Value::Null,
        };
        let interfaces = match t.kind {
            Kind::Object | Kind::Interface => Value::Array(t.implements.iter().map(named).collect()),
            _ => Value::Null,
        };
        let enum_values = match t.kind {
            Kind::Enum => Value::Array(
                t.values
                    .iter()
                    .map(|v| {
                        let (dep, reason) = deprecation(&v.dirs);
                        json!({
                            "name": v.name,
                            "description": opt_str(&v.desc),
                            "isDeprecated": dep,
                            "deprecationReason": reason,
                        })
                    })
                    .collect(),
            ),
            _ => Value::Null,
        };
        let possible = match t.kind {
            Kind::Union => Value::Array(t.members.iter().map(named).collect()),
            Kind::Interface => Value::Array(
                self.flat
                    .types
                    .iter()
                    .filter(|o| o.kind == Kind::Object && o.implements.iter().any(|i| *i == t.name))
                    .map(|o| named(&o.name))
                    .collect(),
            ),
            _ => Value::Null,
        };
        let specified_by = match t.kind {
            Kind::Scalar => t
                .dirs
                .iter()
                .find(|d| d.name == "specifiedBy")
                .and_then(|d| d.args.iter().find(|(k, _)| k == "url"))
                .map(|(_, v)| match v {
                    Val::Str(s) => Value::String(s.clone()),
                    _ => Value::Null,
                })
                .unwrap_or(Value::Null),
            _ => Value::Null,
        };
        json!({
            "kind": kind_name(t.kind),
            "name": t.name,
            "description": opt_str(&t.desc),
            "specifiedByURL": specified_by,
            "fields": fields,
            "inputFields": input_fields,
            "interfaces": interfaces,
            "enumValues": enum_values,
            "possibleTypes": possible,
        })
    }

    /// `data` of the full introspection query: `{"__schema": {...}}`. `types` holds the introspection
    /// types, then the user types in definition order, then the referenced built-in scalars (the
    /// order of `types` and `directives` is not part of the property: callers sort both by name).
    pub fn data(&self) -> Value {
        let intro = introspection_types();
        let mut types: Vec<Value> = Vec::new();
        for t in &intro {
            types.push(self.full_type(t, &intro));
        }
        let used = self.referenced_builtin_scalars();
        for t in &self.flat.types {
            if t.builtin && !used.contains(&t.name.as_str()) {
                continue;
            }
            types.push(self.full_type(t, &intro));
        }
        let directives: Vec<Value> = self
            .flat
            .directives
            .iter()
            .map(|d| {
                json!({
                    "name": d.name,
                    "description": opt_str(&d.desc),
                    "isRepeatable": d.repeatable,
                    "locations": d.locations,
                    "args": d.args.iter().map(|a| self.input_value(a, &intro)).collect::<Vec<_>>(),
                })
            })
            .collect();
        let root = |r: &Option<String>| match r {
            Some(n) => json!({ "name": n }),
            None => Value::Null,
        };
        json!({
            "__schema": {
                "description": opt_str(&self.flat.desc),
                "queryType": root(&self.flat.query),
                "mutationType": root(&self.flat.mutation),
                "subscriptionType": root(&self.flat.subscription),
                "types": types,
                "directives": directives,
            }
        })
    }
}

// ---------------------------------------------------------------------------------------------
// Normalisation and comparison
// ---------------------------------------------------------------------------------------------

fn sort_by_name(v: &mut Value) {
    if let Value::Array(items) = v {
        items.sort_by(|a, b| {
            let ka = a.get("name").and_then(|x| x.as_str()).unwrap_or("");
            let kb = b.get("name").and_then(|x| x.as_str()).unwrap_or("");
            ka.cmp(kb)
        });
    }
}

const MASK: &str = "<built-in description: not compared>";

/// Replace a description that is a string or null by a marker (its wording is not compared; that
/// it is a string or null still is).
fn mask_description(obj: &mut Value) {
    if let Some(d) = obj.get_mut("description") {
        if d.is_string() || d.is_null() {
            *d = Value::String(MASK.into());
        }
    }
}

fn mask_input_values(list: Option<&mut Value>) {
    if let Some(Value::Array(items)) = list {
        for it in items {
            mask_description(it);
        }
    }
}

/// The differences the property allows, applied to either side before comparing:
/// sort `types` and `directives` by name; sort `fields` of `__*` types by name; mask the
/// descriptions of the built-in `__*` types (and of their fields, arguments and enum values), of the
/// five built-in scalars and of the four built-in directives and their arguments.
pub fn normalise(data: &mut Value) {
    let Some(schema) = data.get_mut("__schema") else {
        return;
    };
    if let Some(types) = schema.get_mut("types") {
        sort_by_name(types);
        if let Value::Array(items) = types {
            for t in items {
                let name = t.get("name").and_then(|x| x.as_str()).unwrap_or("").to_string();
                if name.starts_with("__") {
                    mask_description(t);
                    if let Some(fields) = t.get_mut("fields") {
                        sort_by_name(fields);
                        if let Value::Array(fs) = fields {
                            for f in fs {
                                mask_description(f);
                                mask_input_values(f.get_mut("args"));
                            }
                        }
                    }
                    mask_input_values(t.get_mut("enumValues"));
                    mask_input_values(t.get_mut("inputFields"));
                } else if BUILTIN_SCALARS.contains(&name.as_str()) {
                    mask_description(t);
                }
            }
        }
    }
    if let Some(dirs) = schema.get_mut("directives") {
        sort_by_name(dirs);
        if let Value::Array(items) = dirs {
            for d in items {
                let name = d.get("name").and_then(|x| x.as_str()).unwrap_or("").to_string();
                if BUILTIN_DIRECTIVES.contains(&name.as_str()) {
                    mask_description(d);
                    mask_input_values(d.get_mut("args"));
                }
            }
        }
    }
}

#[derive(Clone, Debug, PartialEq)]
pub struct Diff {
    /// JSON path class: keys kept, indices masked (`__schema.types[].fields[].args[].defaultValue`)
    pub path: String,
    /// kind of difference: value | type | missing-key | extra-key | missing-element |
    /// extra-element | order | length
    pub kind: &'static str,
    /// concrete path and values, for the message
    pub detail: String,
}

fn json_type(v: &Value) -> &'static str {
    match v {
        Value::Null => "null",
        Value::Bool(_) => "boolean",
        Value::Number(_) => "number",
        Value::String(_) => "string",
        Value::Array(_) => "list",
        Value::Object(_) => "object",
    }
}

fn short(v: &Value) -> String {
    crate::rt::clip(&v.to_string(), 160)
}

/// A `TypeRef` response object written as a GraphQL type (`[Int!]!`); `?` where it is cut or odd.
pub fn render_type_ref(v: &Value) -> String {
    let inner = |v: &Value| match v.get("ofType") {
        Some(x) if x.is_object() => render_type_ref(x),
        _ => "?".to_string(),
    };
    match v.get("kind").and_then(|k| k.as_str()) {
        Some("LIST") => format!("[{}]", inner(v)),
        Some("NON_NULL") => format!("{}!", inner(v)),
        Some(_) => v.get("name").and_then(|n| n.as_str()).unwrap_or("?").to_string(),
        None => "?".to_string(),
    }
}

/// Key by which the elements of a list are aligned, when every element of both lists has one:
/// the `name` of an object, or the string itself.
fn element_keys(items: &[Value]) -> Option<Vec<String>> {
    let mut keys = Vec::with_capacity(items.len());
    for it in items {
        let k = match it {
            Value::String(s) => s.clone(),
            Value::Object(m) => m.get("name")?.as_str()?.to_string(),
            _ => return None,
        };
        if keys.contains(&k) {
            return None;
        }
        keys.push(k);
    }
    Some(keys)
}

/// Structural difference of `expected` (reference) and `actual` (apollo-rs), every differing site
/// reported once, up to `cap` entries.
pub fn diff(expected: &Value, actual: &Value, class: &str, concrete: &str, out: &mut Vec<Diff>, cap: usize) {
    if out.len() >= cap {
        return;
    }
    match (expected, actual) {
        (Value::Object(e), Value::Object(a)) => {
            for (k, ev) in e {
                match a.get(k) {
                    // a type reference is one site: report the whole reference once
                    Some(av) if k == "type" && ev.is_object() && av.is_object() => {
                        if ev != av {
                            out.push(Diff {
                                path: format!("{class}.{k}"),
                                kind: "type-reference",
                                detail: format!(
                                    "{concrete}.{k}: reference {} = {}, apollo-rs {} = {}",
                                    render_type_ref(ev),
                                    short(ev),
                                    render_type_ref(av),
                                    short(av)
                                ),
                            });
                        }
                    }
                    Some(av) => diff(ev, av, &format!("{class}.{k}"), &format!("{concrete}.{k}"), out, cap),
                    None => out.push(Diff {
                        path: format!("{class}.{k}"),
                        kind: "missing-key",
                        detail: format!("{concrete}.{k}: reference has {}, apollo-rs has no such key", short(ev)),
                    }),
                }
            }
            for (k, av) in a {
                if !e.contains_key(k) {
                    out.push(Diff {
                        path: format!("{class}.{k}"),
                        kind: "extra-key",
                        detail: format!("{concrete}.{k}: apollo-rs has {}, the reference has no such key", short(av)),
                    });
                }
            }
        }
        (Value::Array(e), Value::Array(a)) => {
            let class = format!("{class}[]");
            if let (Some(ek), Some(ak)) = (element_keys(e), element_keys(a)) {
                let mut structural = false;
                for (i, k) in ek.iter().enumerate() {
                    if !ak.contains(k) {
                        structural = true;
                        out.push(Diff {
                            path: class.clone(),
                            kind: "missing-element",
                            detail: format!("{concrete}[{i}]: reference has element {k:?}, apollo-rs does not ({})", short(&e[i])),
                        });
                    }
                }
                for (i, k) in ak.iter().enumerate() {
                    if !ek.contains(k) {
                        structural = true;
                        out.push(Diff {
                            path: class.clone(),
                            kind: "extra-element",
                            detail: format!("{concrete}[{i}]: apollo-rs has element {k:?}, the reference does not ({})", short(&a[i])),
                        });
                    }
                }
                if !structural && ek != ak {
                    out.push(Diff {
                        path: class.clone(),
                        kind: "order",
                        detail: format!("{concrete}: reference order {ek:?}, apollo-rs order {ak:?}"),
                    });
                }
                for (i, k) in ek.iter().enumerate() {
                    if let Some(j) = ak.iter().position(|x| x == k) {
                        diff(&e[i], &a[j], &class, &format!("{concrete}[{k}]"), out, cap);
                    }
                }
            } else {
                if e.len() != a.len() {
                    out.push(Diff {
                        path: class.clone(),
                        kind: "length",
                        detail: format!("{concrete}: reference has {} elements, apollo-rs {}", e.len(), a.len()),
                    });
                }
                for (i, (ev, av)) in e.iter().zip(a.iter()).enumerate() {
                    diff(ev, av, &class, &format!("{concrete}[{i}]"), out, cap);
                }
            }
        }
        (e, a) if e == a => {}
        (e, a) => {
            let squeeze = |v: &Value| v.as_str().map(|s| s.chars().filter(|c| !c.is_whitespace() && *c != ',').collect::<String>());
            let kind = if json_type(e) != json_type(a) {
                "type"
            } else if e.is_string() && squeeze(e) == squeeze(a) {
                "value-ignored-tokens-only"
            } else {
                "value"
            };
            out.push(Diff {
                path: class.to_string(),
                kind,
                detail: format!("{concrete}: reference {}, apollo-rs {}", short(e), short(a)),
            });
        }
    }
}
