//! `RefExecRules` — an independent implementation of the GraphQL October 2021 §5 *executable*
//! validation rules over the harness model (`gen::model::{Doc, FlatSchema}`), one function per
//! rule, written from the specification text and graphql-js v16 semantics. It shares no code with
//! apollo-rs; field merging is the naive pairwise `FieldsInSetCanMerge` + `SameResponseShape` of
//! the spec (memoised per pair of field nodes), not the XING algorithm apollo uses.
//!
//! Deliberate differences from the specification are explicit `Params` (DESIGN Appendix B):
//!
//! * `reject_undefined_root_operation_type` — an operation whose root operation type is not
//!   defined by the schema is rejected (C17 statement).
//! * `reject_skip_include_on_subscription_root` — `@skip` / `@include` on a selection that
//!   contributes to the root of a subscription (the selections visited by `CollectFields` on the
//!   root selection set: fields, inline fragments, spreads, through named fragments, NOT the
//!   sub-selections of fields) are rejected (C17 statement; `validate_subscription` carries no doc
//!   comment at the pinned commit, the wording is the one of its diagnostic
//!   `SubscriptionUsesConditionalSelection` and of the current spec draft
//!   `CollectSubscriptionFields`).
//! * `apollo_defer_rules` — when the schema defines `@defer`, the three rules of the doc comment
//!   of `validate_defer`: (1) `label` values unique across the document and not a variable;
//!   (2) no `@defer` on root selections of mutation/subscription operations, through spreads and
//!   inline fragments at root level; (3) in a subscription every `@defer` must be disabled by
//!   `if: false` or `if: $variable` unless "statically skipped via @skip/@include" — the last
//!   clause is not precise enough to transcribe, so a `@defer` under any `@skip`/`@include` is a
//!   DON'T-CARE (reported in `Report::dont_care`, the generator never produces `@defer`).
//! * `same_type_spread_always_allowed` — a spread whose type condition equals the parent type is
//!   always possible (`fragment.rs` comment, spec issue 1109, same in graphql-js).
//!
//! Don't-care bands (the oracle reports them instead of a verdict; generators stay out):
//! Float literals that overflow f64; variables nested in a list literal given to a custom scalar;
//! merged-field arguments that differ only in the order of input-object fields; `@defer` under
//! `@skip`/`@include` in subscriptions.

use crate::gen::model::*;
use std::collections::{BTreeSet, HashMap, HashSet};

pub const EXECUTABLE_DEFINITIONS: &str = "ExecutableDefinitions";
pub const OPERATION_NAME_UNIQUENESS: &str = "OperationNameUniqueness";
pub const LONE_ANONYMOUS_OPERATION: &str = "LoneAnonymousOperation";
pub const UNDEFINED_ROOT_OPERATION_TYPE: &str = "UndefinedRootOperationType";
pub const SINGLE_ROOT_FIELD: &str = "SingleRootField";
pub const SUBSCRIPTION_SKIP_INCLUDE: &str = "SubscriptionRootSkipInclude";
pub const FIELDS_ON_CORRECT_TYPE: &str = "FieldsOnCorrectType";
pub const OVERLAPPING_FIELDS: &str = "OverlappingFieldsCanBeMerged";
pub const SCALAR_LEAFS: &str = "ScalarLeafs";
pub const KNOWN_ARGUMENT_NAMES: &str = "KnownArgumentNames";
pub const UNIQUE_ARGUMENT_NAMES: &str = "UniqueArgumentNames";
pub const PROVIDED_REQUIRED_ARGUMENTS: &str = "ProvidedRequiredArguments";
pub const FRAGMENT_NAME_UNIQUENESS: &str = "FragmentNameUniqueness";
pub const FRAGMENT_TYPE_EXISTENCE: &str = "FragmentSpreadTypeExistence";
pub const FRAGMENTS_ON_COMPOSITE_TYPES: &str = "FragmentsOnCompositeTypes";
pub const NO_UNUSED_FRAGMENTS: &str = "NoUnusedFragments";
pub const KNOWN_FRAGMENT_NAMES: &str = "KnownFragmentNames";
pub const NO_FRAGMENT_CYCLES: &str = "NoFragmentCycles";
pub const POSSIBLE_FRAGMENT_SPREADS: &str = "PossibleFragmentSpreads";
pub const VALUES_OF_CORRECT_TYPE: &str = "ValuesOfCorrectType";
pub const UNIQUE_INPUT_FIELD_NAMES: &str = "UniqueInputFieldNames";
pub const KNOWN_DIRECTIVES: &str = "KnownDirectives";
pub const UNIQUE_DIRECTIVES_PER_LOCATION: &str = "UniqueDirectivesPerLocation";
pub const UNIQUE_VARIABLE_NAMES: &str = "UniqueVariableNames";
pub const VARIABLES_ARE_INPUT_TYPES: &str = "VariablesAreInputTypes";
pub const NO_UNDEFINED_VARIABLES: &str = "NoUndefinedVariables";
pub const NO_UNUSED_VARIABLES: &str = "NoUnusedVariables";
pub const VARIABLES_IN_ALLOWED_POSITION: &str = "VariablesInAllowedPosition";
pub const DEFER_RULES: &str = "ApolloDeferRules";

/// Every rule id of the reference, in the order the rule functions run.
pub const RULES: &[&str] = &[
    EXECUTABLE_DEFINITIONS,
    OPERATION_NAME_UNIQUENESS,
    LONE_ANONYMOUS_OPERATION,
    UNDEFINED_ROOT_OPERATION_TYPE,
    SINGLE_ROOT_FIELD,
    SUBSCRIPTION_SKIP_INCLUDE,
    FIELDS_ON_CORRECT_TYPE,
    OVERLAPPING_FIELDS,
    SCALAR_LEAFS,
    KNOWN_ARGUMENT_NAMES,
    UNIQUE_ARGUMENT_NAMES,
    PROVIDED_REQUIRED_ARGUMENTS,
    FRAGMENT_NAME_UNIQUENESS,
    FRAGMENT_TYPE_EXISTENCE,
    FRAGMENTS_ON_COMPOSITE_TYPES,
    NO_UNUSED_FRAGMENTS,
    KNOWN_FRAGMENT_NAMES,
    NO_FRAGMENT_CYCLES,
    POSSIBLE_FRAGMENT_SPREADS,
    VALUES_OF_CORRECT_TYPE,
    UNIQUE_INPUT_FIELD_NAMES,
    KNOWN_DIRECTIVES,
    UNIQUE_DIRECTIVES_PER_LOCATION,
    UNIQUE_VARIABLE_NAMES,
    VARIABLES_ARE_INPUT_TYPES,
    NO_UNDEFINED_VARIABLES,
    NO_UNUSED_VARIABLES,
    VARIABLES_IN_ALLOWED_POSITION,
    DEFER_RULES,
];

#[derive(Clone, Debug)]
pub struct Params {
    pub reject_undefined_root_operation_type: bool,
    pub reject_skip_include_on_subscription_root: bool,
    pub apollo_defer_rules: bool,
    pub same_type_spread_always_allowed: bool,
    /// Upper bound on pair comparisons of the naive merge algorithm (then `budget_exhausted`).
    pub merge_budget: u64,
}

impl Params {
    /// The oracle of C17: the spec plus the differences the property statement grants apollo.
    pub fn apollo() -> Params {
        Params {
            reject_undefined_root_operation_type: true,
            reject_skip_include_on_subscription_root: true,
            apollo_defer_rules: true,
            same_type_spread_always_allowed: true,
            merge_budget: 400_000,
        }
    }
}

#[derive(Clone, Debug, PartialEq, Eq, PartialOrd, Ord)]
pub struct Violated {
    pub rule: &'static str,
    /// construct class at which the rule fires (no names, offsets or counts): used in signatures
    pub class: String,
}

#[derive(Clone, Debug, Default)]
pub struct Report {
    pub violated: Vec<Violated>,
    pub dont_care: Vec<String>,
    pub budget_exhausted: bool,
}

impl Report {
    pub fn is_empty(&self) -> bool {
        self.violated.is_empty()
    }
    /// The oracle gives a verdict only outside its don't-care bands and within its budget.
    pub fn decided(&self) -> bool {
        self.dont_care.is_empty() && !self.budget_exhausted
    }
    pub fn rule_ids(&self) -> BTreeSet<&'static str> {
        self.violated.iter().map(|v| v.rule).collect()
    }
    pub fn classes(&self) -> BTreeSet<String> {
        self.violated.iter().map(|v| v.class.clone()).collect()
    }
    fn add(&mut self, rule: &'static str, class: impl Into<String>) {
        let v = Violated { rule, class: class.into() };
        if !self.violated.contains(&v) {
            self.violated.push(v);
        }
    }
    fn band(&mut self, why: &str) {
        if !self.dont_care.iter().any(|d| d == why) {
            self.dont_care.push(why.to_string());
        }
    }
}

// ---------------------------------------------------------------------------------------------
// Introspection schema (October 2021 §4.5 plus the graphql-js v16 additions: `includeDeprecated`
// on `args`/`inputFields`, `isDeprecated`/`deprecationReason` on `__InputValue`).
// ---------------------------------------------------------------------------------------------

fn parse_ty(s: &str) -> TyRef {
    let s = s.trim();
    if let Some(inner) = s.strip_suffix('!') {
        return parse_ty(inner).non_null();
    }
    if let Some(inner) = s.strip_prefix('[').and_then(|x| x.strip_suffix(']')) {
        return parse_ty(inner).list();
    }
    TyRef::named(s)
}

fn fdef(name: &str, ty: &str, args: &[(&str, &str, Option<Val>)]) -> FieldDef {
    FieldDef {
        desc: None,
        name: name.to_string(),
        args: args
            .iter()
            .map(|(n, t, d)| InputDef {
                desc: None,
                name: n.to_string(),
                ty: parse_ty(t),
                default: d.clone(),
                dirs: vec![],
            })
            .collect(),
        ty: parse_ty(ty),
        dirs: vec![],
    }
}

fn flat_type(kind: Kind, name: &str) -> FlatType {
    FlatType {
        kind,
        desc: None,
        name: name.to_string(),
        implements: vec![],
        fields: vec![],
        members: vec![],
        values: vec![],
        input_fields: vec![],
        dirs: vec![],
        builtin: true,
    }
}

fn introspection_types() -> Vec<FlatType> {
    let inc: &[(&str, &str, Option<Val>)] = &[("includeDeprecated", "Boolean", Some(Val::Bool(false)))];
    let obj = |name: &str, fields: Vec<FieldDef>| {
        let mut t = flat_type(Kind::Object, name);
        t.fields = fields;
        t
    };
    let en = |name: &str, vals: &[&str]| {
        let mut t = flat_type(Kind::Enum, name);
        t.values = vals
            .iter()
            .map(|v| EnumVal { desc: None, name: v.to_string(), dirs: vec![] })
            .collect();
        t
    };
    vec![
        obj(
            "__Schema",
            vec![
                fdef("description", "String", &[]),
                fdef("types", "[__Type!]!", &[]),
                fdef("queryType", "__Type!", &[]),
                fdef("mutationType", "__Type", &[]),
                fdef("subscriptionType", "__Type", &[]),
                fdef("directives", "[__Directive!]!", &[]),
            ],
        ),
        obj(
            "__Type",
            vec![
                fdef("kind", "__TypeKind!", &[]),
                fdef("name", "String", &[]),
                fdef("description", "String", &[]),
                fdef("fields", "[__Field!]", inc),
                fdef("interfaces", "[__Type!]", &[]),
                fdef("possibleTypes", "[__Type!]", &[]),
                fdef("enumValues", "[__EnumValue!]", inc),
                fdef("inputFields", "[__InputValue!]", inc),
                fdef("ofType", "__Type", &[]),
                fdef("specifiedByURL", "String", &[]),
            ],
        ),
        en(
            "__TypeKind",
            &["SCALAR", "OBJECT", "INTERFACE", "UNION", "ENUM", "INPUT_OBJECT", "LIST", "NON_NULL"],
        ),
        obj(
            "__Field",
            vec![
                fdef("name", "String!", &[]),
                fdef("description", "String", &[]),
                fdef("args", "[__InputValue!]!", inc),
                fdef("type", "__Type!", &[]),
                fdef("isDeprecated", "Boolean!", &[]),
                fdef("deprecationReason", "String", &[]),
            ],
        ),
        obj(
            "__InputValue",
            vec![
                fdef("name", "String!", &[]),
                fdef("description", "String", &[]),
                fdef("type", "__Type!", &[]),
                fdef("defaultValue", "String", &[]),
                fdef("isDeprecated", "Boolean!", &[]),
                fdef("deprecationReason", "String", &[]),
            ],
        ),
        obj(
            "__EnumValue",
            vec![
                fdef("name", "String!", &[]),
                fdef("description", "String", &[]),
                fdef("isDeprecated", "Boolean!", &[]),
                fdef("deprecationReason", "String", &[]),
            ],
        ),
        obj(
            "__Directive",
            vec![
                fdef("name", "String!", &[]),
                fdef("description", "String", &[]),
                fdef("locations", "[__DirectiveLocation!]!", &[]),
                fdef("args", "[__InputValue!]!", inc),
                fdef("isRepeatable", "Boolean!", &[]),
            ],
        ),
        en(
            "__DirectiveLocation",
            &[
                "QUERY", "MUTATION", "SUBSCRIPTION", "FIELD", "FRAGMENT_DEFINITION", "FRAGMENT_SPREAD",
                "INLINE_FRAGMENT", "VARIABLE_DEFINITION", "SCHEMA", "SCALAR", "OBJECT", "FIELD_DEFINITION",
                "ARGUMENT_DEFINITION", "INTERFACE", "UNION", "ENUM", "ENUM_VALUE", "INPUT_OBJECT",
                "INPUT_FIELD_DEFINITION",
            ],
        ),
    ]
}

/// The flat schema plus the introspection types (never overriding a user definition).
pub fn with_introspection(flat: &FlatSchema) -> FlatSchema {
    let mut s = flat.clone();
    for t in introspection_types() {
        if s.ty(&t.name).is_none() {
            s.types.push(t);
        }
    }
    s
}

pub struct RefExecRules {
    pub schema: FlatSchema,
    pub params: Params,
}

/// One selection of the document with the typing context the rules need.
#[derive(Clone)]
pub struct Item<'a> {
    /// index of the owning definition in `doc.defs`
    pub owner: usize,
    /// "query" | "mutation" | "subscription" | "fragment"
    pub owner_kind: &'a str,
    /// the parent type when it is known and composite
    pub parent: Option<String>,
    pub sel: &'a Sel,
    /// definition of the field (fields only) when the parent type is known and defines it
    pub def: Option<FieldDef>,
    /// the selection is not nested inside a field of its owning definition
    pub at_root: bool,
}

/// A directive application with the location it is applied at.
pub struct DirSite<'a> {
    pub location: &'static str,
    pub dirs: &'a [DirApp],
}

/// A use of a variable with the type (and default) of the position it is used at.
#[derive(Clone, Debug)]
pub struct VarUse {
    pub name: String,
    pub loc_ty: Option<TyRef>,
    pub loc_has_default: bool,
    /// "argument" | "directive argument" | "variable inside list literal" | "variable inside object literal"
    pub pos: String,
    /// the use sits inside a literal given to a custom scalar (no expected type there)
    pub in_custom_scalar: bool,
}

fn op_location(kind: &str) -> &'static str {
    match kind {
        "query" => "QUERY",
        "mutation" => "MUTATION",
        _ => "SUBSCRIPTION",
    }
}

fn response_key(s: &Sel) -> &str {
    match s {
        Sel::Field { alias, name, .. } => alias.as_deref().unwrap_or(name),
        _ => "",
    }
}

fn sel_dirs(s: &Sel) -> &[DirApp] {
    match s {
        Sel::Field { dirs, .. } | Sel::Spread { dirs, .. } | Sel::Inline { dirs, .. } => dirs,
    }
}

fn has_skip_include(dirs: &[DirApp]) -> bool {
    dirs.iter().any(|d| d.name == "skip" || d.name == "include")
}

fn val_kind(v: &Val) -> &'static str {
    match v {
        Val::Null => "null",
        Val::Int(_) => "int",
        Val::Float(_) => "float",
        Val::Str(_) => "string",
        Val::Bool(_) => "boolean",
        Val::Enum(_) => "enum",
        Val::List(_) => "list",
        Val::Obj(_) => "object",
        Val::Var(_) => "variable",
    }
}

fn contains_var(v: &Val) -> bool {
    match v {
        Val::Var(_) => true,
        Val::List(xs) => xs.iter().any(contains_var),
        Val::Obj(fs) => fs.iter().any(|(_, x)| contains_var(x)),
        _ => false,
    }
}

// ---------------------------------------------------------------------------------------------
// Typing helpers
// ---------------------------------------------------------------------------------------------

impl RefExecRules {
    pub fn new(flat: &FlatSchema, params: Params) -> RefExecRules {
        RefExecRules { schema: with_introspection(flat), params }
    }

    fn composite(&self, name: &str) -> Option<String> {
        if self.schema.is_composite(name) {
            Some(name.to_string())
        } else {
            None
        }
    }

    fn is_custom_scalar(&self, name: &str) -> bool {
        self.schema.kind(name) == Some(Kind::Scalar) && !BUILTIN_SCALARS.contains(&name)
    }

    /// §5.3.1 field lookup including the meta-fields: `__typename` on every composite type,
    /// `__schema` and `__type(name: String!)` on the query root type only.
    pub fn field_def(&self, parent: &str, name: &str) -> Option<FieldDef> {
        let t = self.schema.ty(parent)?;
        if matches!(t.kind, Kind::Object | Kind::Interface) {
            if let Some(f) = t.fields.iter().find(|f| f.name == name) {
                return Some(f.clone());
            }
        }
        if !matches!(t.kind, Kind::Object | Kind::Interface | Kind::Union) {
            return None;
        }
        if name == "__typename" {
            return Some(fdef("__typename", "String!", &[]));
        }
        if self.schema.query.as_deref() == Some(parent) {
            match name {
                "__schema" => return Some(fdef("__schema", "__Schema!", &[])),
                "__type" => return Some(fdef("__type", "__Type", &[("name", "String!", None)])),
                _ => {}
            }
        }
        None
    }

    fn root_parent(&self, kind: &str) -> Option<String> {
        self.schema.root(kind).and_then(|r| self.composite(r))
    }

    fn walk<'a>(
        &self,
        owner: usize,
        owner_kind: &'a str,
        parent: Option<String>,
        sels: &'a [Sel],
        at_root: bool,
        out: &mut Vec<Item<'a>>,
    ) {
        for sel in sels {
            match sel {
                Sel::Field { name, sels: sub, .. } => {
                    let def = parent.as_deref().and_then(|p| self.field_def(p, name));
                    let child = def.as_ref().and_then(|d| self.composite(d.ty.inner_name()));
                    out.push(Item { owner, owner_kind, parent: parent.clone(), sel, def, at_root });
                    self.walk(owner, owner_kind, child, sub, false, out);
                }
                Sel::Spread { .. } => {
                    out.push(Item { owner, owner_kind, parent: parent.clone(), sel, def: None, at_root });
                }
                Sel::Inline { on, sels: sub, .. } => {
                    out.push(Item { owner, owner_kind, parent: parent.clone(), sel, def: None, at_root });
                    let child = match on {
                        Some(t) => self.composite(t),
                        None => parent.clone(),
                    };
                    self.walk(owner, owner_kind, child, sub, at_root, out);
                }
            }
        }
    }

    /// Every selection of every operation and fragment definition, in place (spreads are not
    /// followed), with its parent type.
    pub fn items<'a>(&self, doc: &'a Doc) -> Vec<Item<'a>> {
        let mut out = Vec::new();
        for (i, d) in doc.defs.iter().enumerate() {
            match d {
                Def::Op(o) => self.walk(i, o.kind.as_str(), self.root_parent(&o.kind), &o.sels, true, &mut out),
                Def::Frag(f) => self.walk(i, "fragment", self.composite(&f.on), &f.sels, true, &mut out),
                _ => {}
            }
        }
        out
    }

    /// Every list of directive applications in the document with its location.
    pub fn dir_sites<'a>(&self, doc: &'a Doc) -> Vec<DirSite<'a>> {
        fn sels<'a>(ss: &'a [Sel], out: &mut Vec<DirSite<'a>>) {
            for s in ss {
                match s {
                    Sel::Field { dirs, sels: sub, .. } => {
                        out.push(DirSite { location: "FIELD", dirs });
                        sels(sub, out);
                    }
                    Sel::Spread { dirs, .. } => out.push(DirSite { location: "FRAGMENT_SPREAD", dirs }),
                    Sel::Inline { dirs, sels: sub, .. } => {
                        out.push(DirSite { location: "INLINE_FRAGMENT", dirs });
                        sels(sub, out);
                    }
                }
            }
        }
        let mut out = Vec::new();
        for d in &doc.defs {
            match d {
                Def::Op(o) => {
                    out.push(DirSite { location: op_location(&o.kind), dirs: &o.dirs });
                    for v in &o.vars {
                        out.push(DirSite { location: "VARIABLE_DEFINITION", dirs: &v.dirs });
                    }
                    sels(&o.sels, &mut out);
                }
                Def::Frag(f) => {
                    out.push(DirSite { location: "FRAGMENT_DEFINITION", dirs: &f.dirs });
                    sels(&f.sels, &mut out);
                }
                _ => {}
            }
        }
        out
    }

    fn first_frag<'a>(&self, doc: &'a Doc, name: &str) -> Option<&'a FragDef> {
        doc.frags().find(|f| f.name == name)
    }

    // -----------------------------------------------------------------------------------------
    // Variable uses with the type of the position (TypeInfo of graphql-js / "expected type of the
    // Argument, ObjectField, or ListValue entry where variableUsage is located" of §5.8.5)
    // -----------------------------------------------------------------------------------------

    fn uses_in_value(&self, ty: Option<&TyRef>, loc_default: bool, v: &Val, pos: &str, out: &mut Vec<VarUse>, rep: &mut Report) {
        self.uses_in_value2(ty, loc_default, v, pos, false, out, rep)
    }

    #[allow(clippy::too_many_arguments)]
    fn uses_in_value2(&self, ty: Option<&TyRef>, loc_default: bool, v: &Val, pos: &str, in_scalar: bool, out: &mut Vec<VarUse>, rep: &mut Report) {
        let in_scalar_below =
            in_scalar || matches!(ty.map(|t| t.nullable()), Some(TyRef::Named(n)) if self.is_custom_scalar(&n));
        match v {
            Val::Var(n) => out.push(VarUse {
                name: n.clone(),
                loc_ty: ty.cloned(),
                loc_has_default: loc_default,
                pos: pos.to_string(),
                in_custom_scalar: in_scalar,
            }),
            Val::List(items) => {
                let item_ty: Option<TyRef> = match ty.map(|t| t.nullable()) {
                    Some(TyRef::List(t)) => Some(*t),
                    Some(TyRef::Named(n)) if self.is_custom_scalar(&n) => {
                        // graphql-js types the entries with the scalar itself, the spec gives the
                        // entries of a list given to a scalar no expected type: don't-care band
                        if items.iter().any(contains_var) {
                            rep.band("variable nested in a list literal given to a custom scalar");
                        }
                        None
                    }
                    // a list literal where no list is expected is a ValuesOfCorrectType error
                    Some(_) => None,
                    None => None,
                };
                for it in items {
                    self.uses_in_value2(item_ty.as_ref(), false, it, "variable inside list literal", in_scalar_below, out, rep);
                }
            }
            Val::Obj(fields) => {
                let input = ty
                    .map(|t| t.inner_name().to_string())
                    .and_then(|n| self.schema.ty(&n))
                    .filter(|t| t.kind == Kind::Input);
                for (k, fv) in fields {
                    let fd = input.and_then(|t| t.input_fields.iter().find(|f| f.name == *k));
                    match fd {
                        Some(fd) => self.uses_in_value2(
                            Some(&fd.ty),
                            fd.default.is_some(),
                            fv,
                            "variable inside object literal",
                            in_scalar_below,
                            out,
                            rep,
                        ),
                        None => self.uses_in_value2(None, false, fv, "variable inside object literal", in_scalar_below, out, rep),
                    }
                }
            }
            _ => {}
        }
    }

    fn uses_in_dirs(&self, dirs: &[DirApp], out: &mut Vec<VarUse>, rep: &mut Report) {
        for d in dirs {
            let def = self.schema.directive(&d.name);
            for (an, av) in &d.args {
                let ad = def.and_then(|x| x.args.iter().find(|a| a.name == *an));
                self.uses_in_value(
                    ad.map(|a| &a.ty),
                    ad.map(|a| a.default.is_some()).unwrap_or(false),
                    av,
                    "directive argument",
                    out,
                    rep,
                );
            }
        }
    }

    fn uses_in_sels(
        &self,
        doc: &Doc,
        parent: Option<String>,
        sels: &[Sel],
        visited: &mut Vec<String>,
        out: &mut Vec<VarUse>,
        rep: &mut Report,
    ) {
        for s in sels {
            self.uses_in_dirs(sel_dirs(s), out, rep);
            match s {
                Sel::Field { name, args, sels: sub, .. } => {
                    let def = parent.as_deref().and_then(|p| self.field_def(p, name));
                    for (an, av) in args {
                        let ad = def.as_ref().and_then(|d| d.args.iter().find(|a| a.name == *an));
                        self.uses_in_value(
                            ad.map(|a| &a.ty),
                            ad.map(|a| a.default.is_some()).unwrap_or(false),
                            av,
                            "argument",
                            out,
                            rep,
                        );
                    }
                    let child = def.as_ref().and_then(|d| self.composite(d.ty.inner_name()));
                    self.uses_in_sels(doc, child, sub, visited, out, rep);
                }
                Sel::Inline { on, sels: sub, .. } => {
                    let child = match on {
                        Some(t) => self.composite(t),
                        None => parent.clone(),
                    };
                    self.uses_in_sels(doc, child, sub, visited, out, rep);
                }
                Sel::Spread { name, .. } => {
                    if visited.contains(name) {
                        continue;
                    }
                    visited.push(name.clone());
                    if let Some(f) = self.first_frag(doc, name) {
                        self.uses_in_dirs(&f.dirs, out, rep);
                        self.uses_in_sels(doc, self.composite(&f.on), &f.sels, visited, out, rep);
                    }
                }
            }
        }
    }

    /// All variable uses in the scope of an operation: its own directives and selections and,
    /// transitively, every fragment it spreads (each once).
    pub fn op_uses(&self, doc: &Doc, op: &OpDef, rep: &mut Report) -> Vec<VarUse> {
        let mut out = Vec::new();
        self.uses_in_dirs(&op.dirs, &mut out, rep);
        let mut visited = Vec::new();
        self.uses_in_sels(doc, self.root_parent(&op.kind), &op.sels, &mut visited, &mut out, rep);
        out
    }
}

// ---------------------------------------------------------------------------------------------
// The rules, one function each. Every function only appends to the report.
// ---------------------------------------------------------------------------------------------

impl RefExecRules {
    /// §5.1.1 Executable Definitions.
    pub fn executable_definitions(&self, doc: &Doc, rep: &mut Report) {
        if doc.defs.iter().any(|d| !d.is_executable()) {
            rep.add(EXECUTABLE_DEFINITIONS, "type system definition in an executable document");
        }
    }

    /// §5.2.1.1 Operation Name Uniqueness.
    pub fn operation_name_uniqueness(&self, doc: &Doc, rep: &mut Report) {
        let mut seen: Vec<&str> = Vec::new();
        for o in doc.ops() {
            if let Some(n) = &o.name {
                if seen.contains(&n.as_str()) {
                    rep.add(OPERATION_NAME_UNIQUENESS, "two operations with one name");
                }
                seen.push(n);
            }
        }
    }

    /// §5.2.2.1 Lone Anonymous Operation.
    pub fn lone_anonymous_operation(&self, doc: &Doc, rep: &mut Report) {
        let n = doc.ops().count();
        if n > 1 && doc.ops().any(|o| o.name.is_none()) {
            rep.add(LONE_ANONYMOUS_OPERATION, "anonymous operation next to another operation");
        }
    }

    /// Deliberate difference: the root operation type of every operation must be defined.
    pub fn undefined_root_operation_type(&self, doc: &Doc, rep: &mut Report) {
        if !self.params.reject_undefined_root_operation_type {
            return;
        }
        for o in doc.ops() {
            if self.schema.root(&o.kind).is_none() {
                rep.add(UNDEFINED_ROOT_OPERATION_TYPE, format!("{} operation without root type", o.kind));
            }
        }
    }

    /// Root-level selections of a selection set through inline fragments and named fragments
    /// (each named fragment once): what `CollectFields` visits. `f` sees every visited selection.
    fn collect_root<'a>(&self, doc: &'a Doc, sels: &'a [Sel], visited: &mut Vec<String>, f: &mut dyn FnMut(&'a Sel)) {
        for s in sels {
            f(s);
            match s {
                Sel::Field { .. } => {}
                Sel::Inline { sels: sub, .. } => self.collect_root(doc, sub, visited, f),
                Sel::Spread { name, .. } => {
                    if !visited.contains(name) {
                        visited.push(name.clone());
                        if let Some(fr) = self.first_frag(doc, name) {
                            self.collect_root(doc, &fr.sels, visited, f);
                        }
                    }
                }
            }
        }
    }

    /// §5.2.3.1 Single root field: exactly one RESPONSE KEY after CollectFields, and it must not
    /// be an introspection field.
    pub fn single_root_field(&self, doc: &Doc, rep: &mut Report) {
        for o in doc.ops().filter(|o| o.kind == "subscription") {
            let mut keys: Vec<&str> = Vec::new();
            let mut introspection = false;
            self.collect_root(doc, &o.sels, &mut Vec::new(), &mut |s| {
                if let Sel::Field { name, .. } = s {
                    let k = response_key(s);
                    if !keys.contains(&k) {
                        keys.push(k);
                    }
                    if name.starts_with("__") {
                        introspection = true;
                    }
                }
            });
            if keys.len() > 1 {
                rep.add(SINGLE_ROOT_FIELD, "subscription with more than one response key at the root");
            }
            if introspection {
                rep.add(SINGLE_ROOT_FIELD, "introspection field at the root of a subscription");
            }
        }
    }

    /// Deliberate difference: no `@skip` / `@include` on subscription root selections.
    pub fn subscription_root_skip_include(&self, doc: &Doc, rep: &mut Report) {
        if !self.params.reject_skip_include_on_subscription_root {
            return;
        }
        for o in doc.ops().filter(|o| o.kind == "subscription") {
            let mut hit: Option<&'static str> = None;
            self.collect_root(doc, &o.sels, &mut Vec::new(), &mut |s| {
                if has_skip_include(sel_dirs(s)) {
                    hit = Some(match s {
                        Sel::Field { .. } => "@skip/@include on a subscription root field",
                        Sel::Inline { .. } => "@skip/@include on a subscription root inline fragment",
                        Sel::Spread { .. } => "@skip/@include on a subscription root fragment spread",
                    });
                }
            });
            if let Some(h) = hit {
                rep.add(SUBSCRIPTION_SKIP_INCLUDE, h);
            }
        }
    }

    /// §5.3.1 Field Selections (FieldsOnCorrectType), meta-fields included.
    pub fn fields_on_correct_type(&self, doc: &Doc, rep: &mut Report) {
        for it in self.items(doc) {
            if let (Sel::Field { name, .. }, Some(parent), None) = (it.sel, &it.parent, &it.def) {
                let class = if name == "__schema" || name == "__type" {
                    "__schema/__type outside the query root type"
                } else if self.schema.kind(parent) == Some(Kind::Union) {
                    "field other than __typename on a union"
                } else {
                    "field not defined on the parent type"
                };
                rep.add(FIELDS_ON_CORRECT_TYPE, class);
            }
        }
    }

    /// §5.3.3 Leaf Field Selections (ScalarLeafs).
    pub fn scalar_leafs(&self, doc: &Doc, rep: &mut Report) {
        for it in self.items(doc) {
            if let (Sel::Field { sels, .. }, Some(def)) = (it.sel, &it.def) {
                let inner = def.ty.inner_name();
                if self.schema.is_leaf(inner) && !sels.is_empty() {
                    rep.add(SCALAR_LEAFS, "sub-selection on a scalar or enum field");
                }
                if self.schema.is_composite(inner) && sels.is_empty() {
                    rep.add(SCALAR_LEAFS, "composite field without sub-selection");
                }
            }
        }
    }

    /// §5.4.1 Argument Names (fields and directives).
    pub fn known_argument_names(&self, doc: &Doc, rep: &mut Report) {
        for it in self.items(doc) {
            if let (Sel::Field { args, .. }, Some(def)) = (it.sel, &it.def) {
                if args.iter().any(|(n, _)| !def.args.iter().any(|a| a.name == *n)) {
                    rep.add(KNOWN_ARGUMENT_NAMES, "field argument");
                }
            }
        }
        for site in self.dir_sites(doc) {
            for d in site.dirs {
                if let Some(def) = self.schema.directive(&d.name) {
                    if d.args.iter().any(|(n, _)| !def.args.iter().any(|a| a.name == *n)) {
                        rep.add(KNOWN_ARGUMENT_NAMES, "directive argument");
                    }
                }
            }
        }
    }

    fn has_dup_names(args: &[(String, Val)]) -> bool {
        args.iter().enumerate().any(|(i, (n, _))| args[..i].iter().any(|(m, _)| m == n))
    }

    /// §5.4.2 Argument Uniqueness (fields and directives; schema-independent).
    pub fn unique_argument_names(&self, doc: &Doc, rep: &mut Report) {
        for it in self.items(doc) {
            if let Sel::Field { args, .. } = it.sel {
                if Self::has_dup_names(args) {
                    rep.add(UNIQUE_ARGUMENT_NAMES, "field argument");
                }
            }
        }
        for site in self.dir_sites(doc) {
            if site.dirs.iter().any(|d| Self::has_dup_names(&d.args)) {
                rep.add(UNIQUE_ARGUMENT_NAMES, "directive argument");
            }
        }
    }

    fn missing_required(defs: &[InputDef], args: &[(String, Val)]) -> Option<&'static str> {
        for a in defs {
            if a.ty.is_non_null() && a.default.is_none() {
                match args.iter().find(|(n, _)| *n == a.name) {
                    None => return Some("missing"),
                    Some((_, Val::Null)) => return Some("null literal"),
                    _ => {}
                }
            }
        }
        None
    }

    /// §5.4.2.1 Required Arguments (fields and directives).
    pub fn provided_required_arguments(&self, doc: &Doc, rep: &mut Report) {
        for it in self.items(doc) {
            if let (Sel::Field { args, .. }, Some(def)) = (it.sel, &it.def) {
                if let Some(how) = Self::missing_required(&def.args, args) {
                    rep.add(PROVIDED_REQUIRED_ARGUMENTS, format!("required field argument {how}"));
                }
            }
        }
        for site in self.dir_sites(doc) {
            for d in site.dirs {
                if let Some(def) = self.schema.directive(&d.name) {
                    if let Some(how) = Self::missing_required(&def.args, &d.args) {
                        rep.add(PROVIDED_REQUIRED_ARGUMENTS, format!("required directive argument {how}"));
                    }
                }
            }
        }
    }

    /// §5.5.1.1 Fragment Name Uniqueness.
    pub fn fragment_name_uniqueness(&self, doc: &Doc, rep: &mut Report) {
        let mut seen: Vec<&str> = Vec::new();
        for f in doc.frags() {
            if seen.contains(&f.name.as_str()) {
                rep.add(FRAGMENT_NAME_UNIQUENESS, "two fragments with one name");
            }
            seen.push(&f.name);
        }
    }

    /// §5.5.1.2 Fragment Spread Type Existence.
    pub fn fragment_type_existence(&self, doc: &Doc, rep: &mut Report) {
        for f in doc.frags() {
            if self.schema.ty(&f.on).is_none() {
                rep.add(FRAGMENT_TYPE_EXISTENCE, "fragment definition on an undefined type");
            }
        }
        for it in self.items(doc) {
            if let Sel::Inline { on: Some(t), .. } = it.sel {
                if self.schema.ty(t).is_none() {
                    rep.add(FRAGMENT_TYPE_EXISTENCE, "inline fragment on an undefined type");
                }
            }
        }
    }

    /// §5.5.1.3 Fragments On Composite Types.
    pub fn fragments_on_composite_types(&self, doc: &Doc, rep: &mut Report) {
        for f in doc.frags() {
            if self.schema.ty(&f.on).is_some() && !self.schema.is_composite(&f.on) {
                rep.add(FRAGMENTS_ON_COMPOSITE_TYPES, "fragment definition on a non-composite type");
            }
        }
        for it in self.items(doc) {
            if let Sel::Inline { on: Some(t), .. } = it.sel {
                if self.schema.ty(t).is_some() && !self.schema.is_composite(t) {
                    rep.add(FRAGMENTS_ON_COMPOSITE_TYPES, "inline fragment on a non-composite type");
                }
            }
        }
    }

    fn spreads_in(sels: &[Sel], out: &mut Vec<String>) {
        for s in sels {
            match s {
                Sel::Field { sels, .. } | Sel::Inline { sels, .. } => Self::spreads_in(sels, out),
                Sel::Spread { name, .. } => out.push(name.clone()),
            }
        }
    }

    /// §5.5.1.4 Fragments Must Be Used (reachable from some operation, transitively).
    pub fn no_unused_fragments(&self, doc: &Doc, rep: &mut Report) {
        let mut used: Vec<String> = Vec::new();
        let mut stack: Vec<String> = Vec::new();
        for o in doc.ops() {
            Self::spreads_in(&o.sels, &mut stack);
        }
        while let Some(n) = stack.pop() {
            if used.contains(&n) {
                continue;
            }
            used.push(n.clone());
            for f in doc.frags().filter(|f| f.name == n) {
                Self::spreads_in(&f.sels, &mut stack);
            }
        }
        if doc.frags().any(|f| !used.contains(&f.name)) {
            rep.add(NO_UNUSED_FRAGMENTS, "fragment reachable from no operation");
        }
    }

    /// §5.5.2.1 Fragment spread target defined.
    pub fn known_fragment_names(&self, doc: &Doc, rep: &mut Report) {
        for it in self.items(doc) {
            if let Sel::Spread { name, .. } = it.sel {
                if self.first_frag(doc, name).is_none() {
                    rep.add(KNOWN_FRAGMENT_NAMES, "spread of an undefined fragment");
                }
            }
        }
    }

    /// §5.5.2.2 Fragment spreads must not form cycles: own DFS over the spread graph (spreads at
    /// any depth of a fragment's selection set, through fields and inline fragments).
    pub fn no_fragment_cycles(&self, doc: &Doc, rep: &mut Report) {
        let names: Vec<&str> = doc.frags().map(|f| f.name.as_str()).collect();
        let edges: HashMap<&str, Vec<String>> = doc
            .frags()
            .map(|f| {
                let mut out = Vec::new();
                Self::spreads_in(&f.sels, &mut out);
                (f.name.as_str(), out)
            })
            .collect();
        // colour: 0 white, 1 on stack, 2 done
        fn dfs<'a>(n: &'a str, edges: &'a HashMap<&str, Vec<String>>, colour: &mut HashMap<&'a str, u8>) -> bool {
            colour.insert(n, 1);
            if let Some(es) = edges.get(n) {
                for e in es {
                    match colour.get(e.as_str()).copied().unwrap_or(0) {
                        1 => return true,
                        0 => {
                            if edges.contains_key(e.as_str()) && dfs(e.as_str(), edges, colour) {
                                return true;
                            }
                        }
                        _ => {}
                    }
                }
            }
            colour.insert(n, 2);
            false
        }
        let mut colour: HashMap<&str, u8> = HashMap::new();
        for n in names {
            if colour.get(n).copied().unwrap_or(0) == 0 && dfs(n, &edges, &mut colour) {
                rep.add(NO_FRAGMENT_CYCLES, "fragment spread cycle");
                return;
            }
        }
    }

    fn spread_possible(&self, parent: &str, cond: &str) -> bool {
        if self.params.same_type_spread_always_allowed && parent == cond {
            return true;
        }
        let a = self.schema.possible_types(parent);
        let b = self.schema.possible_types(cond);
        a.iter().any(|x| b.contains(x))
    }

    /// §5.5.2.3 Fragment spread is possible.
    pub fn possible_fragment_spreads(&self, doc: &Doc, rep: &mut Report) {
        for it in self.items(doc) {
            let Some(parent) = &it.parent else { continue };
            match it.sel {
                Sel::Inline { on: Some(t), .. } if self.schema.is_composite(t) => {
                    if !self.spread_possible(parent, t) {
                        rep.add(POSSIBLE_FRAGMENT_SPREADS, "inline fragment");
                    }
                }
                Sel::Spread { name, .. } => {
                    if let Some(f) = self.first_frag(doc, name) {
                        if self.schema.is_composite(&f.on) && !self.spread_possible(parent, &f.on) {
                            rep.add(POSSIBLE_FRAGMENT_SPREADS, "named fragment spread");
                        }
                    }
                }
                _ => {}
            }
        }
    }
}

// ---------------------------------------------------------------------------------------------
// Values, directives, variables
// ---------------------------------------------------------------------------------------------

impl RefExecRules {
    /// Literal `v` at a position of type `ty` (§5.6.1 with the input coercion rules of §3).
    /// Variables are not judged here. `pos` names the kind of position for the construct class.
    fn value_of_type(&self, ty: &TyRef, v: &Val, pos: &str, rep: &mut Report) {
        let bad = |rep: &mut Report, what: &str| rep.add(VALUES_OF_CORRECT_TYPE, format!("{pos}: {what}"));
        match v {
            Val::Var(_) => return,
            Val::Null => {
                if ty.is_non_null() {
                    bad(rep, "null for a non-null type");
                }
                return;
            }
            _ => {}
        }
        match ty.nullable() {
            TyRef::NonNull(_) => unreachable!(),
            TyRef::List(item) => match v {
                Val::List(items) => {
                    for it in items {
                        self.value_of_type(&item, it, "list item", rep);
                    }
                }
                // a single value where a list is expected is coerced to a list of one (recursively)
                other => self.value_of_type(&item, other, pos, rep),
            },
            TyRef::Named(n) => {
                let Some(t) = self.schema.ty(&n) else { return };
                match t.kind {
                    Kind::Scalar if !BUILTIN_SCALARS.contains(&n.as_str()) => {
                        // custom scalars accept any literal
                    }
                    Kind::Scalar => {
                        let ok = match (n.as_str(), v) {
                            ("Int", Val::Int(i)) => {
                                if *i < i32::MIN as i64 || *i > i32::MAX as i64 {
                                    bad(rep, "Int literal outside 32 bits");
                                }
                                true
                            }
                            ("Float", Val::Int(_)) => true,
                            ("Float", Val::Float(text)) => {
                                match text.parse::<f64>() {
                                    Ok(x) if x.is_finite() => {}
                                    _ => rep.band("Float literal that overflows f64"),
                                }
                                true
                            }
                            ("String", Val::Str(_)) => true,
                            ("Boolean", Val::Bool(_)) => true,
                            ("ID", Val::Str(_)) | ("ID", Val::Int(_)) => true,
                            _ => false,
                        };
                        if !ok {
                            bad(rep, &format!("{} literal for {}", val_kind(v), n));
                        }
                    }
                    Kind::Enum => match v {
                        Val::Enum(e) => {
                            if !t.values.iter().any(|x| x.name == *e) {
                                bad(rep, "enum value not defined by the enum type");
                            }
                        }
                        other => bad(rep, &format!("{} literal for an enum type", val_kind(other))),
                    },
                    Kind::Input => match v {
                        Val::Obj(fields) => {
                            for (k, fv) in fields {
                                match t.input_fields.iter().find(|f| f.name == *k) {
                                    Some(fd) => self.value_of_type(&fd.ty, fv, "input object field", rep),
                                    None => bad(rep, "field not defined by the input object type"),
                                }
                            }
                            for fd in &t.input_fields {
                                if fd.ty.is_non_null()
                                    && fd.default.is_none()
                                    && !fields.iter().any(|(k, _)| *k == fd.name)
                                {
                                    bad(rep, "required input object field missing");
                                }
                            }
                        }
                        other => bad(rep, &format!("{} literal for an input object type", val_kind(other))),
                    },
                    Kind::Object | Kind::Interface | Kind::Union => {}
                }
            }
        }
    }

    /// §5.6.1 Values of Correct Type: field arguments, directive arguments, variable defaults.
    pub fn values_of_correct_type(&self, doc: &Doc, rep: &mut Report) {
        for it in self.items(doc) {
            if let (Sel::Field { args, .. }, Some(def)) = (it.sel, &it.def) {
                for (n, v) in args {
                    if let Some(a) = def.args.iter().find(|a| a.name == *n) {
                        self.value_of_type(&a.ty, v, "field argument", rep);
                    }
                }
            }
        }
        for site in self.dir_sites(doc) {
            for d in site.dirs {
                if let Some(def) = self.schema.directive(&d.name) {
                    for (n, v) in &d.args {
                        if let Some(a) = def.args.iter().find(|a| a.name == *n) {
                            self.value_of_type(&a.ty, v, "directive argument", rep);
                        }
                    }
                }
            }
        }
        for o in doc.ops() {
            for v in &o.vars {
                if let Some(d) = &v.default {
                    if self.schema.is_input_type(v.ty.inner_name()) {
                        self.value_of_type(&v.ty, d, "variable default value", rep);
                    }
                }
            }
        }
    }

    fn dup_input_fields(v: &Val) -> bool {
        match v {
            Val::Obj(fs) => Self::has_dup_names(fs) || fs.iter().any(|(_, x)| Self::dup_input_fields(x)),
            Val::List(xs) => xs.iter().any(Self::dup_input_fields),
            _ => false,
        }
    }

    /// §5.6.3 Input Object Field Uniqueness (every object literal, schema-independent).
    pub fn unique_input_field_names(&self, doc: &Doc, rep: &mut Report) {
        let mut any = false;
        for it in self.items(doc) {
            if let Sel::Field { args, .. } = it.sel {
                any |= args.iter().any(|(_, v)| Self::dup_input_fields(v));
            }
        }
        for site in self.dir_sites(doc) {
            for d in site.dirs {
                any |= d.args.iter().any(|(_, v)| Self::dup_input_fields(v));
            }
        }
        for o in doc.ops() {
            for v in &o.vars {
                any |= v.default.as_ref().map(Self::dup_input_fields).unwrap_or(false);
            }
        }
        if any {
            rep.add(UNIQUE_INPUT_FIELD_NAMES, "input object literal with a repeated field");
        }
    }

    /// §5.7.1 Directives Are Defined and §5.7.2 Directives Are In Valid Locations.
    pub fn known_directives(&self, doc: &Doc, rep: &mut Report) {
        for site in self.dir_sites(doc) {
            for d in site.dirs {
                match self.schema.directive(&d.name) {
                    None => rep.add(KNOWN_DIRECTIVES, "undefined directive"),
                    Some(def) => {
                        if !def.locations.iter().any(|l| l == site.location) {
                            rep.add(KNOWN_DIRECTIVES, "directive in a location it does not declare");
                        }
                    }
                }
            }
        }
    }

    /// §5.7.3 Directives Are Unique Per Location (non-repeatable directives).
    pub fn unique_directives_per_location(&self, doc: &Doc, rep: &mut Report) {
        for site in self.dir_sites(doc) {
            for (i, d) in site.dirs.iter().enumerate() {
                if let Some(def) = self.schema.directive(&d.name) {
                    if !def.repeatable && site.dirs[..i].iter().any(|e| e.name == d.name) {
                        rep.add(UNIQUE_DIRECTIVES_PER_LOCATION, "non-repeatable directive applied twice");
                    }
                }
            }
        }
    }

    /// §5.8.1 Variable Uniqueness.
    pub fn unique_variable_names(&self, doc: &Doc, rep: &mut Report) {
        for o in doc.ops() {
            for (i, v) in o.vars.iter().enumerate() {
                if o.vars[..i].iter().any(|w| w.name == v.name) {
                    rep.add(UNIQUE_VARIABLE_NAMES, "two variables with one name");
                }
            }
        }
    }

    /// §5.8.2 Variables Are Input Types (the named type must exist and be scalar/enum/input).
    pub fn variables_are_input_types(&self, doc: &Doc, rep: &mut Report) {
        for o in doc.ops() {
            for v in &o.vars {
                let n = v.ty.inner_name();
                if self.schema.ty(n).is_none() {
                    rep.add(VARIABLES_ARE_INPUT_TYPES, "variable of an undefined type");
                } else if !self.schema.is_input_type(n) {
                    rep.add(VARIABLES_ARE_INPUT_TYPES, "variable of an output-only type");
                }
            }
        }
    }

    /// §5.8.3 All Variable Uses Defined (per operation, through fragments).
    pub fn no_undefined_variables(&self, doc: &Doc, rep: &mut Report) {
        for o in doc.ops() {
            let mut scratch = Report::default();
            for u in self.op_uses(doc, o, &mut scratch) {
                if !o.vars.iter().any(|v| v.name == u.name) {
                    rep.add(NO_UNDEFINED_VARIABLES, format!("undefined {}", Self::use_class(&u)));
                }
            }
        }
    }

    fn use_class(u: &VarUse) -> String {
        match u.pos.as_str() {
            "argument" | "directive argument" => "variable as argument".to_string(),
            _ if u.in_custom_scalar => "variable nested inside a literal given to a custom scalar".to_string(),
            _ => "variable nested inside a list or object literal".to_string(),
        }
    }

    /// §5.8.4 All Variables Used (per operation, through fragments).
    pub fn no_unused_variables(&self, doc: &Doc, rep: &mut Report) {
        for o in doc.ops() {
            let mut scratch = Report::default();
            let uses = self.op_uses(doc, o, &mut scratch);
            if o.vars.iter().any(|v| !uses.iter().any(|u| u.name == v.name)) {
                rep.add(NO_UNUSED_VARIABLES, "variable never used in the operation's scope");
            }
        }
    }

    /// `AreTypesCompatible(variableType, locationType)` of §5.8.5.
    pub fn are_types_compatible(var: &TyRef, loc: &TyRef) -> bool {
        match (var, loc) {
            (TyRef::NonNull(v), TyRef::NonNull(l)) => Self::are_types_compatible(v, l),
            (_, TyRef::NonNull(_)) => false,
            (TyRef::NonNull(v), l) => Self::are_types_compatible(v, l),
            (TyRef::List(v), TyRef::List(l)) => Self::are_types_compatible(v, l),
            (_, TyRef::List(_)) | (TyRef::List(_), _) => false,
            (TyRef::Named(a), TyRef::Named(b)) => a == b,
        }
    }

    /// `IsVariableUsageAllowed(variableDefinition, variableUsage)` of §5.8.5.
    pub fn is_variable_usage_allowed(var: &VarDef, loc_ty: &TyRef, loc_has_default: bool) -> bool {
        if loc_ty.is_non_null() && !var.ty.is_non_null() {
            let has_non_null_default = matches!(&var.default, Some(d) if *d != Val::Null);
            if !has_non_null_default && !loc_has_default {
                return false;
            }
            return Self::are_types_compatible(&var.ty, &loc_ty.nullable());
        }
        Self::are_types_compatible(&var.ty, loc_ty)
    }

    /// §5.8.5 All Variable Usages Are Allowed: every use at any depth, with the type of that
    /// nested position.
    pub fn variables_in_allowed_position(&self, doc: &Doc, rep: &mut Report) {
        for o in doc.ops() {
            let uses = self.op_uses(doc, o, rep);
            for u in uses {
                let Some(var) = o.vars.iter().find(|v| v.name == u.name) else { continue };
                let Some(loc) = &u.loc_ty else { continue };
                if self.schema.ty(var.ty.inner_name()).is_none() {
                    continue;
                }
                if !Self::is_variable_usage_allowed(var, loc, u.loc_has_default) {
                    let mut class = Self::use_class(&u);
                    if loc.is_non_null() && !var.ty.is_non_null() && var.default == Some(Val::Null) {
                        class.push_str(", nullable variable with null default in a non-null position");
                    } else if var.ty.inner_name() == loc.inner_name() {
                        class.push_str(", same named type with disallowed wrapping or nullability");
                    } else {
                        class.push_str(", different named type");
                    }
                    rep.add(VARIABLES_IN_ALLOWED_POSITION, class);
                }
            }
        }
    }

    // -----------------------------------------------------------------------------------------
    // apollo's @defer rules (doc comment of `validate_defer`)
    // -----------------------------------------------------------------------------------------

    fn defer_walk<'a>(
        &self,
        doc: &'a Doc,
        sels: &'a [Sel],
        at_root: bool,
        under_conditional: bool,
        visited: &mut Vec<String>,
        f: &mut dyn FnMut(&'a DirApp, bool, bool),
    ) {
        for s in sels {
            let cond = under_conditional || has_skip_include(sel_dirs(s));
            for d in sel_dirs(s).iter().filter(|d| d.name == "defer") {
                f(d, at_root, cond);
            }
            match s {
                Sel::Field { sels: sub, .. } => self.defer_walk(doc, sub, false, cond, visited, f),
                Sel::Inline { sels: sub, .. } => self.defer_walk(doc, sub, at_root, cond, visited, f),
                Sel::Spread { name, .. } => {
                    if !visited.contains(name) {
                        visited.push(name.clone());
                        if let Some(fr) = self.first_frag(doc, name) {
                            self.defer_walk(doc, &fr.sels, at_root, cond, visited, f);
                        }
                    }
                }
            }
        }
    }

    pub fn defer_rules(&self, doc: &Doc, rep: &mut Report) {
        if !self.params.apollo_defer_rules || self.schema.directive("defer").is_none() {
            return;
        }
        // (1) labels unique across the document, never a variable
        let mut labels: Vec<&str> = Vec::new();
        for site in self.dir_sites(doc) {
            for d in site.dirs.iter().filter(|d| d.name == "defer") {
                match d.args.iter().find(|(n, _)| n == "label").map(|(_, v)| v) {
                    Some(Val::Var(_)) => rep.add(DEFER_RULES, "@defer label is a variable"),
                    Some(Val::Str(l)) => {
                        if labels.contains(&l.as_str()) {
                            rep.add(DEFER_RULES, "@defer label used twice");
                        }
                        labels.push(l);
                    }
                    _ => {}
                }
            }
        }
        for o in doc.ops().filter(|o| o.kind != "query") {
            let sub = o.kind == "subscription";
            let mut found: Vec<(bool, bool, bool)> = Vec::new();
            self.defer_walk(doc, &o.sels, true, false, &mut Vec::new(), &mut |d, at_root, cond| {
                let disabled = matches!(
                    d.args.iter().find(|(n, _)| n == "if").map(|(_, v)| v),
                    Some(Val::Bool(false)) | Some(Val::Var(_))
                );
                found.push((at_root, cond, disabled));
            });
            for (at_root, cond, disabled) in found {
                // (2) not on root selections of mutation / subscription
                if at_root {
                    rep.add(DEFER_RULES, "@defer on a root selection of a mutation or subscription");
                }
                // (3) in a subscription every @defer must be disabled
                if sub && !disabled {
                    if cond {
                        rep.band("@defer under @skip/@include in a subscription");
                    } else {
                        rep.add(DEFER_RULES, "unconditional @defer in a subscription");
                    }
                }
            }
        }
    }
}

// ---------------------------------------------------------------------------------------------
// §5.3.2 Field Selection Merging — naive and pairwise, as the specification writes it.
// ---------------------------------------------------------------------------------------------

/// A field selection with the type of the selection set it was collected from.
#[derive(Clone)]
struct FRef<'a> {
    parent: Option<String>,
    sel: &'a Sel,
    def: Option<FieldDef>,
}

impl<'a> FRef<'a> {
    fn id(&self) -> usize {
        self.sel as *const Sel as usize
    }
    fn name(&self) -> &'a str {
        match self.sel {
            Sel::Field { name, .. } => name,
            _ => "",
        }
    }
    fn args(&self) -> &'a [(String, Val)] {
        match self.sel {
            Sel::Field { args, .. } => args,
            _ => &[],
        }
    }
    fn sels(&self) -> &'a [Sel] {
        match self.sel {
            Sel::Field { sels, .. } => sels,
            _ => &[],
        }
    }
}

struct Merge<'a> {
    doc: &'a Doc,
    steps: u64,
    /// pairs of field nodes already checked by FieldsInSetCanMerge / SameResponseShape
    done_merge: HashSet<(usize, usize)>,
    done_shape: HashMap<(usize, usize), bool>,
}

fn val_eq_sorted(a: &Val, b: &Val) -> bool {
    match (a, b) {
        (Val::List(x), Val::List(y)) => x.len() == y.len() && x.iter().zip(y).all(|(p, q)| val_eq_sorted(p, q)),
        (Val::Obj(x), Val::Obj(y)) => {
            let mut xs: Vec<&(String, Val)> = x.iter().collect();
            let mut ys: Vec<&(String, Val)> = y.iter().collect();
            xs.sort_by(|p, q| p.0.cmp(&q.0));
            ys.sort_by(|p, q| p.0.cmp(&q.0));
            xs.len() == ys.len() && xs.iter().zip(ys).all(|(p, q)| p.0 == q.0 && val_eq_sorted(&p.1, &q.1))
        }
        _ => a == b,
    }
}

/// Class of the difference between two argument values (no names, no numbers).
fn val_diff_class(a: &Val, b: &Val) -> String {
    match (a, b) {
        (Val::List(x), Val::List(y)) => {
            if x.len() != y.len() {
                // one class whatever the items are: comparing lists item by item without
                // comparing their lengths is one root cause
                "list literals of different length".into()
            } else {
                // the innermost difference names the class (one root cause, one class)
                match x.iter().zip(y).find(|(p, q)| p != q) {
                    Some((p, q)) => val_diff_class(p, q),
                    None => "equal".into(),
                }
            }
        }
        (Val::Obj(x), Val::Obj(y)) => {
            for (k, v) in x {
                match y.iter().find(|(k2, _)| k2 == k) {
                    None => return "object literals with different fields".into(),
                    Some((_, w)) if w != v => return val_diff_class(v, w),
                    _ => {}
                }
            }
            "object literals with different fields".into()
        }
        _ if val_kind(a) != val_kind(b) => "values of different kinds".into(),
        _ => format!("different {} values", val_kind(a)),
    }
}

impl RefExecRules {
    /// The fields of a selection set "including visiting fragments and inline fragments".
    fn collect_fields<'a>(
        &self,
        doc: &'a Doc,
        parent: Option<String>,
        sels: &'a [Sel],
        visited: &mut Vec<String>,
        out: &mut Vec<FRef<'a>>,
    ) {
        for s in sels {
            match s {
                Sel::Field { name, .. } => {
                    let def = parent.as_deref().and_then(|p| self.field_def(p, name));
                    out.push(FRef { parent: parent.clone(), sel: s, def });
                }
                Sel::Inline { on, sels: sub, .. } => {
                    let child = match on {
                        Some(t) => self.composite(t),
                        None => parent.clone(),
                    };
                    self.collect_fields(doc, child, sub, visited, out);
                }
                Sel::Spread { name, .. } => {
                    if !visited.contains(name) {
                        visited.push(name.clone());
                        if let Some(f) = self.first_frag(doc, name) {
                            self.collect_fields(doc, self.composite(&f.on), &f.sels, visited, out);
                        }
                    }
                }
            }
        }
    }

    fn sub_fields<'a>(&self, doc: &'a Doc, f: &FRef<'a>, out: &mut Vec<FRef<'a>>) {
        let child = f.def.as_ref().and_then(|d| self.composite(d.ty.inner_name()));
        self.collect_fields(doc, child, f.sels(), &mut Vec::new(), out);
    }

    /// `SameResponseShape(fieldA, fieldB)`.
    fn same_response_shape<'a>(&self, m: &mut Merge<'a>, a: &FRef<'a>, b: &FRef<'a>, rep: &mut Report) -> bool {
        let key = (a.id().min(b.id()), a.id().max(b.id()));
        if let Some(r) = m.done_shape.get(&key) {
            return *r;
        }
        m.steps += 1;
        if m.steps > self.params.merge_budget {
            rep.budget_exhausted = true;
            return true;
        }
        // provisional answer for recursive re-entry through fragment cycles
        m.done_shape.insert(key, true);
        let r = self.same_response_shape_inner(m, a, b, rep);
        m.done_shape.insert(key, r);
        r
    }

    fn same_response_shape_inner<'a>(&self, m: &mut Merge<'a>, a: &FRef<'a>, b: &FRef<'a>, rep: &mut Report) -> bool {
        let (Some(da), Some(db)) = (&a.def, &b.def) else { return true };
        let mut ta = da.ty.clone();
        let mut tb = db.ty.clone();
        loop {
            // 2. non-null on one side only
            if ta.is_non_null() != tb.is_non_null() {
                return false;
            }
            ta = ta.nullable();
            tb = tb.nullable();
            // 3. list on one side only
            match (&ta, &tb) {
                (TyRef::List(x), TyRef::List(y)) => {
                    let (x, y) = ((**x).clone(), (**y).clone());
                    ta = x;
                    tb = y;
                }
                (TyRef::List(_), _) | (_, TyRef::List(_)) => return false,
                _ => break,
            }
        }
        let (na, nb) = (ta.inner_name().to_string(), tb.inner_name().to_string());
        // 4. scalar or enum on either side: must be the same type
        if self.schema.is_leaf(&na) || self.schema.is_leaf(&nb) {
            return na == nb;
        }
        // 5. otherwise both must be composite
        if !self.schema.is_composite(&na) || !self.schema.is_composite(&nb) {
            return self.schema.ty(&na).is_none() || self.schema.ty(&nb).is_none();
        }
        // 6. merged set of both sub-selections, pairwise by response name
        let mut merged = Vec::new();
        self.sub_fields(m.doc, a, &mut merged);
        self.sub_fields(m.doc, b, &mut merged);
        for i in 0..merged.len() {
            for j in (i + 1)..merged.len() {
                if response_key(merged[i].sel) == response_key(merged[j].sel)
                    && merged[i].id() != merged[j].id()
                    && !self.same_response_shape(m, &merged[i], &merged[j], rep)
                {
                    return false;
                }
            }
        }
        true
    }

    /// `FieldsInSetCanMerge(set)`.
    fn fields_in_set_can_merge<'a>(&self, m: &mut Merge<'a>, set: &[FRef<'a>], rep: &mut Report) {
        for i in 0..set.len() {
            for j in (i + 1)..set.len() {
                let (a, b) = (&set[i], &set[j]);
                if response_key(a.sel) != response_key(b.sel) || a.id() == b.id() {
                    continue;
                }
                let key = (a.id().min(b.id()), a.id().max(b.id()));
                if !m.done_merge.insert(key) {
                    continue;
                }
                m.steps += 1;
                if m.steps > self.params.merge_budget {
                    rep.budget_exhausted = true;
                    return;
                }
                if !self.same_response_shape(m, a, b, rep) {
                    rep.add(OVERLAPPING_FIELDS, "fields of one response name with different response shapes");
                }
                let is_object = |p: &Option<String>| {
                    p.as_deref().map(|n| self.schema.kind(n) == Some(Kind::Object)).unwrap_or(false)
                };
                let same_parent = a.parent == b.parent;
                if same_parent || !is_object(&a.parent) || !is_object(&b.parent) {
                    if a.name() != b.name() {
                        rep.add(OVERLAPPING_FIELDS, "different fields under one response name");
                    }
                    self.same_arguments(a.args(), b.args(), rep);
                    let mut merged = Vec::new();
                    self.sub_fields(m.doc, a, &mut merged);
                    self.sub_fields(m.doc, b, &mut merged);
                    self.fields_in_set_can_merge(m, &merged, rep);
                }
            }
        }
    }

    fn same_arguments(&self, a: &[(String, Val)], b: &[(String, Val)], rep: &mut Report) {
        let mut class: Option<String> = None;
        for (n, v) in a {
            match b.iter().find(|(m, _)| m == n) {
                None => class = class.or(Some("argument given on one side only".into())),
                Some((_, w)) => {
                    if v != w {
                        if val_eq_sorted(v, w) {
                            rep.band("merged field arguments differ only in the order of input object fields");
                        } else {
                            class = class.or(Some(val_diff_class(v, w)));
                        }
                    }
                }
            }
        }
        if b.iter().any(|(n, _)| !a.iter().any(|(m, _)| m == n)) {
            class = class.or(Some("argument given on one side only".into()));
        }
        if let Some(c) = class {
            rep.add(OVERLAPPING_FIELDS, format!("different arguments under one response name: {c}"));
        }
    }

    /// §5.3.2: `FieldsInSetCanMerge(set)` for *any* selection set defined in the document.
    pub fn overlapping_fields_can_be_merged(&self, doc: &Doc, rep: &mut Report) {
        let mut m = Merge { doc, steps: 0, done_merge: HashSet::new(), done_shape: HashMap::new() };
        fn nested<'a>(
            me: &RefExecRules,
            m: &mut Merge<'a>,
            parent: Option<String>,
            sels: &'a [Sel],
            rep: &mut Report,
        ) {
            let mut set = Vec::new();
            me.collect_fields(m.doc, parent.clone(), sels, &mut Vec::new(), &mut set);
            me.fields_in_set_can_merge(m, &set, rep);
            for s in sels {
                match s {
                    Sel::Field { name, sels: sub, .. } if !sub.is_empty() => {
                        let def = parent.as_deref().and_then(|p| me.field_def(p, name));
                        let child = def.as_ref().and_then(|d| me.composite(d.ty.inner_name()));
                        nested(me, m, child, sub, rep);
                    }
                    Sel::Inline { on, sels: sub, .. } => {
                        let child = match on {
                            Some(t) => me.composite(t),
                            None => parent.clone(),
                        };
                        nested(me, m, child, sub, rep);
                    }
                    _ => {}
                }
            }
        }
        for d in &doc.defs {
            match d {
                Def::Op(o) => nested(self, &mut m, self.root_parent(&o.kind), &o.sels, rep),
                Def::Frag(f) => nested(self, &mut m, self.composite(&f.on), &f.sels, rep),
                _ => {}
            }
            if rep.budget_exhausted {
                return;
            }
        }
    }

    /// Run every rule. The document is valid for the reference iff the report is empty.
    pub fn check(&self, doc: &Doc) -> Report {
        let mut rep = Report::default();
        let r = &mut rep;
        self.executable_definitions(doc, r);
        self.operation_name_uniqueness(doc, r);
        self.lone_anonymous_operation(doc, r);
        self.undefined_root_operation_type(doc, r);
        self.single_root_field(doc, r);
        self.subscription_root_skip_include(doc, r);
        self.fields_on_correct_type(doc, r);
        self.overlapping_fields_can_be_merged(doc, r);
        self.scalar_leafs(doc, r);
        self.known_argument_names(doc, r);
        self.unique_argument_names(doc, r);
        self.provided_required_arguments(doc, r);
        self.fragment_name_uniqueness(doc, r);
        self.fragment_type_existence(doc, r);
        self.fragments_on_composite_types(doc, r);
        self.no_unused_fragments(doc, r);
        self.known_fragment_names(doc, r);
        self.no_fragment_cycles(doc, r);
        self.possible_fragment_spreads(doc, r);
        self.values_of_correct_type(doc, r);
        self.unique_input_field_names(doc, r);
        self.known_directives(doc, r);
        self.unique_directives_per_location(doc, r);
        self.unique_variable_names(doc, r);
        self.variables_are_input_types(doc, r);
        self.no_undefined_variables(doc, r);
        self.no_unused_variables(doc, r);
        self.variables_in_allowed_position(doc, r);
        self.defer_rules(doc, r);
        rep
    }
}
