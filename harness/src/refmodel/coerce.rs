//! RefCoerce — `CoerceVariableValues` (October 2021 §6.1.2) with the input-coercion rules of §3.5
//! (scalars), §3.9 (enums), §3.10 (input objects), §3.11 (lists), §3.12 (non-null), under
//! apollo-compiler's documented scalar rules (DESIGN Appendix B). Own JSON and literal types;
//! shares no code with apollo-rs.
//!
//! Don't-care bands (the reference flags them, the monitor does not judge such cases):
//! * Float from an integer with |x| in [2^53-1, 2^53], or beyond but exactly representable;
//! * Int from a float with integral value (`1.0`): JSON does not distinguish, the spec says
//!   "integer input values";
//! * ID from an integer outside i64;
//! * a non-list *item* of a list whose item type is itself a list (October 2021 prose says wrap,
//!   its example table says error; later drafts changed the table).

use super::typerel::Ty;
use std::collections::{BTreeMap, BTreeSet};

/// A JSON value.
#[derive(Clone, Debug, PartialEq)]
pub enum J {
    Null,
    Bool(bool),
    Int(i128),
    Float(f64),
    Str(String),
    List(Vec<J>),
    Obj(Vec<(String, J)>),
}

impl J {
    pub fn get(&self, key: &str) -> Option<&J> {
        match self {
            J::Obj(m) => m.iter().find(|(k, _)| k == key).map(|(_, v)| v),
            _ => None,
        }
    }
    pub fn kind(&self) -> &'static str {
        match self {
            J::Null => "null",
            J::Bool(_) => "boolean",
            J::Int(_) => "integer",
            J::Float(_) => "float",
            J::Str(_) => "string",
            J::List(_) => "list",
            J::Obj(_) => "object",
        }
    }
    pub fn to_serde(&self) -> serde_json::Value {
        use serde_json::Value as V;
        match self {
            J::Null => V::Null,
            J::Bool(b) => V::Bool(*b),
            J::Int(i) => {
                if let Ok(x) = i64::try_from(*i) {
                    V::from(x)
                } else if let Ok(x) = u64::try_from(*i) {
                    V::from(x)
                } else {
                    V::String(format!("<int {i}>"))
                }
            }
            J::Float(f) => serde_json::Number::from_f64(*f).map(V::Number).unwrap_or(V::Null),
            J::Str(s) => V::String(s.clone()),
            J::List(l) => V::Array(l.iter().map(|x| x.to_serde()).collect()),
            J::Obj(m) => V::Object(m.iter().map(|(k, v)| (k.clone(), v.to_serde())).collect()),
        }
    }
    pub fn from_serde(v: &serde_json::Value) -> J {
        use serde_json::Value as V;
        match v {
            V::Null => J::Null,
            V::Bool(b) => J::Bool(*b),
            V::Number(n) => {
                if let Some(i) = n.as_i64() {
                    J::Int(i as i128)
                } else if let Some(u) = n.as_u64() {
                    J::Int(u as i128)
                } else {
                    J::Float(n.as_f64().unwrap_or(0.0))
                }
            }
            V::String(s) => J::Str(s.clone()),
            V::Array(a) => J::List(a.iter().map(J::from_serde).collect()),
            V::Object(m) => J::Obj(m.iter().map(|(k, v)| (k.clone(), J::from_serde(v))).collect()),
        }
    }
}

fn num_eq(a: &J, b: &J) -> bool {
    match (a, b) {
        (J::Int(x), J::Int(y)) => x == y,
        (J::Float(x), J::Float(y)) => x == y,
        (J::Int(i), J::Float(f)) | (J::Float(f), J::Int(i)) => {
            f.fract() == 0.0 && f.abs() < 9.0e15 && (*f as i128) == *i
        }
        _ => false,
    }
}

/// JSON equality: numbers by mathematical value, objects unordered. Returns the path class (names
/// masked) and kind of the first difference.
pub fn json_diff(expected: &J, got: &J, path: &str) -> Option<(String, String)> {
    match (expected, got) {
        (J::Null, J::Null) => None,
        (J::Bool(a), J::Bool(b)) if a == b => None,
        (J::Str(a), J::Str(b)) if a == b => None,
        (J::Int(_) | J::Float(_), J::Int(_) | J::Float(_)) => {
            if num_eq(expected, got) {
                None
            } else {
                Some((path.to_string(), "different number".into()))
            }
        }
        (J::List(a), J::List(b)) => {
            if a.len() != b.len() {
                return Some((path.to_string(), "different list length".into()));
            }
            for (x, y) in a.iter().zip(b) {
                if let Some(d) = json_diff(x, y, &format!("{path}/item")) {
                    return Some(d);
                }
            }
            None
        }
        (J::Obj(a), J::Obj(b)) => {
            for (k, x) in a {
                match got.get(k) {
                    None => return Some((format!("{path}/field"), "key missing in apollo's result".into())),
                    Some(y) => {
                        if let Some(d) = json_diff(x, y, &format!("{path}/field")) {
                            return Some(d);
                        }
                    }
                }
            }
            for (k, _) in b {
                if expected.get(k).is_none() {
                    return Some((format!("{path}/field"), "extra key in apollo's result".into()));
                }
            }
            None
        }
        _ => Some((path.to_string(), format!("expected {} got {}", expected.kind(), got.kind()))),
    }
}

/// A constant GraphQL value literal (default values).
#[derive(Clone, Debug, PartialEq)]
pub enum Lit {
    Null,
    Int(i64),
    /// source text of a FloatValue
    Float(String),
    Str(String),
    Bool(bool),
    Enum(String),
    List(Vec<Lit>),
    Obj(Vec<(String, Lit)>),
}

impl Lit {
    pub fn to_graphql(&self) -> String {
        match self {
            Lit::Null => "null".into(),
            Lit::Int(i) => i.to_string(),
            Lit::Float(t) => t.clone(),
            Lit::Str(s) => format!("{:?}", s), // generator uses plain ASCII without escapes
            Lit::Bool(b) => b.to_string(),
            Lit::Enum(e) => e.clone(),
            Lit::List(l) => format!("[{}]", l.iter().map(|x| x.to_graphql()).collect::<Vec<_>>().join(", ")),
            Lit::Obj(m) => format!(
                "{{{}}}",
                m.iter().map(|(k, v)| format!("{k}: {}", v.to_graphql())).collect::<Vec<_>>().join(", ")
            ),
        }
    }
    /// The value a literal denotes, in JSON terms (enum values are their names).
    pub fn to_j(&self) -> J {
        match self {
            Lit::Null => J::Null,
            Lit::Int(i) => J::Int(*i as i128),
            Lit::Float(t) => J::Float(t.parse::<f64>().expect("float literal")),
            Lit::Str(s) => J::Str(s.clone()),
            Lit::Bool(b) => J::Bool(*b),
            Lit::Enum(e) => J::Str(e.clone()),
            Lit::List(l) => J::List(l.iter().map(|x| x.to_j()).collect()),
            Lit::Obj(m) => J::Obj(m.iter().map(|(k, v)| (k.clone(), v.to_j())).collect()),
        }
    }
    pub fn to_tagged(&self) -> serde_json::Value {
        use serde_json::json;
        match self {
            Lit::Null => json!(null),
            Lit::Int(i) => json!({"int": i}),
            Lit::Float(t) => json!({"float": t}),
            Lit::Str(s) => json!({"str": s}),
            Lit::Bool(b) => json!({"bool": b}),
            Lit::Enum(e) => json!({"enum": e}),
            Lit::List(l) => json!({"list": l.iter().map(|x| x.to_tagged()).collect::<Vec<_>>()}),
            Lit::Obj(m) => json!({"obj": m.iter().map(|(k, v)| json!([k, v.to_tagged()])).collect::<Vec<_>>()}),
        }
    }
    pub fn from_tagged(v: &serde_json::Value) -> Option<Lit> {
        if v.is_null() {
            return Some(Lit::Null);
        }
        let o = v.as_object()?;
        let (k, x) = o.iter().next()?;
        Some(match k.as_str() {
            "int" => Lit::Int(x.as_i64()?),
            "float" => Lit::Float(x.as_str()?.to_string()),
            "str" => Lit::Str(x.as_str()?.to_string()),
            "bool" => Lit::Bool(x.as_bool()?),
            "enum" => Lit::Enum(x.as_str()?.to_string()),
            "list" => Lit::List(x.as_array()?.iter().map(Lit::from_tagged).collect::<Option<Vec<_>>>()?),
            "obj" => Lit::Obj(
                x.as_array()?
                    .iter()
                    .map(|kv| Some((kv.get(0)?.as_str()?.to_string(), Lit::from_tagged(kv.get(1)?)?)))
                    .collect::<Option<Vec<_>>>()?,
            ),
            _ => return None,
        })
    }
}

#[derive(Clone, Debug, PartialEq)]
pub struct InField {
    pub name: String,
    pub ty: Ty,
    pub default: Option<Lit>,
}

#[derive(Clone, Debug, PartialEq)]
pub enum Def {
    /// Int, Float, String, Boolean, ID by name
    Builtin,
    CustomScalar,
    Enum(Vec<String>),
    Input(Vec<InField>),
}

#[derive(Clone, Debug, Default, PartialEq)]
pub struct World {
    pub types: BTreeMap<String, Def>,
}

#[derive(Clone, Debug, PartialEq)]
pub struct VarDef {
    pub name: String,
    pub ty: Ty,
    pub default: Option<Lit>,
}

#[derive(Clone, Debug, PartialEq)]
pub struct Reject {
    /// which rule refuses (stable id)
    pub rule: &'static str,
    /// path class with names masked, e.g. `var/field/item`
    pub at: String,
}

#[derive(Clone, Debug, Default)]
pub struct Trace {
    /// reference branches taken (coverage and signatures)
    pub features: BTreeSet<&'static str>,
    /// set when the evaluation touched a don't-care band
    pub dont_care: Option<&'static str>,
}

const TWO53: i128 = 1 << 53;

pub struct RefCoerce<'a> {
    pub world: &'a World,
    pub trace: Trace,
}

impl<'a> RefCoerce<'a> {
    pub fn new(world: &'a World) -> Self {
        RefCoerce { world, trace: Trace::default() }
    }

    /// CoerceVariableValues(schema, operation, variableValues)
    pub fn coerce_variables(&mut self, vars: &[VarDef], provided: &J) -> Result<Vec<(String, J)>, Reject> {
        let mut coerced = Vec::new();
        for v in vars {
            // hasValue: variableValues provides a value for the name variableName
            match provided.get(&v.name) {
                None => {
                    if let Some(d) = &v.default {
                        // "If hasValue is not true and defaultValue exists (including null)"
                        self.trace.features.insert("variable-default-used");
                        coerced.push((v.name.clone(), d.to_j()));
                    } else if v.ty.is_non_null() {
                        return Err(Reject { rule: "required-variable-missing", at: "var".into() });
                    } else {
                        // no entry at all
                        self.trace.features.insert("nullable-variable-absent");
                    }
                }
                Some(value) => {
                    if matches!(value, J::Null) && v.default.is_some() {
                        self.trace.features.insert("explicit-null-overrides-default");
                    }
                    let c = self.coerce(&v.ty, value, "var", false)?;
                    coerced.push((v.name.clone(), c));
                }
            }
        }
        Ok(coerced)
    }

    fn coerce(&mut self, ty: &Ty, value: &J, at: &str, is_list_item: bool) -> Result<J, Reject> {
        match ty {
            Ty::NonNull(inner) => {
                if matches!(value, J::Null) {
                    return Err(Reject {
                        rule: if is_list_item { "null-item-for-non-null-item-type" } else { "null-for-non-null" },
                        at: at.into(),
                    });
                }
                self.coerce(inner, value, at, is_list_item)
            }
            _ if matches!(value, J::Null) => {
                if is_list_item {
                    self.trace.features.insert("null-list-item");
                }
                Ok(J::Null)
            }
            Ty::List(item) => match value {
                J::List(items) => {
                    let mut out = Vec::new();
                    for x in items {
                        out.push(self.coerce(item, x, &format!("{at}/item"), true)?);
                    }
                    Ok(J::List(out))
                }
                single => {
                    if is_list_item {
                        // item of an enclosing list, itself expected to be a list, but not a list
                        self.trace.dont_care = Some("non-list item where the item type is a list");
                    }
                    self.trace.features.insert(if item.nullable().is_list() {
                        "single-value-wrapped-nested"
                    } else {
                        "single-value-wrapped"
                    });
                    let inner = self.coerce(item, single, at, false)?;
                    Ok(J::List(vec![inner]))
                }
            },
            Ty::Named(name) => self.coerce_named(name, value, at),
        }
    }

    fn coerce_named(&mut self, name: &str, value: &J, at: &str) -> Result<J, Reject> {
        let rej = |rule: &'static str| Err(Reject { rule, at: at.to_string() });
        match (name, self.world.types.get(name)) {
            ("Int", _) => match value {
                J::Int(i) if i32::try_from(*i).is_ok() => Ok(value.clone()),
                J::Int(_) => rej("int-out-of-32-bit-range"),
                J::Float(f) if f.fract() == 0.0 => {
                    self.trace.dont_care = Some("integral float for Int");
                    rej("float-for-int")
                }
                J::Float(_) => rej("float-for-int"),
                J::Str(_) => rej("string-for-int"),
                _ => rej("wrong-kind-for-int"),
            },
            ("Float", _) => match value {
                J::Float(_) => Ok(value.clone()),
                J::Int(i) => {
                    let a = i.abs();
                    if a < TWO53 - 1 {
                        self.trace.features.insert("float-from-integer");
                        Ok(value.clone())
                    } else if a <= TWO53 || ((*i as f64) as i128) == *i {
                        self.trace.dont_care = Some("integer at or beyond 2^53-1 for Float, exactly representable");
                        Ok(value.clone())
                    } else {
                        rej("integer-not-representable-as-float")
                    }
                }
                J::Str(_) => rej("string-for-float"),
                _ => rej("wrong-kind-for-float"),
            },
            ("String", _) => match value {
                J::Str(_) => Ok(value.clone()),
                J::Int(_) | J::Float(_) => rej("number-for-string"),
                _ => rej("wrong-kind-for-string"),
            },
            ("Boolean", _) => match value {
                J::Bool(_) => Ok(value.clone()),
                _ => rej("wrong-kind-for-boolean"),
            },
            ("ID", _) => match value {
                J::Str(_) => Ok(value.clone()),
                J::Int(i) => {
                    if i64::try_from(*i).is_err() {
                        self.trace.dont_care = Some("integer outside i64 for ID");
                    }
                    self.trace.features.insert("id-from-integer");
                    Ok(value.clone())
                }
                J::Float(_) => rej("float-for-id"),
                _ => rej("wrong-kind-for-id"),
            },
            (_, Some(Def::CustomScalar)) => {
                self.trace.features.insert("custom-scalar-passthrough");
                Ok(value.clone())
            }
            (_, Some(Def::Enum(values))) => match value {
                J::Str(s) if values.iter().any(|v| v == s) => {
                    self.trace.features.insert("enum-by-name");
                    Ok(value.clone())
                }
                J::Str(_) => rej("unknown-enum-value"),
                _ => rej("wrong-kind-for-enum"),
            },
            (_, Some(Def::Input(fields))) => {
                let J::Obj(entries) = value else {
                    return rej("non-object-for-input-object");
                };
                self.trace.features.insert("input-object");
                // "any entry not defined by the input object type is an error"
                for (k, _) in entries {
                    if !fields.iter().any(|f| &f.name == k) {
                        return rej("unknown-input-field");
                    }
                }
                let mut out = Vec::new();
                let nested = at.contains("field");
                for f in fields {
                    match value.get(&f.name) {
                        Some(v) => {
                            let c = self.coerce(&f.ty, v, &format!("{at}/field"), false)?;
                            out.push((f.name.clone(), c));
                        }
                        None => {
                            if let Some(d) = &f.default {
                                self.trace.features.insert(if nested || at.contains("item") {
                                    "input-field-default-filled-nested"
                                } else {
                                    "input-field-default-filled"
                                });
                                out.push((f.name.clone(), d.to_j()));
                            } else if f.ty.is_non_null() {
                                return Err(Reject { rule: "required-input-field-missing", at: format!("{at}/field") });
                            } else {
                                self.trace.features.insert("optional-input-field-absent");
                            }
                        }
                    }
                }
                Ok(J::Obj(out))
            }
            _ => rej("undefined-type"),
        }
    }
}

#[cfg(test)]
mod tests {
    use super::*;
    fn world() -> World {
        let mut w = World::default();
        for n in ["Int", "Float", "String", "Boolean", "ID"] {
            w.types.insert(n.into(), Def::Builtin);
        }
        w
    }
    fn one(ty: Ty, v: J) -> (Result<J, Reject>, Trace) {
        let w = world();
        let mut r = RefCoerce::new(&w);
        let vars = [VarDef { name: "v".into(), ty, default: None }];
        let res = r.coerce_variables(&vars, &J::Obj(vec![("v".into(), v)])).map(|m| m[0].1.clone());
        (res, r.trace)
    }
    #[test]
    fn list_table_of_the_spec() {
        let int = Ty::named("Int");
        let li = int.clone().list();
        let lli = li.clone().list();
        assert_eq!(one(li.clone(), J::Int(1)).0, Ok(J::List(vec![J::Int(1)])));
        assert_eq!(one(li.clone(), J::Null).0, Ok(J::Null));
        assert!(one(li.clone(), J::List(vec![J::Int(1), J::Str("b".into()), J::Bool(true)])).0.is_err());
        assert_eq!(one(lli.clone(), J::Int(1)).0, Ok(J::List(vec![J::List(vec![J::Int(1)])])));
        assert!(one(lli.clone(), J::Int(1)).1.dont_care.is_none());
        // table says error, prose says wrap: flagged
        assert!(one(lli, J::List(vec![J::Int(1)])).1.dont_care.is_some());
        assert!(one(int.clone(), J::Int(1 << 31)).0.is_err());
        assert!(one(Ty::named("Float"), J::Int((1 << 53) + 1)).0.is_err());
        assert!(one(int.non_null().list(), J::List(vec![J::Null])).0.is_err());
    }
}
