//! `RefString` — static semantics of StringValue (GraphQL October 2021, section 2.9.4), written
//! from the specification text; shares no code with apollo-rs.
//!
//! * `StringValue :: "" ` → empty sequence.
//! * `StringValue :: " StringCharacter+ "` → concatenation of the values of the StringCharacters:
//!   a SourceCharacter stands for itself, `\uXXXX` for the code unit XXXX, and the escaped
//!   characters follow the table `\" \\ \/ \b \f \n \r \t` → U+0022 U+005C U+002F U+0008 U+000C
//!   U+000A U+000D U+0009.
//! * `StringValue :: """ BlockStringCharacter* """` → `BlockStringValue(rawValue)` where rawValue is
//!   the concatenation of the BlockStringCharacters (`\"""` standing for `"""`).
//!
//! The input is the complete literal, quotes included. `None` is returned for text that is not a
//! well-formed literal (the monitors only ask for literals `RefLexer` accepts).

/// Value of a complete string literal (`"…"` or `"""…"""`).
pub fn value_of_literal(lit: &str) -> Option<String> {
    if lit.len() >= 6 && lit.starts_with("\"\"\"") && lit.ends_with("\"\"\"") {
        Some(block_string_value(&block_raw_value(&lit[3..lit.len() - 3])))
    } else if lit.len() >= 2 && lit.starts_with('"') && lit.ends_with('"') && !lit.starts_with("\"\"\"") {
        quoted_value(&lit[1..lit.len() - 1])
    } else {
        None
    }
}

pub fn is_block_literal(lit: &str) -> bool {
    lit.starts_with("\"\"\"")
}

/// Value of the body (between the quotes) of a quoted string.
pub fn quoted_value(body: &str) -> Option<String> {
    let cs: Vec<char> = body.chars().collect();
    let mut out = String::new();
    let mut i = 0;
    while i < cs.len() {
        let c = cs[i];
        if c == '\\' {
            let e = *cs.get(i + 1)?;
            match e {
                '"' => out.push('\u{0022}'),
                '\\' => out.push('\u{005C}'),
                '/' => out.push('\u{002F}'),
                'b' => out.push('\u{0008}'),
                'f' => out.push('\u{000C}'),
                'n' => out.push('\u{000A}'),
                'r' => out.push('\u{000D}'),
                't' => out.push('\u{0009}'),
                'u' => {
                    let mut v: u32 = 0;
                    for k in 0..4 {
                        let h = *cs.get(i + 2 + k)?;
                        let d = match h {
                            '0'..='9' => h as u32 - '0' as u32,
                            'a'..='f' => h as u32 - 'a' as u32 + 10,
                            'A'..='F' => h as u32 - 'A' as u32 + 10,
                            _ => return None,
                        };
                        v = v * 16 + d;
                    }
                    // surrogates are rejected lexically (documented apollo limitation)
                    out.push(char::from_u32(v)?);
                    i += 4;
                }
                _ => return None,
            }
            i += 2;
        } else if c == '"' || c == '\n' || c == '\r' {
            return None;
        } else {
            out.push(c);
            i += 1;
        }
    }
    Some(out)
}

/// rawValue of a block string body: every `\"""` stands for `"""`, everything else for itself.
pub fn block_raw_value(body: &str) -> Vec<char> {
    let cs: Vec<char> = body.chars().collect();
    let mut raw = Vec::with_capacity(cs.len());
    let mut i = 0;
    while i < cs.len() {
        if cs[i] == '\\' && cs.get(i + 1) == Some(&'"') && cs.get(i + 2) == Some(&'"') && cs.get(i + 3) == Some(&'"') {
            raw.extend_from_slice(&['"', '"', '"']);
            i += 4;
        } else {
            raw.push(cs[i]);
            i += 1;
        }
    }
    raw
}

fn is_white_space(c: char) -> bool {
    c == '\u{0009}' || c == '\u{0020}'
}

fn only_white_space(line: &[char]) -> bool {
    line.iter().all(|c| is_white_space(*c))
}

/// `BlockStringValue(rawValue)`, transcribed step by step.
pub fn block_string_value(raw_value: &[char]) -> String {
    // 1. Let lines be the result of splitting rawValue by LineTerminator.
    //    LineTerminator :: LF | CR [lookahead != LF] | CR LF
    let mut lines: Vec<Vec<char>> = vec![Vec::new()];
    let mut i = 0;
    while i < raw_value.len() {
        let c = raw_value[i];
        if c == '\u{000D}' && raw_value.get(i + 1) == Some(&'\u{000A}') {
            lines.push(Vec::new());
            i += 2;
        } else if c == '\u{000A}' || c == '\u{000D}' {
            lines.push(Vec::new());
            i += 1;
        } else {
            lines.last_mut().unwrap().push(c);
            i += 1;
        }
    }
    // 2. Let commonIndent be null.
    let mut common_indent: Option<usize> = None;
    // 3. For each line in lines:
    for (n, line) in lines.iter().enumerate() {
        // a. If line is the first item in lines, continue to the next line.
        if n == 0 {
            continue;
        }
        // b. Let length be the number of characters in line.
        let length = line.len();
        // c. Let indent be the number of leading consecutive WhiteSpace characters in line.
        let mut indent = 0;
        while indent < line.len() && is_white_space(line[indent]) {
            indent += 1;
        }
        // d. If indent is less than length:
        if indent < length {
            // i. If commonIndent is null or indent is less than commonIndent: let commonIndent be indent.
            if common_indent.map(|ci| indent < ci).unwrap_or(true) {
                common_indent = Some(indent);
            }
        }
    }
    // 4. If commonIndent is not null:
    if let Some(ci) = common_indent {
        // a. For each line in lines:
        for (n, line) in lines.iter_mut().enumerate() {
            // i. If line is the first item in lines, continue to the next line.
            if n == 0 {
                continue;
            }
            // ii. Remove commonIndent characters from the beginning of line.
            let k = ci.min(line.len());
            line.drain(..k);
        }
    }
    // 5. While the first item line in lines contains only WhiteSpace: remove the first item from lines.
    while lines.first().map(|l| only_white_space(l)).unwrap_or(false) {
        lines.remove(0);
    }
    // 6. While the last item line in lines contains only WhiteSpace: remove the last item from lines.
    while lines.last().map(|l| only_white_space(l)).unwrap_or(false) {
        lines.pop();
    }
    // 7. Let formatted be the empty character sequence.
    let mut formatted = String::new();
    // 8. For each line in lines:
    for (n, line) in lines.iter().enumerate() {
        if n == 0 {
            // a. If line is the first item in lines: append formatted with line.
            formatted.extend(line.iter());
        } else {
            // b. Otherwise: append formatted with a line feed character (U+000A), then with line.
            formatted.push('\u{000A}');
            formatted.extend(line.iter());
        }
    }
    // 9. Return formatted.
    formatted
}

#[cfg(test)]
mod tests {
    use super::*;

    #[test]
    fn spec_example() {
        let lit = "\"\"\"\n    Hello,\n      World!\n\n    Yours,\n      GraphQL.\n  \"\"\"";
        assert_eq!(value_of_literal(lit).unwrap(), "Hello,\n  World!\n\nYours,\n  GraphQL.");
    }

    #[test]
    fn quoted() {
        assert_eq!(value_of_literal("\"a\\n\\u0041\\\\\"").unwrap(), "a\nA\\");
        assert_eq!(value_of_literal("\"\"").unwrap(), "");
        assert_eq!(value_of_literal("\"\"\"\"\"\"").unwrap(), "");
        assert_eq!(value_of_literal("\"\"\" a\\\"\"\" \"\"\"").unwrap(), " a\"\"\" ");
    }
}
