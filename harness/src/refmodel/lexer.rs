//! `RefLexer` — an independent maximal-munch lexer for the GraphQL October 2021 lexical grammar
//! (spec section 2.1, "Source Text" .. "String Value"). Written from the grammar productions, one
//! function per production; shares no code with apollo-parser.
//!
//! ```text
//! SourceCharacter :: U+0009 | U+000A | U+000D | U+0020–U+FFFF      (and, as every implementation
//!                                                  does for UTF-8 input, the scalars above U+FFFF)
//! Ignored        :: UnicodeBOM | WhiteSpace | LineTerminator | Comment | Comma
//! UnicodeBOM     :: U+FEFF
//! WhiteSpace     :: U+0009 | U+0020
//! LineTerminator :: U+000A | U+000D [lookahead != U+000A] | U+000D U+000A
//! Comment        :: # CommentChar*          CommentChar :: SourceCharacter but not LineTerminator
//! Comma          :: ,
//! Token          :: Punctuator | Name | IntValue | FloatValue | StringValue
//! Punctuator     :: one of ! $ & ( ) ... : = @ [ ] { | }
//! Name           :: NameStart NameContinue* [lookahead != NameContinue]
//! IntValue       :: IntegerPart [lookahead != {Digit, ., NameStart}]
//! IntegerPart    :: NegativeSign? 0 | NegativeSign? NonZeroDigit Digit*
//! FloatValue     :: IntegerPart FractionalPart ExponentPart [lookahead != {Digit, ., NameStart}]
//!                 | IntegerPart FractionalPart              [lookahead != {Digit, ., NameStart}]
//!                 | IntegerPart ExponentPart                [lookahead != {Digit, ., NameStart}]
//! FractionalPart :: . Digit+            ExponentPart :: ExponentIndicator Sign? Digit+
//! StringValue    :: "" [lookahead != "] | " StringCharacter+ " | """ BlockStringCharacter* """
//! StringCharacter :: SourceCharacter but not " or \ or LineTerminator | \u EscapedUnicode
//!                  | \ EscapedCharacter
//! EscapedUnicode :: /[0-9A-Fa-f]{4}/      EscapedCharacter :: one of " \ / b f n r t
//! BlockStringCharacter :: SourceCharacter but not """ or \""" | \"""
//! ```
//!
//! Deliberate difference encoded (DESIGN Appendix B, granted by the C03 statement): `\u{...}` and
//! `\uXXXX` whose value is a surrogate (D800–DFFF) are lexical errors. `\u{` is not in the October
//! 2021 grammar anyway; a lone surrogate escape is grammatical there, and is rejected only because
//! the property says so.
//!
//! The lexer stops at the first lexical error. The error *start* is the offset at which no token
//! of the grammar can be matched (for a malformed number or string: the first character of that
//! lexeme; for a character that is not a SourceCharacter, or cannot start a token: that character).
//! The error *end* is only a diagnostic extent (how far the malformed lexeme was scanned).

#[derive(Clone, Copy, PartialEq, Eq, Debug, Hash)]
pub enum RefKind {
    // ignored
    Bom,
    WhiteSpace,
    LineTerminator,
    Comment,
    Comma,
    // punctuators
    Bang,
    Dollar,
    Amp,
    LParen,
    RParen,
    Spread,
    Colon,
    Eq,
    At,
    LBracket,
    RBracket,
    LCurly,
    Pipe,
    RCurly,
    // lexical tokens
    Name,
    Int,
    Float,
    /// `"..."`
    Str,
    /// `"""..."""`
    BlockStr,
}

impl RefKind {
    pub fn is_ignored(self) -> bool {
        matches!(
            self,
            RefKind::Bom | RefKind::WhiteSpace | RefKind::LineTerminator | RefKind::Comment | RefKind::Comma
        )
    }
    pub fn is_punctuator(self) -> bool {
        !self.is_ignored()
            && !matches!(
                self,
                RefKind::Name | RefKind::Int | RefKind::Float | RefKind::Str | RefKind::BlockStr
            )
    }
}

#[derive(Clone, Copy, PartialEq, Eq, Debug)]
pub struct RefToken {
    pub kind: RefKind,
    pub start: usize,
    pub end: usize,
}

/// Why the reference cannot match a token. The variant doubles as the "reference rule id" of a
/// differential signature.
#[derive(Clone, Copy, PartialEq, Eq, Debug, Hash)]
pub enum RefErrorKind {
    /// A character outside SourceCharacter where a token should start.
    NotSourceCharacter,
    /// A SourceCharacter that starts no token (`?`, `%`, `é`, a lone `\` …).
    NoTokenStartsHere,
    /// `.` or `..` not followed by the rest of `...`.
    IncompleteSpread,
    /// `-` not followed by a digit.
    SignWithoutDigit,
    /// `0` followed by a digit (IntegerPart has no leading zeros).
    LeadingZero,
    /// `.` not followed by a digit after an IntegerPart.
    FractionWithoutDigit,
    /// `e`/`E` (and an optional sign) not followed by a digit.
    ExponentWithoutDigit,
    /// A complete number followed by Digit, `.` or NameStart.
    NumberLookahead,
    /// A quoted string that reaches the end of input or a LineTerminator before its closing quote.
    UnterminatedString,
    /// A block string that reaches the end of input before its closing `"""`.
    UnterminatedBlockString,
    /// `\` followed by something that is neither an EscapedCharacter nor `u`.
    BadEscape,
    /// `\u` not followed by four hexadecimal digits (includes `\u{…}`).
    BadUnicodeEscape,
    /// `\uXXXX` with XXXX in D800–DFFF (documented apollo limitation, rejected by the property).
    SurrogateEscape,
    /// A character outside SourceCharacter inside a quoted string.
    ControlInString,
    /// A character outside SourceCharacter inside a block string.
    ControlInBlockString,
    /// A character outside SourceCharacter inside a comment.
    ControlInComment,
}

impl RefErrorKind {
    pub fn id(self) -> &'static str {
        match self {
            RefErrorKind::NotSourceCharacter => "SourceCharacter",
            RefErrorKind::NoTokenStartsHere => "Token-start",
            RefErrorKind::IncompleteSpread => "Punctuator-spread",
            RefErrorKind::SignWithoutDigit => "IntegerPart-sign",
            RefErrorKind::LeadingZero => "IntegerPart-leading-zero",
            RefErrorKind::FractionWithoutDigit => "FractionalPart-digit",
            RefErrorKind::ExponentWithoutDigit => "ExponentPart-digit",
            RefErrorKind::NumberLookahead => "Number-lookahead",
            RefErrorKind::UnterminatedString => "StringValue-unterminated",
            RefErrorKind::UnterminatedBlockString => "BlockString-unterminated",
            RefErrorKind::BadEscape => "EscapedCharacter",
            RefErrorKind::BadUnicodeEscape => "EscapedUnicode",
            RefErrorKind::SurrogateEscape => "EscapedUnicode-surrogate",
            RefErrorKind::ControlInString => "SourceCharacter-in-string",
            RefErrorKind::ControlInBlockString => "SourceCharacter-in-block-string",
            RefErrorKind::ControlInComment => "SourceCharacter-in-comment",
        }
    }
    /// The three sites at which a non-SourceCharacter is *inside* a lexeme.
    pub fn is_control_inside_lexeme(self) -> bool {
        matches!(
            self,
            RefErrorKind::ControlInString | RefErrorKind::ControlInBlockString | RefErrorKind::ControlInComment
        )
    }
}

#[derive(Clone, Copy, PartialEq, Eq, Debug)]
pub struct RefError {
    pub kind: RefErrorKind,
    /// Offset at which no token of the grammar can be matched.
    pub start: usize,
    /// Diagnostic extent only.
    pub end: usize,
    /// Offset of the character that decides the error (e.g. the control character).
    pub at: usize,
}

#[derive(Clone, Debug)]
pub struct RefLexed {
    /// All tokens (ignored ones included) before the first error, contiguous from offset 0.
    pub tokens: Vec<RefToken>,
    pub error: Option<RefError>,
}

impl RefLexed {
    pub fn accepted(&self) -> bool {
        self.error.is_none()
    }
    pub fn significant(&self) -> impl Iterator<Item = &RefToken> {
        self.tokens.iter().filter(|t| !t.kind.is_ignored())
    }
}

#[derive(Clone, Copy, Debug)]
pub struct RefLexer {
    /// `true`: SourceCharacter as in the specification. `false`: every scalar value is accepted
    /// *inside* strings, block strings and comments (used only to classify a disagreement as the
    /// one known root cause "control characters inside lexemes are accepted"; never as the oracle).
    pub strict_source_character: bool,
}

pub fn is_source_character(c: char) -> bool {
    matches!(c, '\u{9}' | '\u{A}' | '\u{D}') || c >= '\u{20}'
}

fn is_digit(c: char) -> bool {
    c.is_ascii_digit()
}

pub fn is_name_start(c: char) -> bool {
    c.is_ascii_alphabetic() || c == '_'
}

pub fn is_name_continue(c: char) -> bool {
    c.is_ascii_alphanumeric() || c == '_'
}

fn is_hex(c: char) -> bool {
    c.is_ascii_hexdigit()
}

struct Scan<'a> {
    src: &'a str,
}

impl<'a> Scan<'a> {
    /// The character at byte offset `i`, if any.
    fn at(&self, i: usize) -> Option<char> {
        self.src.get(i..).and_then(|s| s.chars().next())
    }
    fn starts(&self, i: usize, pat: &str) -> bool {
        self.src.as_bytes()[i.min(self.src.len())..].starts_with(pat.as_bytes())
    }
}

impl RefLexer {
    pub fn strict() -> Self {
        RefLexer {
            strict_source_character: true,
        }
    }
    pub fn lenient_controls() -> Self {
        RefLexer {
            strict_source_character: false,
        }
    }

    fn inside_ok(&self, c: char) -> bool {
        !self.strict_source_character || is_source_character(c)
    }

    pub fn lex(&self, src: &str) -> RefLexed {
        let sc = Scan { src };
        let mut tokens = Vec::new();
        let mut i = 0usize;
        while i < src.len() {
            match self.token_at(&sc, i) {
                Ok(t) => {
                    debug_assert!(t.end > t.start && t.start == i);
                    i = t.end;
                    tokens.push(t);
                }
                Err(mut e) => {
                    // A non-SourceCharacter that directly follows a comment is "inside" that comment
                    // for attribution purposes (the grammar ends the comment before it).
                    if e.kind == RefErrorKind::NotSourceCharacter
                        && tokens.last().map(|t: &RefToken| t.kind == RefKind::Comment && t.end == e.start).unwrap_or(false)
                    {
                        e.kind = RefErrorKind::ControlInComment;
                    }
                    return RefLexed {
                        tokens,
                        error: Some(e),
                    };
                }
            }
        }
        RefLexed {
            tokens,
            error: None,
        }
    }

    /// Match the longest token or ignored item starting at `i` (`i < len`).
    fn token_at(&self, sc: &Scan, i: usize) -> Result<RefToken, RefError> {
        let c = sc.at(i).expect("i < len on a char boundary");
        let one = |kind: RefKind| Ok(RefToken { kind, start: i, end: i + c.len_utf8() });
        let err = |kind: RefErrorKind, end: usize, at: usize| Err(RefError { kind, start: i, end, at });
        match c {
            '\u{FEFF}' => one(RefKind::Bom),
            '\t' | ' ' => one(RefKind::WhiteSpace),
            '\n' => one(RefKind::LineTerminator),
            '\r' => {
                // LineTerminator :: CR [lookahead != LF] | CR LF
                if sc.at(i + 1) == Some('\n') {
                    Ok(RefToken { kind: RefKind::LineTerminator, start: i, end: i + 2 })
                } else {
                    one(RefKind::LineTerminator)
                }
            }
            ',' => one(RefKind::Comma),
            '#' => self.comment(sc, i),
            '!' => one(RefKind::Bang),
            '$' => one(RefKind::Dollar),
            '&' => one(RefKind::Amp),
            '(' => one(RefKind::LParen),
            ')' => one(RefKind::RParen),
            ':' => one(RefKind::Colon),
            '=' => one(RefKind::Eq),
            '@' => one(RefKind::At),
            '[' => one(RefKind::LBracket),
            ']' => one(RefKind::RBracket),
            '{' => one(RefKind::LCurly),
            '|' => one(RefKind::Pipe),
            '}' => one(RefKind::RCurly),
            '.' => {
                if sc.starts(i, "...") {
                    Ok(RefToken { kind: RefKind::Spread, start: i, end: i + 3 })
                } else {
                    let mut e = i + 1;
                    if sc.at(e) == Some('.') {
                        e += 1;
                    }
                    err(RefErrorKind::IncompleteSpread, e, i)
                }
            }
            '"' => {
                if sc.starts(i, "\"\"\"") {
                    self.block_string(sc, i)
                } else {
                    self.quoted_string(sc, i)
                }
            }
            '-' | '0'..='9' => self.number(sc, i),
            c if is_name_start(c) => {
                let mut e = i + 1;
                while let Some(n) = sc.at(e) {
                    if is_name_continue(n) {
                        e += 1;
                    } else {
                        break;
                    }
                }
                Ok(RefToken { kind: RefKind::Name, start: i, end: e })
            }
            c if !is_source_character(c) => err(RefErrorKind::NotSourceCharacter, i + c.len_utf8(), i),
            c => err(RefErrorKind::NoTokenStartsHere, i + c.len_utf8(), i),
        }
    }

    /// Comment :: `#` CommentChar*      (CommentChar :: SourceCharacter but not LineTerminator)
    /// Maximal munch: the comment ends before the first character that is not a CommentChar.
    fn comment(&self, sc: &Scan, i: usize) -> Result<RefToken, RefError> {
        let mut e = i + 1;
        while let Some(c) = sc.at(e) {
            if c == '\n' || c == '\r' || !self.inside_ok(c) {
                break;
            }
            e += c.len_utf8();
        }
        Ok(RefToken { kind: RefKind::Comment, start: i, end: e })
    }

    /// IntValue / FloatValue with the lookahead restriction.
    fn number(&self, sc: &Scan, i: usize) -> Result<RefToken, RefError> {
        let err = |kind: RefErrorKind, end: usize, at: usize| Err(RefError { kind, start: i, end, at });
        let mut e = i;
        // IntegerPart :: NegativeSign? 0 | NegativeSign? NonZeroDigit Digit*
        if sc.at(e) == Some('-') {
            e += 1;
        }
        match sc.at(e) {
            Some('0') => {
                e += 1;
                if let Some(d) = sc.at(e) {
                    if is_digit(d) {
                        return err(RefErrorKind::LeadingZero, e + 1, e);
                    }
                }
            }
            Some(d) if is_digit(d) => {
                while sc.at(e).map(is_digit).unwrap_or(false) {
                    e += 1;
                }
            }
            other => {
                let end = e + other.map(|c| c.len_utf8()).unwrap_or(0);
                return err(RefErrorKind::SignWithoutDigit, end, e);
            }
        }
        let mut kind = RefKind::Int;
        // FractionalPart :: . Digit+
        // Maximal munch: a `.` after an IntegerPart can only continue as a FractionalPart, because
        // the lookahead restriction forbids `.` after an IntValue.
        if sc.at(e) == Some('.') {
            let dot = e;
            e += 1;
            if !sc.at(e).map(is_digit).unwrap_or(false) {
                let end = e + sc.at(e).map(|c| c.len_utf8()).unwrap_or(0);
                return err(RefErrorKind::FractionWithoutDigit, end, dot);
            }
            while sc.at(e).map(is_digit).unwrap_or(false) {
                e += 1;
            }
            kind = RefKind::Float;
        }
        // ExponentPart :: ExponentIndicator Sign? Digit+
        // `e`/`E` are NameStart, so after an IntegerPart or FractionalPart they can only continue as
        // an ExponentPart (the lookahead restriction forbids NameStart after a number).
        if matches!(sc.at(e), Some('e') | Some('E')) {
            let ind = e;
            e += 1;
            if matches!(sc.at(e), Some('+') | Some('-')) {
                e += 1;
            }
            if !sc.at(e).map(is_digit).unwrap_or(false) {
                let end = e + sc.at(e).map(|c| c.len_utf8()).unwrap_or(0);
                return err(RefErrorKind::ExponentWithoutDigit, end, ind);
            }
            while sc.at(e).map(is_digit).unwrap_or(false) {
                e += 1;
            }
            kind = RefKind::Float;
        }
        // [lookahead != {Digit, ., NameStart}]  (Digit cannot occur here: all digits were consumed)
        if let Some(n) = sc.at(e) {
            if n == '.' || is_name_start(n) || is_digit(n) {
                return err(RefErrorKind::NumberLookahead, e + 1, e);
            }
        }
        Ok(RefToken { kind, start: i, end: e })
    }

    /// StringValue :: `""` [lookahead != `"`] | `"` StringCharacter+ `"`
    fn quoted_string(&self, sc: &Scan, i: usize) -> Result<RefToken, RefError> {
        let err = |kind: RefErrorKind, end: usize, at: usize| Err(RefError { kind, start: i, end, at });
        let mut e = i + 1;
        loop {
            let Some(c) = sc.at(e) else {
                return err(RefErrorKind::UnterminatedString, e, e);
            };
            match c {
                '"' => {
                    return Ok(RefToken { kind: RefKind::Str, start: i, end: e + 1 });
                }
                '\n' | '\r' => return err(RefErrorKind::UnterminatedString, e, e),
                '\\' => {
                    let esc = e;
                    match sc.at(e + 1) {
                        Some('"') | Some('\\') | Some('/') | Some('b') | Some('f') | Some('n') | Some('r')
                        | Some('t') => e += 2,
                        Some('u') => {
                            let mut v: u32 = 0;
                            for k in 0..4 {
                                match sc.at(e + 2 + k) {
                                    Some(h) if is_hex(h) => v = v * 16 + h.to_digit(16).unwrap(),
                                    _ => return err(RefErrorKind::BadUnicodeEscape, e + 2 + k, esc),
                                }
                            }
                            if (0xD800..=0xDFFF).contains(&v) {
                                return err(RefErrorKind::SurrogateEscape, e + 6, esc);
                            }
                            e += 6;
                        }
                        Some(o) => return err(RefErrorKind::BadEscape, e + 1 + o.len_utf8(), esc),
                        None => return err(RefErrorKind::UnterminatedString, e + 1, e + 1),
                    }
                }
                c if !self.inside_ok(c) => return err(RefErrorKind::ControlInString, e + c.len_utf8(), e),
                c => e += c.len_utf8(),
            }
        }
    }

    /// StringValue :: `"""` BlockStringCharacter* `"""`
    fn block_string(&self, sc: &Scan, i: usize) -> Result<RefToken, RefError> {
        let mut e = i + 3;
        loop {
            let Some(c) = sc.at(e) else {
                return Err(RefError {
                    kind: RefErrorKind::UnterminatedBlockString,
                    start: i,
                    end: e,
                    at: e,
                });
            };
            if sc.starts(e, "\"\"\"") {
                return Ok(RefToken { kind: RefKind::BlockStr, start: i, end: e + 3 });
            }
            if sc.starts(e, "\\\"\"\"") {
                e += 4;
                continue;
            }
            if !self.inside_ok(c) {
                return Err(RefError {
                    kind: RefErrorKind::ControlInBlockString,
                    start: i,
                    end: e + c.len_utf8(),
                    at: e,
                });
            }
            e += c.len_utf8();
        }
    }
}

#[cfg(test)]
mod tests {
    use super::*;

    fn kinds(s: &str) -> (Vec<(RefKind, &str)>, Option<RefErrorKind>) {
        let l = RefLexer::strict().lex(s);
        (
            l.tokens.iter().map(|t| (t.kind, &s[t.start..t.end])).collect(),
            l.error.map(|e| e.kind),
        )
    }

    #[test]
    fn numbers() {
        assert_eq!(kinds("0").0, vec![(RefKind::Int, "0")]);
        assert_eq!(kinds("-0").0, vec![(RefKind::Int, "-0")]);
        assert_eq!(kinds("1e5").0, vec![(RefKind::Float, "1e5")]);
        assert_eq!(kinds("1.5E-3").0, vec![(RefKind::Float, "1.5E-3")]);
        assert_eq!(kinds("00").1, Some(RefErrorKind::LeadingZero));
        assert_eq!(kinds("1.e5").1, Some(RefErrorKind::FractionWithoutDigit));
        assert_eq!(kinds("0x").1, Some(RefErrorKind::NumberLookahead));
        assert_eq!(kinds("1.0.").1, Some(RefErrorKind::NumberLookahead));
        assert_eq!(kinds("1e").1, Some(RefErrorKind::ExponentWithoutDigit));
        assert_eq!(kinds("-").1, Some(RefErrorKind::SignWithoutDigit));
        assert_eq!(kinds("1-1").0, vec![(RefKind::Int, "1"), (RefKind::Int, "-1")]);
    }

    #[test]
    fn strings() {
        assert_eq!(kinds("\"\"").0, vec![(RefKind::Str, "\"\"")]);
        assert_eq!(kinds("\"\"\"\"\"\"").0, vec![(RefKind::BlockStr, "\"\"\"\"\"\"")]);
        assert_eq!(kinds("\"\\u12\"").1, Some(RefErrorKind::BadUnicodeEscape));
        assert_eq!(kinds("\"\\uD800\"").1, Some(RefErrorKind::SurrogateEscape));
        assert_eq!(kinds("\"\"\"\\\"\"\"\"\"").1, Some(RefErrorKind::UnterminatedBlockString));
        assert_eq!(kinds("\"a\nb\"").1, Some(RefErrorKind::UnterminatedString));
        assert_eq!(kinds("\"a\u{0}b\"").1, Some(RefErrorKind::ControlInString));
    }
}
