//! RefDepth — the nesting depth of list-valued introspection fields of an operation with named and
//! inline fragments expanded. Own document model, shares no code with apollo-rs.

use serde_json::{json, Value};
use std::collections::BTreeMap;

pub const LIST_FIELDS: [&str; 4] = ["fields", "interfaces", "possibleTypes", "inputFields"];
/// An operation is rejected iff some path nests this many list fields (or more).
pub const LIMIT: u32 = 3;

#[derive(Clone, Debug, PartialEq, Eq)]
pub enum Sel {
    Field { alias: Option<String>, name: String, args: String, sels: Vec<Sel> },
    Inline { on: Option<String>, sels: Vec<Sel> },
    Spread(String),
}

#[derive(Clone, Debug, PartialEq, Eq)]
pub struct Frag {
    pub name: String,
    pub on: String,
    pub sels: Vec<Sel>,
}

/// One anonymous query plus fragment definitions.
#[derive(Clone, Debug, PartialEq, Eq)]
pub struct Doc {
    pub sels: Vec<Sel>,
    pub frags: Vec<Frag>,
}

pub fn field(name: &str, sels: Vec<Sel>) -> Sel {
    Sel::Field { alias: None, name: name.to_string(), args: String::new(), sels }
}

impl Doc {
    pub fn frag(&self, name: &str) -> Option<&Frag> {
        self.frags.iter().find(|f| f.name == name)
    }

    /// Maximum number of list-valued introspection fields nested on one path, fragments expanded.
    /// `None` if a spread names an undefined fragment or fragments are cyclic (never generated).
    pub fn list_depth(&self) -> Option<u32> {
        depth_of(self, &self.sels, 0)
    }

    pub fn has_spread(&self) -> bool {
        fn any(sels: &[Sel]) -> bool {
            sels.iter().any(|s| match s {
                Sel::Spread(_) => true,
                Sel::Field { sels, .. } | Sel::Inline { sels, .. } => any(sels),
            })
        }
        any(&self.sels)
    }

    /// The same operation with every named-fragment spread replaced by an inline fragment holding
    /// the fragment's selections (recursively); no fragment definitions remain.
    pub fn inline_all(&self) -> Option<Doc> {
        fn go(d: &Doc, sels: &[Sel], fuel: u32) -> Option<Vec<Sel>> {
            if fuel == 0 {
                return None;
            }
            let mut out = Vec::new();
            for s in sels {
                out.push(match s {
                    Sel::Spread(n) => {
                        let f = d.frag(n)?;
                        Sel::Inline { on: Some(f.on.clone()), sels: go(d, &f.sels, fuel - 1)? }
                    }
                    Sel::Field { alias, name, args, sels } => Sel::Field {
                        alias: alias.clone(),
                        name: name.clone(),
                        args: args.clone(),
                        sels: go(d, sels, fuel)?,
                    },
                    Sel::Inline { on, sels } => Sel::Inline { on: on.clone(), sels: go(d, sels, fuel)? },
                });
            }
            Some(out)
        }
        Some(Doc { sels: go(self, &self.sels, 16)?, frags: Vec::new() })
    }

    /// Every spread site gets its own copy of the fragment (recursively), so that no fragment is
    /// spread twice.
    pub fn unique_copies(&self) -> Option<Doc> {
        fn go(d: &Doc, sels: &[Sel], out_frags: &mut Vec<Frag>, fuel: u32) -> Option<Vec<Sel>> {
            if fuel == 0 {
                return None;
            }
            let mut out = Vec::new();
            for s in sels {
                out.push(match s {
                    Sel::Spread(n) => {
                        let f = d.frag(n)?;
                        let body = go(d, &f.sels, out_frags, fuel - 1)?;
                        let name = format!("{}_{}", f.name, out_frags.len());
                        out_frags.push(Frag { name: name.clone(), on: f.on.clone(), sels: body });
                        Sel::Spread(name)
                    }
                    Sel::Field { alias, name, args, sels } => Sel::Field {
                        alias: alias.clone(),
                        name: name.clone(),
                        args: args.clone(),
                        sels: go(d, sels, out_frags, fuel)?,
                    },
                    Sel::Inline { on, sels } => Sel::Inline { on: on.clone(), sels: go(d, sels, out_frags, fuel)? },
                });
            }
            Some(out)
        }
        let mut frags = Vec::new();
        let sels = go(self, &self.sels, &mut frags, 16)?;
        Some(Doc { sels, frags })
    }

    /// Fragment bodies with their own spreads inlined; the operation's spreads are kept.
    pub fn flatten_fragment_bodies(&self) -> Option<Doc> {
        let mut frags = Vec::new();
        for f in &self.frags {
            let body = Doc { sels: f.sels.clone(), frags: self.frags.clone() }.inline_all()?;
            frags.push(Frag { name: f.name.clone(), on: f.on.clone(), sels: body.sels });
        }
        // fragments that were only used from inside other fragments are now unused: drop them
        let mut used = Vec::new();
        fn collect(sels: &[Sel], used: &mut Vec<String>) {
            for s in sels {
                match s {
                    Sel::Spread(n) => used.push(n.clone()),
                    Sel::Field { sels, .. } | Sel::Inline { sels, .. } => collect(sels, used),
                }
            }
        }
        collect(&self.sels, &mut used);
        frags.retain(|f| used.contains(&f.name));
        Some(Doc { sels: self.sels.clone(), frags })
    }

    pub fn to_text(&self) -> String {
        let mut s = String::from("{");
        print_sels(&self.sels, &mut s);
        s.push_str(" }");
        for f in &self.frags {
            s.push_str(&format!("\nfragment {} on {} {{", f.name, f.on));
            print_sels(&f.sels, &mut s);
            s.push_str(" }");
        }
        s.push('\n');
        s
    }

    pub fn to_json(&self) -> Value {
        fn sel(s: &Sel) -> Value {
            match s {
                Sel::Spread(n) => json!({"spread": n}),
                Sel::Inline { on, sels } => json!({"on": on, "s": sels.iter().map(sel).collect::<Vec<_>>()}),
                Sel::Field { alias, name, args, sels } => {
                    json!({"f": name, "alias": alias, "args": args, "s": sels.iter().map(sel).collect::<Vec<_>>()})
                }
            }
        }
        json!({
            "sels": self.sels.iter().map(sel).collect::<Vec<_>>(),
            "frags": self.frags.iter().map(|f| json!({"name": f.name, "on": f.on, "sels": f.sels.iter().map(sel).collect::<Vec<_>>()})).collect::<Vec<_>>(),
        })
    }

    pub fn from_json(v: &Value) -> Option<Doc> {
        fn sels(v: &Value) -> Option<Vec<Sel>> {
            v.as_array()?.iter().map(sel).collect()
        }
        fn sel(v: &Value) -> Option<Sel> {
            if let Some(n) = v.get("spread") {
                return Some(Sel::Spread(n.as_str()?.to_string()));
            }
            if let Some(n) = v.get("f") {
                return Some(Sel::Field {
                    alias: v.get("alias").and_then(|a| a.as_str()).map(|a| a.to_string()),
                    name: n.as_str()?.to_string(),
                    args: v.get("args").and_then(|a| a.as_str()).unwrap_or("").to_string(),
                    sels: sels(v.get("s")?)?,
                });
            }
            Some(Sel::Inline {
                on: v.get("on").and_then(|a| a.as_str()).map(|a| a.to_string()),
                sels: sels(v.get("s")?)?,
            })
        }
        let mut frags = Vec::new();
        for f in v.get("frags")?.as_array()? {
            frags.push(Frag {
                name: f.get("name")?.as_str()?.to_string(),
                on: f.get("on")?.as_str()?.to_string(),
                sels: sels(f.get("sels")?)?,
            });
        }
        Some(Doc { sels: sels(v.get("sels")?)?, frags })
    }
}

fn print_sels(sels: &[Sel], out: &mut String) {
    for s in sels {
        out.push(' ');
        match s {
            Sel::Spread(n) => {
                out.push_str("...");
                out.push_str(n);
            }
            Sel::Inline { on, sels } => {
                out.push_str("...");
                if let Some(t) = on {
                    out.push_str(" on ");
                    out.push_str(t);
                }
                out.push_str(" {");
                print_sels(sels, out);
                out.push_str(" }");
            }
            Sel::Field { alias, name, args, sels } => {
                if let Some(a) = alias {
                    out.push_str(a);
                    out.push_str(": ");
                }
                out.push_str(name);
                out.push_str(args);
                if !sels.is_empty() {
                    out.push_str(" {");
                    print_sels(sels, out);
                    out.push_str(" }");
                }
            }
        }
    }
}

fn depth_of(d: &Doc, sels: &[Sel], fuel_used: u32) -> Option<u32> {
    if fuel_used > 32 {
        return None;
    }
    let mut max = 0;
    for s in sels {
        let here = match s {
            Sel::Field { name, sels, .. } => {
                let below = depth_of(d, sels, fuel_used)?;
                if LIST_FIELDS.contains(&name.as_str()) {
                    below + 1
                } else {
                    below
                }
            }
            Sel::Inline { sels, .. } => depth_of(d, sels, fuel_used)?,
            Sel::Spread(n) => depth_of(d, &d.frag(n)?.sels, fuel_used + 1)?,
        };
        max = max.max(here);
    }
    Some(max)
}

/// Per-fragment own list depth (for evidence only).
pub fn fragment_depths(d: &Doc) -> BTreeMap<String, u32> {
    d.frags
        .iter()
        .filter_map(|f| Some((f.name.clone(), depth_of(d, &f.sels, 0)?)))
        .collect()
}

#[cfg(test)]
mod tests {
    use super::*;
    #[test]
    fn depths() {
        let name = || field("name", vec![]);
        let d = Doc {
            sels: vec![field("__type", vec![Sel::Spread("F".into()), field("interfaces", vec![Sel::Spread("F".into())])])],
            frags: vec![Frag { name: "F".into(), on: "__Type".into(), sels: vec![field("fields", vec![field("type", vec![field("interfaces", vec![name()])])])] }],
        };
        assert_eq!(d.list_depth(), Some(3));
        assert_eq!(d.inline_all().unwrap().list_depth(), Some(3));
        assert_eq!(d.unique_copies().unwrap().list_depth(), Some(3));
        assert_eq!(d.unique_copies().unwrap().frags.len(), 2);
        assert_eq!(Doc::from_json(&d.to_json()), Some(d));
    }
}
