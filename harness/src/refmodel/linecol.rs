//! RefLineCol — byte offset → (line, column), both 1-based.
//!
//! Lines are split by the GraphQL LineTerminator rule only (October 2021 §2.1.2): `\n`, `\r\n`
//! (one terminator), `\r`. Form feed, U+000B, U+0085, U+2028, U+2029 are NOT line terminators.
//! The column counts Unicode scalar values (as the doc comment of `LineColumn` says).
//! The offset between the `\r` and the `\n` of a `\r\n` is inside a terminator: unspecified.

#[derive(Clone, Copy, Debug, PartialEq, Eq)]
pub struct Pos {
    pub offset: usize,
    pub line: usize,
    pub column: usize,
    /// between `\r` and `\n`: not judged
    pub inside_crlf: bool,
    /// the scalar that ends at this offset (None at offset 0)
    pub prev: Option<char>,
}

/// The position of every char-boundary offset of `text`, in increasing offset order
/// (`text.chars().count() + 1` entries).
pub fn table(text: &str) -> Vec<Pos> {
    let mut out = Vec::with_capacity(text.len() + 1);
    let mut line = 1usize;
    let mut column = 1usize;
    let mut prev: Option<char> = None;
    let mut pending_cr = false;
    for (i, c) in text.char_indices() {
        let inside_crlf = pending_cr && c == '\n';
        out.push(Pos { offset: i, line, column, inside_crlf, prev });
        if inside_crlf {
            // the `\n` completes the terminator that started with `\r`: the line was already advanced
            pending_cr = false;
        } else {
            pending_cr = false;
            match c {
                '\n' => {
                    line += 1;
                    column = 1;
                }
                '\r' => {
                    line += 1;
                    column = 1;
                    pending_cr = true;
                }
                _ => column += 1,
            }
        }
        prev = Some(c);
    }
    out.push(Pos { offset: text.len(), line, column, inside_crlf: false, prev });
    out
}

/// Position of one offset (must be a char boundary, else `None`).
pub fn at(table: &[Pos], offset: usize) -> Option<Pos> {
    table.binary_search_by_key(&offset, |p| p.offset).ok().map(|i| table[i])
}

/// Class of a character for signatures.
pub fn char_class(c: Option<char>) -> &'static str {
    match c {
        None => "start-of-input",
        Some('\n') => "LF",
        Some('\r') => "CR",
        Some('\u{000B}') => "U+000B",
        Some('\u{000C}') => "U+000C",
        Some('\u{0085}') => "U+0085",
        Some('\u{2028}') => "U+2028",
        Some('\u{2029}') => "U+2029",
        Some(c) if c.len_utf8() > 1 => "multibyte",
        Some(_) => "ascii",
    }
}

#[cfg(test)]
mod tests {
    use super::*;
    #[test]
    fn basics() {
        let t = table("a\r\nb\rc\n\u{000C}é x");
        let p = |o: usize| at(&t, o).map(|p| (p.line, p.column));
        assert_eq!(p(0), Some((1, 1)));
        assert_eq!(p(1), Some((1, 2)));
        assert!(at(&t, 2).unwrap().inside_crlf);
        assert_eq!(p(3), Some((2, 1)));
        assert_eq!(p(4), Some((2, 2)));
        assert_eq!(p(5), Some((3, 1)));
        assert_eq!(p(7), Some((4, 1)));
        assert_eq!(p(8), Some((4, 2))); // after form feed: same line
        assert_eq!(p(9), None); // inside é
        assert_eq!(p(10), Some((4, 3)));
        let t = table("\"é中🚀\" x");
        assert_eq!(at(&t, 12).map(|p| p.column), Some(7));
    }
}
