//! `RefSchemaRules` — an independent implementation of the GraphQL October 2021 TYPE-SYSTEM
//! validation rules over the harness model (`gen::model::Doc`, *before* merging, because several
//! rules are about definitions versus extensions). One function per rule id; the result is the set
//! of violated rule ids, each with the construct class at which it fired (used for signatures).
//!
//! This is NOT graphql-js / graphql-core (neither exists offline): it is a reference model written
//! from the October 2021 specification text (section 3 "Type System", 2.x for const values, and
//! the SDL subset of section 5) with graphql-js v16 semantics where the text leaves no doubt that
//! they agree. It shares no code with apollo-rs.
//!
//! Deliberate differences are explicit parameters (`Params`, DESIGN Appendix B). Places where the
//! spec text and graphql-js v16 differ, or where the text leaves a choice, are *don't-care bands*:
//! the oracle reports them in `Verdict::dont_care`, generators stay out of them, and monitors skip
//! (and count) a case that is inside one.

use crate::gen::model::*;
use std::collections::{BTreeMap, BTreeSet, HashMap, HashSet};

/// Deliberate, documented differences between apollo-compiler and the plain rule set.
#[derive(Clone, Debug)]
pub struct Params {
    /// `false`: default values of arguments / input fields / directive arguments are NOT validated
    /// (C14 statement; apollo-rs issue 928, TODO in `validation/input_object.rs`).
    pub validate_default_values: bool,
    /// `true`: a built-in directive (`skip`, `include`, `deprecated`, `specifiedBy`) may be
    /// redefined ONCE by the user document (C14 statement; `schema/from_ast.rs`, issue 656).
    pub builtin_directive_redefinable_once: bool,
    /// `true`: constant directive arguments in SDL are type-checked with the value rules
    /// (C14 statement; graphql-js does not run ValuesOfCorrectType over SDL).
    pub typecheck_sdl_directive_values: bool,
}

impl Params {
    pub fn apollo() -> Params {
        Params {
            validate_default_values: false,
            builtin_directive_redefinable_once: true,
            typecheck_sdl_directive_values: true,
        }
    }
}

#[derive(Clone, Debug, PartialEq, Eq, PartialOrd, Ord, Hash)]
pub struct Finding {
    pub rule: &'static str,
    /// construct class at which the rule fired (no names, offsets or counts)
    pub class: String,
}

#[derive(Clone, Debug, Default)]
pub struct Verdict {
    pub findings: BTreeSet<Finding>,
    /// don't-care bands this document is inside (see module docs)
    pub dont_care: BTreeSet<&'static str>,
    /// rule ids whose precondition was met at least once in this document (the rule was decided on
    /// a real instance rather than vacuously); used for the "satisfied" side of the coverage floor
    pub exercised: BTreeSet<&'static str>,
}

impl Verdict {
    pub fn is_empty(&self) -> bool {
        self.findings.is_empty()
    }
    /// Is the verdict undecided because the document sits in a don't-care band? Every band except
    /// one only ever turns an otherwise valid document into a "maybe invalid" one, so a document
    /// with findings is rejected under every reading and is judged normally. The exception is a
    /// schema extension with root operations but no schema definition: there the readings differ in
    /// what the root operation types *are*, which other findings depend on.
    pub fn in_dont_care_band(&self) -> bool {
        if self.dont_care.is_empty() {
            return false;
        }
        self.findings.is_empty() || self.dont_care.contains("schema-extension-roots-without-definition")
    }
    pub fn rule_ids(&self) -> BTreeSet<&'static str> {
        self.findings.iter().map(|f| f.rule).collect()
    }
    pub fn classes_of(&self, rule: &str) -> Vec<String> {
        self.findings.iter().filter(|f| f.rule == rule).map(|f| f.class.clone()).collect()
    }
}

pub const INTROSPECTION_TYPES: &[(&str, Kind)] = &[
    ("__Schema", Kind::Object),
    ("__Type", Kind::Object),
    ("__Field", Kind::Object),
    ("__InputValue", Kind::Object),
    ("__EnumValue", Kind::Object),
    ("__Directive", Kind::Object),
    ("__TypeKind", Kind::Enum),
    ("__DirectiveLocation", Kind::Enum),
];

pub const BUILTIN_DIRECTIVES: &[&str] = &["skip", "include", "deprecated", "specifiedBy"];

/// A type name with its first definition and all same-kind extensions, NOT deduplicated.
pub struct MType<'a> {
    pub name: &'a str,
    pub kind: Kind,
    /// first definition followed by the extensions of the same kind, in document order
    pub parts: Vec<&'a TypeDef>,
}

impl<'a> MType<'a> {
    pub fn fields(&self) -> impl Iterator<Item = &'a FieldDef> + '_ {
        self.parts.iter().flat_map(|p| p.fields.iter())
    }
    pub fn implements(&self) -> impl Iterator<Item = &'a String> + '_ {
        self.parts.iter().flat_map(|p| p.implements.iter())
    }
    pub fn members(&self) -> impl Iterator<Item = &'a String> + '_ {
        self.parts.iter().flat_map(|p| p.members.iter())
    }
    pub fn values(&self) -> impl Iterator<Item = &'a EnumVal> + '_ {
        self.parts.iter().flat_map(|p| p.values.iter())
    }
    pub fn input_fields(&self) -> impl Iterator<Item = &'a InputDef> + '_ {
        self.parts.iter().flat_map(|p| p.input_fields.iter())
    }
    pub fn dirs(&self) -> impl Iterator<Item = &'a DirApp> + '_ {
        self.parts.iter().flat_map(|p| p.dirs.iter())
    }
    pub fn field(&self, name: &str) -> Option<&'a FieldDef> {
        self.fields().find(|f| f.name == name)
    }
    pub fn declares(&self, iface: &str) -> bool {
        self.implements().any(|i| i == iface)
    }
}

/// One place where directives are applied: all applications that count as "the same location"
/// for the non-repeatable rule (a definition together with its extensions).
pub struct DirSite<'a> {
    pub location: &'static str,
    pub class: &'static str,
    pub apps: Vec<&'a DirApp>,
}

/// One input value definition (argument or input field) with where it lives.
pub struct InputSite<'a> {
    /// "field-argument" | "directive-argument" | "input-field"
    pub class: &'static str,
    pub def: &'a InputDef,
}

/// Pre-digested document. Contains no judgement, only lookups.
pub struct View<'a> {
    pub doc: &'a Doc,
    pub params: Params,
    pub types: Vec<MType<'a>>,
    index: HashMap<&'a str, usize>,
    /// every user directive definition, in order
    pub user_directives: Vec<&'a DirectiveDef>,
    builtin_directives: Vec<DirectiveDef>,
    pub schema_defs: Vec<&'a SchemaDef>,
    pub schema_exts: Vec<&'a SchemaDef>,
}

impl<'a> View<'a> {
    pub fn new(doc: &'a Doc, params: Params) -> View<'a> {
        let mut types: Vec<MType<'a>> = Vec::new();
        let mut index: HashMap<&'a str, usize> = HashMap::new();
        for d in &doc.defs {
            if let Def::Type(t) = d {
                if !t.ext && !index.contains_key(t.name.as_str()) {
                    index.insert(t.name.as_str(), types.len());
                    types.push(MType {
                        name: t.name.as_str(),
                        kind: t.kind,
                        parts: vec![t],
                    });
                }
            }
        }
        for d in &doc.defs {
            if let Def::Type(t) = d {
                if t.ext {
                    if let Some(&i) = index.get(t.name.as_str()) {
                        if types[i].kind == t.kind {
                            types[i].parts.push(t);
                        }
                    }
                }
            }
        }
        let mut user_directives = Vec::new();
        let mut schema_defs = Vec::new();
        let mut schema_exts = Vec::new();
        for d in &doc.defs {
            match d {
                Def::Directive(dd) => user_directives.push(dd),
                Def::Schema(s) if s.ext => schema_exts.push(s),
                Def::Schema(s) => schema_defs.push(s),
                _ => {}
            }
        }
        View {
            doc,
            params,
            types,
            index,
            user_directives,
            builtin_directives: builtin_directive_defs(),
            schema_defs,
            schema_exts,
        }
    }

    pub fn ty(&self, name: &str) -> Option<&MType<'a>> {
        self.index.get(name).map(|&i| &self.types[i])
    }

    /// Kind of a named type: built-in scalars (they exist in every schema; a user definition of
    /// the same name is a reported collision and never takes effect), then user definitions, then
    /// introspection types.
    pub fn kind(&self, name: &str) -> Option<Kind> {
        if BUILTIN_SCALARS.contains(&name) {
            return Some(Kind::Scalar);
        }
        if let Some(t) = self.ty(name) {
            return Some(t.kind);
        }
        INTROSPECTION_TYPES.iter().find(|(n, _)| *n == name).map(|(_, k)| *k)
    }

    pub fn is_builtin_scalar(&self, name: &str) -> bool {
        BUILTIN_SCALARS.contains(&name)
    }

    /// The directive definition in force for `name`: the first user definition, else the built-in.
    pub fn directive(&self, name: &str) -> Option<&DirectiveDef> {
        if let Some(d) = self.user_directives.iter().find(|d| d.name == name) {
            return Some(d);
        }
        self.builtin_directives.iter().find(|d| d.name == name)
    }

    /// Operation kind -> root type name, with the construct it comes from. Explicit schema
    /// definitions and extensions first; when there is no schema definition the default names
    /// apply to object types (spec 3.3.1 "Default Root Operation Type Names").
    pub fn roots(&self) -> Vec<(&'static str, String)> {
        let mut out: Vec<(&'static str, String)> = Vec::new();
        let put = |op: &str, ty: &str, out: &mut Vec<(&'static str, String)>| {
            let op = match op {
                "query" => "query",
                "mutation" => "mutation",
                _ => "subscription",
            };
            if !out.iter().any(|(o, _)| *o == op) {
                out.push((op, ty.to_string()));
            }
        };
        if self.schema_defs.is_empty() {
            for (op, n) in [("query", "Query"), ("mutation", "Mutation"), ("subscription", "Subscription")] {
                if self.ty(n).map(|t| t.kind) == Some(Kind::Object) {
                    put(op, n, &mut out);
                }
            }
        } else {
            for s in self.schema_defs.iter().take(1).chain(self.schema_exts.iter()) {
                for (op, ty) in &s.roots {
                    put(op, ty, &mut out);
                }
            }
        }
        out
    }

    pub fn input_sites(&self) -> Vec<InputSite<'a>> {
        let mut out = Vec::new();
        for d in &self.doc.defs {
            match d {
                Def::Type(t) => {
                    for f in &t.fields {
                        for a in &f.args {
                            out.push(InputSite {
                                class: "field-argument",
                                def: a,
                            });
                        }
                    }
                    for f in &t.input_fields {
                        out.push(InputSite {
                            class: "input-field",
                            def: f,
                        });
                    }
                }
                Def::Directive(dd) => {
                    for a in &dd.args {
                        out.push(InputSite {
                            class: "directive-argument",
                            def: a,
                        });
                    }
                }
                _ => {}
            }
        }
        out
    }

    pub fn dir_sites(&self) -> Vec<DirSite<'a>> {
        let mut out = Vec::new();
        // schema definition + its extensions are one location
        let mut schema_apps: Vec<&DirApp> = Vec::new();
        for d in &self.doc.defs {
            if let Def::Schema(s) = d {
                schema_apps.extend(s.dirs.iter());
            }
        }
        if !schema_apps.is_empty() {
            out.push(DirSite {
                location: "SCHEMA",
                class: "schema",
                apps: schema_apps,
            });
        }
        // a type definition with its same-kind extensions is one location
        let mut grouped: HashSet<*const TypeDef> = HashSet::new();
        for t in &self.types {
            let apps: Vec<&DirApp> = t.dirs().collect();
            for p in &t.parts {
                grouped.insert(*p as *const TypeDef);
            }
            if !apps.is_empty() {
                out.push(DirSite {
                    location: t.kind.location(),
                    class: type_class(t.kind),
                    apps,
                });
            }
        }
        for d in &self.doc.defs {
            match d {
                Def::Type(t) => {
                    if !grouped.contains(&(t as *const TypeDef)) && !t.dirs.is_empty() {
                        // duplicate definition or extension without a matching target; the directives
                        // applied by an extension of a built-in scalar are judged whatever one thinks
                        // of extending a built-in scalar (an undefined directive is undefined there too)
                        let builtin_ext = t.ext && t.kind == Kind::Scalar && BUILTIN_SCALARS.contains(&t.name.as_str());
                        out.push(DirSite {
                            location: t.kind.location(),
                            class: if builtin_ext { "built-in-scalar-extension" } else { type_class(t.kind) },
                            apps: t.dirs.iter().collect(),
                        });
                    }
                    for f in &t.fields {
                        if !f.dirs.is_empty() {
                            out.push(DirSite {
                                location: "FIELD_DEFINITION",
                                class: "field",
                                apps: f.dirs.iter().collect(),
                            });
                        }
                        for a in &f.args {
                            if !a.dirs.is_empty() {
                                out.push(DirSite {
                                    location: "ARGUMENT_DEFINITION",
                                    class: "field-argument",
                                    apps: a.dirs.iter().collect(),
                                });
                            }
                        }
                    }
                    for v in &t.values {
                        if !v.dirs.is_empty() {
                            out.push(DirSite {
                                location: "ENUM_VALUE",
                                class: "enum-value",
                                apps: v.dirs.iter().collect(),
                            });
                        }
                    }
                    for f in &t.input_fields {
                        if !f.dirs.is_empty() {
                            out.push(DirSite {
                                location: "INPUT_FIELD_DEFINITION",
                                class: "input-field",
                                apps: f.dirs.iter().collect(),
                            });
                        }
                    }
                }
                Def::Directive(dd) => {
                    for a in &dd.args {
                        if !a.dirs.is_empty() {
                            out.push(DirSite {
                                location: "ARGUMENT_DEFINITION",
                                class: "directive-argument",
                                apps: a.dirs.iter().collect(),
                            });
                        }
                    }
                }
                _ => {}
            }
        }
        out
    }
}

pub fn type_class(k: Kind) -> &'static str {
    match k {
        Kind::Scalar => "scalar",
        Kind::Object => "object",
        Kind::Interface => "interface",
        Kind::Union => "union",
        Kind::Enum => "enum",
        Kind::Input => "input-object",
    }
}

pub struct Out {
    rule: &'static str,
    findings: BTreeSet<Finding>,
}

impl Out {
    fn hit(&mut self, class: impl Into<String>) {
        self.findings.insert(Finding {
            rule: self.rule,
            class: class.into(),
        });
    }
}

pub type RuleFn = fn(&View<'_>, &mut Out);

/// Every rule id with its function. The order is the order of the October 2021 text.
pub const RULES: &[(&str, RuleFn)] = &[
    ("query-root", rule_query_root),
    ("root-types-object", rule_root_types_object),
    ("root-types-distinct", rule_root_types_distinct),
    ("one-schema-definition", rule_one_schema_definition),
    ("unique-operation-types", rule_unique_operation_types),
    ("unique-type-names", rule_unique_type_names),
    ("builtin-scalar-redefined", rule_builtin_scalar_redefined),
    ("unique-directive-names", rule_unique_directive_names),
    ("extension-target", rule_extension_target),
    ("unique-field-names", rule_unique_field_names),
    ("unique-argument-names", rule_unique_argument_names),
    ("unique-enum-values", rule_unique_enum_values),
    ("unique-input-fields", rule_unique_input_fields),
    ("unique-union-members", rule_unique_union_members),
    ("unique-implements", rule_unique_implements),
    ("known-types", rule_known_types),
    ("output-types", rule_output_types),
    ("input-types", rule_input_types),
    ("non-empty-fields", rule_non_empty_fields),
    ("non-empty-enum-values", rule_non_empty_enum_values),
    ("non-empty-union-members", rule_non_empty_union_members),
    ("non-empty-input-fields", rule_non_empty_input_fields),
    ("implements-interface-kind", rule_implements_interface_kind),
    ("no-self-implementation", rule_no_self_implementation),
    ("transitive-interfaces", rule_transitive_interfaces),
    ("interface-fields-present", rule_interface_fields_present),
    ("interface-field-type-covariant", rule_interface_field_type_covariant),
    ("interface-args-present", rule_interface_args_present),
    ("interface-arg-type-equal", rule_interface_arg_type_equal),
    ("extra-args-optional", rule_extra_args_optional),
    ("union-members-object", rule_union_members_object),
    ("input-object-cycles", rule_input_object_cycles),
    ("reserved-name-type", rule_reserved_name_type),
    ("reserved-name-field", rule_reserved_name_field),
    ("reserved-name-argument", rule_reserved_name_argument),
    ("reserved-name-enum-value", rule_reserved_name_enum_value),
    ("reserved-name-input-field", rule_reserved_name_input_field),
    ("reserved-name-directive", rule_reserved_name_directive),
    ("enum-value-keyword", rule_enum_value_keyword),
    ("directive-cycles", rule_directive_cycles),
    ("directives-known", rule_directives_known),
    ("directive-location", rule_directive_location),
    ("directive-unique", rule_directive_unique),
    ("directive-args-known", rule_directive_args_known),
    ("directive-args-unique", rule_directive_args_unique),
    ("directive-args-required", rule_directive_args_required),
    ("value-type", rule_value_type),
    ("value-object-fields-known", rule_value_object_fields_known),
    ("value-object-fields-unique", rule_value_object_fields_unique),
    ("value-object-fields-required", rule_value_object_fields_required),
];

pub fn rule_ids() -> Vec<&'static str> {
    RULES.iter().map(|(n, _)| *n).collect()
}

/// Judge a type-system document.
pub fn check(doc: &Doc, params: &Params) -> Verdict {
    let view = View::new(doc, params.clone());
    let mut v = Verdict::default();
    for (name, f) in RULES {
        let mut out = Out {
            rule: name,
            findings: BTreeSet::new(),
        };
        f(&view, &mut out);
        v.findings.extend(out.findings);
    }
    v.dont_care = dont_care(&view);
    v.exercised = exercised(&view);
    v
}

pub fn check_apollo(doc: &Doc) -> Verdict {
    check(doc, &Params::apollo())
}

// -------------------------------------------------------------------------------------------------
// 3.3 Schema
// -------------------------------------------------------------------------------------------------

/// 3.3.1: "The query root operation type must be provided and must be an Object type."
fn rule_query_root(v: &View, out: &mut Out) {
    if !v.roots().iter().any(|(op, _)| *op == "query") {
        out.hit(if v.schema_defs.is_empty() {
            "implicit-schema"
        } else {
            "schema-definition"
        });
    }
}

/// 3.3.1: every root operation type must be an Object type (an undefined one is `known-types`).
fn rule_root_types_object(v: &View, out: &mut Out) {
    for (op, ty) in v.roots() {
        if let Some(k) = v.kind(&ty) {
            if k != Kind::Object {
                out.hit(format!("{op}-root:{}", type_class(k)));
            }
        }
    }
}

/// 3.3.1: "The query, mutation, and subscription root types must all be different types if provided."
fn rule_root_types_distinct(v: &View, out: &mut Out) {
    let roots = v.roots();
    for (i, (_, a)) in roots.iter().enumerate() {
        for (_, b) in roots.iter().skip(i + 1) {
            if a == b {
                out.hit("schema-roots");
            }
        }
    }
}

/// 3.3: a document holds at most one schema definition (graphql-js LoneSchemaDefinition).
fn rule_one_schema_definition(v: &View, out: &mut Out) {
    if v.schema_defs.len() > 1 {
        out.hit("schema-definition");
    }
}

/// An operation type is given at most once over the schema definition and its extensions
/// (graphql-js UniqueOperationTypes).
fn rule_unique_operation_types(v: &View, out: &mut Out) {
    if v.schema_defs.is_empty() {
        // extensions of an implicit schema that carry root operations are a don't-care band
        return;
    }
    let mut seen: Vec<(&str, bool)> = Vec::new();
    for s in v.schema_defs.iter().take(1).chain(v.schema_exts.iter()) {
        for (op, _) in &s.roots {
            if let Some((_, from_ext)) = seen.iter().find(|(o, _)| *o == op.as_str()) {
                out.hit(match (*from_ext, s.ext) {
                    (false, false) => "within-definition",
                    (false, true) => "definition-and-extension",
                    (true, _) => "between-extensions",
                });
            } else {
                seen.push((op.as_str(), s.ext));
            }
        }
    }
}

// -------------------------------------------------------------------------------------------------
// 3.4 Types, 3.4.3 extensions, 3.13 directives: names
// -------------------------------------------------------------------------------------------------

/// 3.4: "All types within a GraphQL schema must have unique names."
fn rule_unique_type_names(v: &View, out: &mut Out) {
    let mut seen: HashMap<&str, Kind> = HashMap::new();
    for d in &v.doc.defs {
        if let Def::Type(t) = d {
            if t.ext {
                continue;
            }
            match seen.get(t.name.as_str()) {
                Some(k) => out.hit(if *k == t.kind { "same-kind" } else { "different-kind" }),
                None => {
                    seen.insert(t.name.as_str(), t.kind);
                }
            }
        }
    }
}

/// 3.5: "all built-in scalars must be omitted" from a type system document; a definition named
/// like one also collides with a type that exists in every schema.
fn rule_builtin_scalar_redefined(v: &View, out: &mut Out) {
    for d in &v.doc.defs {
        if let Def::Type(t) = d {
            if !t.ext && BUILTIN_SCALARS.contains(&t.name.as_str()) {
                out.hit(format!("as-{}", type_class(t.kind)));
            }
        }
    }
}

/// 3.13: "All directives within a GraphQL schema must have unique names." Parameter: a built-in
/// directive may be redefined once.
fn rule_unique_directive_names(v: &View, out: &mut Out) {
    let mut seen: HashSet<&str> = HashSet::new();
    for d in &v.user_directives {
        if !seen.insert(d.name.as_str()) {
            out.hit(if BUILTIN_DIRECTIVES.contains(&d.name.as_str()) {
                "built-in-redefined-twice"
            } else {
                "custom"
            });
        } else if BUILTIN_DIRECTIVES.contains(&d.name.as_str()) && !v.params.builtin_directive_redefinable_once {
            out.hit("built-in-redefined");
        }
    }
}

/// 3.4.3 and each "Type Extensions" subsection: "The named type must already be defined and must
/// be a(n) X type."
fn rule_extension_target(v: &View, out: &mut Out) {
    let mut defined_so_far: HashSet<&str> = HashSet::new();
    for d in &v.doc.defs {
        if let Def::Type(t) = d {
            if !t.ext {
                defined_so_far.insert(t.name.as_str());
                continue;
            }
            match v.ty(&t.name) {
                None => {
                    if BUILTIN_SCALARS.contains(&t.name.as_str())
                        || INTROSPECTION_TYPES.iter().any(|(n, _)| *n == t.name)
                    {
                        // don't-care band `extends-built-in-type`
                    } else {
                        out.hit(format!("orphan:{}-extension", type_class(t.kind)));
                    }
                }
                Some(target) => {
                    if target.kind != t.kind {
                        let pos = if defined_so_far.contains(t.name.as_str()) {
                            "after-definition"
                        } else {
                            "before-definition"
                        };
                        out.hit(format!("kind-mismatch:{pos}"));
                    }
                }
            }
        }
    }
}

fn has_dup<'x>(names: impl Iterator<Item = &'x str>) -> bool {
    let mut seen = HashSet::new();
    for n in names {
        if !seen.insert(n) {
            return true;
        }
    }
    false
}

/// Where the second occurrence of a duplicated name lives relative to the first.
fn dup_class<'x, T>(parts: &[&'x TypeDef], get: impl Fn(&'x TypeDef) -> Vec<&'x T>, name: impl Fn(&T) -> &str) -> Option<&'static str>
where
    T: 'x,
{
    let mut seen: HashMap<String, usize> = HashMap::new();
    for (pi, p) in parts.iter().enumerate() {
        for x in get(p) {
            let n = name(x).to_string();
            if let Some(&first) = seen.get(&n) {
                return Some(if first == pi {
                    if pi == 0 {
                        "within-definition"
                    } else {
                        "within-extension"
                    }
                } else if first == 0 {
                    "definition-and-extension"
                } else {
                    "between-extensions"
                });
            }
            seen.insert(n, pi);
        }
    }
    None
}

/// Every type part that does not belong to a merged type (duplicate definition / orphan or
/// kind-mismatched extension) is looked at on its own.
fn loose_parts<'a>(v: &View<'a>) -> Vec<&'a TypeDef> {
    let mut grouped: HashSet<*const TypeDef> = HashSet::new();
    for t in &v.types {
        for p in &t.parts {
            grouped.insert(*p as *const TypeDef);
        }
    }
    v.doc
        .defs
        .iter()
        .filter_map(|d| match d {
            Def::Type(t) if !grouped.contains(&(t as *const TypeDef)) => Some(t),
            _ => None,
        })
        .collect()
}

fn each_part_group<'a>(v: &View<'a>) -> Vec<(Kind, Vec<&'a TypeDef>)> {
    let mut out: Vec<(Kind, Vec<&'a TypeDef>)> = v.types.iter().map(|t| (t.kind, t.parts.clone())).collect();
    for p in loose_parts(v) {
        out.push((p.kind, vec![p]));
    }
    out
}

/// 3.6 / 3.7: "The field must have a unique name within that Object (Interface) type."
fn rule_unique_field_names(v: &View, out: &mut Out) {
    for (k, parts) in each_part_group(v) {
        if let Some(c) = dup_class(&parts, |p| p.fields.iter().collect(), |f: &FieldDef| &f.name) {
            out.hit(format!("{}:{c}", type_class(k)));
        }
    }
}

/// 3.6 / 3.13: arguments of a field or of a directive definition have unique names.
fn rule_unique_argument_names(v: &View, out: &mut Out) {
    for d in &v.doc.defs {
        match d {
            Def::Type(t) => {
                for f in &t.fields {
                    if has_dup(f.args.iter().map(|a| a.name.as_str())) {
                        out.hit("field-argument");
                    }
                }
            }
            Def::Directive(dd) => {
                if has_dup(dd.args.iter().map(|a| a.name.as_str())) {
                    out.hit("directive-argument");
                }
            }
            _ => {}
        }
    }
}

/// 3.9: enum values are unique within the enum (and its extensions).
fn rule_unique_enum_values(v: &View, out: &mut Out) {
    for (_, parts) in each_part_group(v) {
        if let Some(c) = dup_class(&parts, |p| p.values.iter().collect(), |x: &EnumVal| &x.name) {
            out.hit(format!("enum:{c}"));
        }
    }
}

/// 3.10: "The input field must have a unique name within that Input Object type."
fn rule_unique_input_fields(v: &View, out: &mut Out) {
    for (_, parts) in each_part_group(v) {
        if let Some(c) = dup_class(&parts, |p| p.input_fields.iter().collect(), |x: &InputDef| &x.name) {
            out.hit(format!("input-object:{c}"));
        }
    }
}

/// 3.8: "A Union type must include one or more unique member types."
fn rule_unique_union_members(v: &View, out: &mut Out) {
    for (_, parts) in each_part_group(v) {
        if let Some(c) = dup_class(&parts, |p| p.members.iter().collect(), |x: &String| x.as_str()) {
            out.hit(format!("union:{c}"));
        }
    }
}

/// 3.6 / 3.7: "may declare that it implements one or more unique interfaces."
fn rule_unique_implements(v: &View, out: &mut Out) {
    for (k, parts) in each_part_group(v) {
        if let Some(c) = dup_class(&parts, |p| p.implements.iter().collect(), |x: &String| x.as_str()) {
            out.hit(format!("{}:{c}", type_class(k)));
        }
    }
}

// -------------------------------------------------------------------------------------------------
// Type references
// -------------------------------------------------------------------------------------------------

/// Every named type that is referenced must be defined (graphql-js KnownTypeNames over SDL).
fn rule_known_types(v: &View, out: &mut Out) {
    for d in &v.doc.defs {
        if let Def::Type(t) = d {
            for f in &t.fields {
                if v.kind(f.ty.inner_name()).is_none() {
                    out.hit("field-type");
                }
            }
            for m in &t.members {
                if v.kind(m).is_none() {
                    out.hit("union-member");
                }
            }
            for i in &t.implements {
                if v.kind(i).is_none() {
                    out.hit("implements");
                }
            }
        }
    }
    for s in v.input_sites() {
        if v.kind(s.def.ty.inner_name()).is_none() {
            out.hit(format!("{}-type", s.class));
        }
    }
    for (op, ty) in v.roots() {
        if v.kind(&ty).is_none() {
            out.hit(format!("{op}-root"));
        }
    }
    // roots that lose against an earlier one for the same operation still name a type
    for s in v.schema_defs.iter().chain(v.schema_exts.iter()) {
        for (_, ty) in &s.roots {
            if v.kind(ty).is_none() {
                out.hit("schema-root");
            }
        }
    }
}

fn is_output_kind(k: Kind) -> bool {
    !matches!(k, Kind::Input)
}
fn is_input_kind(k: Kind) -> bool {
    matches!(k, Kind::Scalar | Kind::Enum | Kind::Input)
}

/// 3.6 / 3.7: "The field must return a type where IsOutputType(fieldType) returns true."
fn rule_output_types(v: &View, out: &mut Out) {
    for d in &v.doc.defs {
        if let Def::Type(t) = d {
            for f in &t.fields {
                if let Some(k) = v.kind(f.ty.inner_name()) {
                    if !is_output_kind(k) {
                        out.hit(format!("{}-field", type_class(t.kind)));
                    }
                }
            }
        }
    }
}

/// 3.6 / 3.10 / 3.13: arguments and input fields "must accept a type where IsInputType(..) returns true".
fn rule_input_types(v: &View, out: &mut Out) {
    for s in v.input_sites() {
        if let Some(k) = v.kind(s.def.ty.inner_name()) {
            if !is_input_kind(k) {
                out.hit(format!("{}:{}", s.class, type_class(k)));
            }
        }
    }
}

// -------------------------------------------------------------------------------------------------
// Non-empty (after merging extensions)
// -------------------------------------------------------------------------------------------------

/// 3.6 / 3.7: "An Object (Interface) type must define one or more fields."
fn rule_non_empty_fields(v: &View, out: &mut Out) {
    for t in &v.types {
        if matches!(t.kind, Kind::Object | Kind::Interface) && t.fields().next().is_none() {
            out.hit(type_class(t.kind));
        }
    }
}

/// 3.9: "An Enum type must define one or more unique enum values."
fn rule_non_empty_enum_values(v: &View, out: &mut Out) {
    for t in &v.types {
        if t.kind == Kind::Enum && t.values().next().is_none() {
            out.hit("enum");
        }
    }
}

/// 3.8: "A Union type must include one or more unique member types."
fn rule_non_empty_union_members(v: &View, out: &mut Out) {
    for t in &v.types {
        if t.kind == Kind::Union && t.members().next().is_none() {
            out.hit("union");
        }
    }
}

/// 3.10: "An Input Object type must define one or more input fields."
fn rule_non_empty_input_fields(v: &View, out: &mut Out) {
    for t in &v.types {
        if t.kind == Kind::Input && t.input_fields().next().is_none() {
            out.hit("input-object");
        }
    }
}

// -------------------------------------------------------------------------------------------------
// 3.6 / 3.7 Interfaces: IsValidImplementation
// -------------------------------------------------------------------------------------------------

fn implementers<'v, 'a>(v: &'v View<'a>) -> impl Iterator<Item = &'v MType<'a>> {
    v.types.iter().filter(|t| matches!(t.kind, Kind::Object | Kind::Interface))
}

/// The implemented names once each, in first-seen order.
fn declared<'a>(t: &MType<'a>) -> Vec<&'a str> {
    let mut out: Vec<&str> = Vec::new();
    for i in t.implements() {
        if !out.contains(&i.as_str()) {
            out.push(i.as_str());
        }
    }
    out
}

/// `implements` names something that is defined but is not an interface.
fn rule_implements_interface_kind(v: &View, out: &mut Out) {
    for t in implementers(v) {
        for i in declared(t) {
            if let Some(k) = v.kind(i) {
                if k != Kind::Interface {
                    out.hit(format!("{}-implements-{}", type_class(t.kind), type_class(k)));
                }
            }
        }
    }
    // `implements` on a part that was not merged (duplicate / orphan) is covered by other rules
}

/// 3.7: "An interface type ... may not implement itself."
fn rule_no_self_implementation(v: &View, out: &mut Out) {
    for t in implementers(v) {
        if t.kind == Kind::Interface && t.declares(t.name) {
            out.hit("interface");
        }
    }
}

/// IsValidImplementation 1: "If implementedType declares it implements any interfaces, type must
/// also declare it implements those interfaces."
fn rule_transitive_interfaces(v: &View, out: &mut Out) {
    for t in implementers(v) {
        let mine = declared(t);
        for i in &mine {
            if let Some(it) = v.ty(i).filter(|x| x.kind == Kind::Interface) {
                for j in declared(it) {
                    if !mine.contains(&j) {
                        out.hit(type_class(t.kind));
                    }
                }
            }
        }
    }
}

fn for_each_implemented_field<'v, 'a>(
    v: &'v View<'a>,
    mut f: impl FnMut(&'v MType<'a>, &'a FieldDef, Option<&'a FieldDef>),
) {
    for t in implementers(v) {
        for i in declared(t) {
            if let Some(it) = v.ty(i).filter(|x| x.kind == Kind::Interface) {
                let mut seen: HashSet<&str> = HashSet::new();
                for ifield in it.fields() {
                    if !seen.insert(ifield.name.as_str()) {
                        continue;
                    }
                    f(t, ifield, t.field(&ifield.name));
                }
            }
        }
    }
}

/// IsValidImplementation 2: "type must include a field of the same name for every field defined
/// in implementedType."
fn rule_interface_fields_present(v: &View, out: &mut Out) {
    for_each_implemented_field(v, |t, _, mine| {
        if mine.is_none() {
            out.hit(type_class(t.kind));
        }
    });
}

/// IsValidImplementationFieldType(fieldType, implementedFieldType), transcribed step by step.
pub fn is_valid_implementation_field_type(v: &View, field_type: &TyRef, implemented: &TyRef) -> bool {
    // 1. If fieldType is a Non-Null type
    if let TyRef::NonNull(nullable) = field_type {
        let implemented_nullable = match implemented {
            TyRef::NonNull(x) => x.as_ref(),
            x => x,
        };
        return is_valid_implementation_field_type(v, nullable, implemented_nullable);
    }
    // 2. If fieldType is a List type and implementedFieldType is also a List type
    if let (TyRef::List(item), TyRef::List(implemented_item)) = (field_type, implemented) {
        return is_valid_implementation_field_type(v, item, implemented_item);
    }
    // 3. If fieldType is the same type as implementedFieldType
    if field_type == implemented {
        return true;
    }
    let (TyRef::Named(f), TyRef::Named(i)) = (field_type, implemented) else {
        return false;
    };
    let (Some(fk), Some(ik)) = (v.kind(f), v.kind(i)) else {
        return false;
    };
    // 4. Object that is a possible type of the Union
    if fk == Kind::Object && ik == Kind::Union {
        if let Some(u) = v.ty(i) {
            if u.members().any(|m| m == f) {
                return true;
            }
        }
    }
    // 5. Object or Interface that declares it implements the Interface
    if matches!(fk, Kind::Object | Kind::Interface) && ik == Kind::Interface {
        if let Some(ft) = v.ty(f) {
            if ft.declares(i) {
                return true;
            }
        }
    }
    false
}

/// IsValidImplementation 2.a.ii: "field must return a type which is equal to or a sub-type of
/// (covariant) the return type of implementedField".
fn rule_interface_field_type_covariant(v: &View, out: &mut Out) {
    for_each_implemented_field(v, |t, ifield, mine| {
        if let Some(mine) = mine {
            // unknown types are `known-types`' business
            if v.kind(mine.ty.inner_name()).is_none() || v.kind(ifield.ty.inner_name()).is_none() {
                return;
            }
            if !is_valid_implementation_field_type(v, &mine.ty, &ifield.ty) {
                let why = if mine.ty.list_depth() != ifield.ty.list_depth() {
                    "list-shape"
                } else if mine.ty.inner_name() != ifield.ty.inner_name() {
                    "named-type"
                } else {
                    "nullability"
                };
                out.hit(format!("{}:{why}", type_class(t.kind)));
            }
        }
    });
}

/// IsValidImplementation 2.a.i: "field must include an argument of the same name for every
/// argument defined in implementedField."
fn rule_interface_args_present(v: &View, out: &mut Out) {
    for_each_implemented_field(v, |t, ifield, mine| {
        if let Some(mine) = mine {
            for a in &ifield.args {
                if !mine.args.iter().any(|b| b.name == a.name) {
                    out.hit(type_class(t.kind));
                }
            }
        }
    });
}

/// IsValidImplementation 2.a.i.1: "That named argument on field must accept the same type
/// (invariant) as that named argument on implementedField."
fn rule_interface_arg_type_equal(v: &View, out: &mut Out) {
    for_each_implemented_field(v, |t, ifield, mine| {
        if let Some(mine) = mine {
            for a in &ifield.args {
                if let Some(b) = mine.args.iter().find(|b| b.name == a.name) {
                    if a.ty != b.ty {
                        out.hit(type_class(t.kind));
                    }
                }
            }
        }
    });
}

/// IsValidImplementation 2.a.ii (arguments): "field may include additional arguments not defined
/// in implementedField, but any additional argument must not be required". Required = non-null
/// type without default value; non-null WITH a default is a don't-care band (the spec's "e.g.
/// must not be of a non-nullable type" against graphql-js's isRequiredArgument).
fn rule_extra_args_optional(v: &View, out: &mut Out) {
    for_each_implemented_field(v, |t, ifield, mine| {
        if let Some(mine) = mine {
            for b in &mine.args {
                if !ifield.args.iter().any(|a| a.name == b.name) && b.ty.is_non_null() && b.default.is_none() {
                    out.hit(type_class(t.kind));
                }
            }
        }
    });
}

/// 3.8: "The member types of a Union type must all be Object base types."
fn rule_union_members_object(v: &View, out: &mut Out) {
    for d in &v.doc.defs {
        if let Def::Type(t) = d {
            for m in &t.members {
                if let Some(k) = v.kind(m) {
                    if k != Kind::Object {
                        out.hit(format!("member-is-{}", type_class(k)));
                    }
                }
            }
        }
    }
}

/// 3.10 Circular References: "If an Input Object references itself either directly or through
/// referenced Input Objects, at least one of the fields in the chain of references must be either
/// a nullable or a List type." Edges: fields whose type is exactly `Name!`.
fn rule_input_object_cycles(v: &View, out: &mut Out) {
    let mut edges: BTreeMap<&str, Vec<&str>> = BTreeMap::new();
    for t in v.types.iter().filter(|t| t.kind == Kind::Input) {
        let e = edges.entry(t.name).or_default();
        for f in t.input_fields() {
            if let TyRef::NonNull(inner) = &f.ty {
                if let TyRef::Named(n) = inner.as_ref() {
                    if v.ty(n).map(|x| x.kind) == Some(Kind::Input) {
                        e.push(n.as_str());
                    }
                }
            }
        }
    }
    // a node is on a cycle iff it can reach itself
    let mut shortest: Option<usize> = None;
    for &start in edges.keys() {
        let mut dist: HashMap<&str, usize> = HashMap::new();
        let mut queue: Vec<(&str, usize)> = vec![(start, 0)];
        let mut qi = 0;
        while qi < queue.len() {
            let (n, d) = queue[qi];
            qi += 1;
            for &m in edges.get(n).map(|x| x.as_slice()).unwrap_or(&[]) {
                if m == start {
                    shortest = Some(shortest.map_or(d + 1, |s: usize| s.min(d + 1)));
                } else if !dist.contains_key(m) {
                    dist.insert(m, d + 1);
                    queue.push((m, d + 1));
                }
            }
        }
    }
    if let Some(len) = shortest {
        out.hit(match len {
            1 => "self-reference",
            2 => "two-type-cycle",
            _ => "longer-cycle",
        });
    }
}

// -------------------------------------------------------------------------------------------------
// 2.1.9 / 3.x Reserved names
// -------------------------------------------------------------------------------------------------

fn reserved(n: &str) -> bool {
    n.starts_with("__")
}

fn rule_reserved_name_type(v: &View, out: &mut Out) {
    for d in &v.doc.defs {
        if let Def::Type(t) = d {
            if !t.ext && reserved(&t.name) {
                out.hit(type_class(t.kind));
            }
        }
    }
}

fn rule_reserved_name_field(v: &View, out: &mut Out) {
    for d in &v.doc.defs {
        if let Def::Type(t) = d {
            if t.fields.iter().any(|f| reserved(&f.name)) {
                out.hit(format!("{}-field", type_class(t.kind)));
            }
        }
    }
}

fn rule_reserved_name_argument(v: &View, out: &mut Out) {
    for s in v.input_sites() {
        if s.class != "input-field" && reserved(&s.def.name) {
            out.hit(s.class);
        }
    }
}

fn rule_reserved_name_enum_value(v: &View, out: &mut Out) {
    for d in &v.doc.defs {
        if let Def::Type(t) = d {
            if t.values.iter().any(|x| reserved(&x.name)) {
                out.hit("enum-value");
            }
        }
    }
}

fn rule_reserved_name_input_field(v: &View, out: &mut Out) {
    for s in v.input_sites() {
        if s.class == "input-field" && reserved(&s.def.name) {
            out.hit(s.class);
        }
    }
}

fn rule_reserved_name_directive(v: &View, out: &mut Out) {
    if v.user_directives.iter().any(|d| reserved(&d.name)) {
        out.hit("directive-definition");
    }
}

/// 3.9 / grammar: `EnumValue : Name but not true or false or null`.
fn rule_enum_value_keyword(v: &View, out: &mut Out) {
    for d in &v.doc.defs {
        if let Def::Type(t) = d {
            for x in &t.values {
                if matches!(x.name.as_str(), "true" | "false" | "null") {
                    out.hit(format!("enum-value-{}", x.name));
                }
            }
        }
    }
}

// -------------------------------------------------------------------------------------------------
// 3.13 Directive definitions must not reference themselves
// -------------------------------------------------------------------------------------------------

/// "A directive definition must not contain the use of a directive which references itself
/// directly" / "... indirectly by referencing a Type or Directive which transitively includes a
/// reference to this directive." References from a directive definition: the directives applied
/// to its arguments, and its argument types; from a type: the directives applied to it (and its
/// extensions), to its enum values, to its input fields, and the types of its input fields.
fn rule_directive_cycles(v: &View, out: &mut Out) {
    // first definition of each name is the one in force
    let mut names: Vec<&str> = Vec::new();
    for d in &v.user_directives {
        if !names.contains(&d.name.as_str()) {
            names.push(d.name.as_str());
        }
    }
    for root in names {
        let mut seen_dirs: HashSet<String> = HashSet::new();
        let mut seen_types: HashSet<String> = HashSet::new();
        let mut via_type = false;
        let mut direct = false;
        let mut hit = false;
        // explicit stack of directive names whose definition must be expanded; `depth` 0 = root
        let mut work: Vec<(String, usize, bool)> = vec![(root.to_string(), 0, false)];
        while let Some((dname, depth, through_type)) = work.pop() {
            let Some(def) = v.directive(&dname) else {
                continue;
            };
            let mut refs: Vec<(String, bool)> = Vec::new();
            for a in &def.args {
                for app in &a.dirs {
                    refs.push((app.name.clone(), through_type));
                }
                collect_type_refs(v, a.ty.inner_name(), &mut seen_types, &mut refs);
            }
            for (r, tt) in refs {
                if r == root {
                    hit = true;
                    if depth == 0 && !tt {
                        direct = true;
                    }
                    if tt {
                        via_type = true;
                    }
                } else if seen_dirs.insert(r.clone()) {
                    work.push((r, depth + 1, tt));
                }
            }
        }
        if hit {
            out.hit(if direct {
                "direct:on-own-argument"
            } else if via_type {
                "indirect:through-argument-type"
            } else {
                "indirect:through-directive"
            });
        }
    }
}

/// Directives referenced by type `name` (transitively through input-field types). Each pushed
/// reference is marked `true` = reached through a type.
fn collect_type_refs(v: &View, name: &str, seen_types: &mut HashSet<String>, refs: &mut Vec<(String, bool)>) {
    if !seen_types.insert(name.to_string()) {
        return;
    }
    let Some(t) = v.ty(name) else {
        return;
    };
    for app in t.dirs() {
        refs.push((app.name.clone(), true));
    }
    for val in t.values() {
        for app in &val.dirs {
            refs.push((app.name.clone(), true));
        }
    }
    let fields: Vec<&InputDef> = t.input_fields().collect();
    for f in fields {
        for app in &f.dirs {
            refs.push((app.name.clone(), true));
        }
        collect_type_refs(v, f.ty.inner_name(), seen_types, refs);
    }
}

// -------------------------------------------------------------------------------------------------
// Directive applications in the SDL (5.7 Directives, 5.4 Arguments, 5.6 Values restricted to const)
// -------------------------------------------------------------------------------------------------

/// 5.7.1 Directives Are Defined.
fn rule_directives_known(v: &View, out: &mut Out) {
    for s in v.dir_sites() {
        for a in &s.apps {
            if v.directive(&a.name).is_none() {
                out.hit(s.class);
            }
        }
    }
}

/// 5.7.2 Directives Are In Valid Locations.
fn rule_directive_location(v: &View, out: &mut Out) {
    for s in v.dir_sites() {
        for a in &s.apps {
            if let Some(d) = v.directive(&a.name) {
                if !d.locations.iter().any(|l| l == s.location) {
                    out.hit(s.class);
                }
            }
        }
    }
}

/// 5.7.3 Directives Are Unique Per Location (non-repeatable ones; a definition and its extensions
/// are one location).
fn rule_directive_unique(v: &View, out: &mut Out) {
    for s in v.dir_sites() {
        let mut seen: HashSet<&str> = HashSet::new();
        for a in &s.apps {
            if !seen.insert(a.name.as_str()) {
                if let Some(d) = v.directive(&a.name) {
                    if !d.repeatable {
                        out.hit(s.class);
                    }
                }
            }
        }
    }
}

/// 5.4.1 Argument Names (on directives).
fn rule_directive_args_known(v: &View, out: &mut Out) {
    for s in v.dir_sites() {
        for a in &s.apps {
            if let Some(d) = v.directive(&a.name) {
                for (n, _) in &a.args {
                    if !d.args.iter().any(|x| x.name == *n) {
                        out.hit(s.class);
                    }
                }
            }
        }
    }
}

/// 5.4.2 Argument Uniqueness.
fn rule_directive_args_unique(v: &View, out: &mut Out) {
    for s in v.dir_sites() {
        for a in &s.apps {
            if has_dup(a.args.iter().map(|(n, _)| n.as_str())) {
                out.hit(s.class);
            }
        }
    }
}

/// 5.4.2.1 Required Arguments: non-null type without default value must be provided. (An explicit
/// `null` is a value of the wrong type: `value-type`.)
fn rule_directive_args_required(v: &View, out: &mut Out) {
    for s in v.dir_sites() {
        for a in &s.apps {
            if let Some(d) = v.directive(&a.name) {
                for x in &d.args {
                    if x.ty.is_non_null() && x.default.is_none() && !a.args.iter().any(|(n, _)| *n == x.name) {
                        out.hit(s.class);
                    }
                }
            }
        }
    }
}

#[derive(Default)]
struct ValueFaults {
    type_faults: BTreeSet<String>,
    unknown_field: bool,
    duplicate_field: BTreeSet<&'static str>,
    missing_required: bool,
}

/// 5.6.1 Values of Correct Type, following the input coercion rules of 3.5.x, 3.9, 3.10, 3.11, 3.12
/// for constant literals.
fn check_value(v: &View, ty: &TyRef, val: &Val, faults: &mut ValueFaults) {
    match ty {
        TyRef::NonNull(inner) => {
            if *val == Val::Null {
                faults.type_faults.insert("null-for-non-null".into());
            } else {
                check_value(v, inner, val, faults);
            }
        }
        _ if *val == Val::Null => {}
        TyRef::List(item) => match val {
            Val::List(items) => {
                for it in items {
                    check_value(v, item, it, faults);
                }
            }
            // "If the value passed as an input to a list type is not a list and not the null value,
            // then the result of input coercion is a list of size one"
            single => check_value(v, item, single, faults),
        },
        TyRef::Named(n) => {
            // duplicate keys are a syntactic rule (5.6.3): it holds for every object literal,
            // also inside custom scalars
            let Some(kind) = v.kind(n) else {
                return;
            };
            match kind {
                Kind::Scalar if v.is_builtin_scalar(n) => {
                    let ok = match (n.as_str(), val) {
                        ("Int", Val::Int(i)) => *i >= i32::MIN as i64 && *i <= i32::MAX as i64,
                        ("Float", Val::Int(_)) => true,
                        ("Float", Val::Float(_)) => true,
                        ("String", Val::Str(_)) => true,
                        ("Boolean", Val::Bool(_)) => true,
                        ("ID", Val::Str(_)) | ("ID", Val::Int(_)) => true,
                        _ => false,
                    };
                    if !ok {
                        let what = match (n.as_str(), val) {
                            ("Int", Val::Int(_)) => "int-out-of-32-bit-range".to_string(),
                            _ => format!("{}-for-{}", val_kind(val), n),
                        };
                        faults.type_faults.insert(what);
                    }
                }
                Kind::Scalar => {
                    // custom scalar: "any value"
                }
                Kind::Enum => match val {
                    Val::Enum(e) => {
                        let known = v.ty(n).map(|t| t.values().any(|x| x.name == *e)).unwrap_or(true);
                        if !known {
                            faults.type_faults.insert("undefined-enum-value".into());
                        }
                    }
                    other => {
                        faults.type_faults.insert(format!("{}-for-enum", val_kind(other)));
                    }
                },
                Kind::Input => match val {
                    Val::Obj(fields) => {
                        let Some(t) = v.ty(n) else {
                            return;
                        };
                        let defs: Vec<&InputDef> = t.input_fields().collect();
                        for (k, fv) in fields {
                            match defs.iter().find(|d| d.name == *k) {
                                None => faults.unknown_field = true,
                                Some(d) => check_value(v, &d.ty, fv, faults),
                            }
                        }
                        for d in &defs {
                            if d.ty.is_non_null() && d.default.is_none() && !fields.iter().any(|(k, _)| *k == d.name) {
                                faults.missing_required = true;
                            }
                        }
                    }
                    other => {
                        faults.type_faults.insert(format!("{}-for-input-object", val_kind(other)));
                    }
                },
                // not an input type: `input-types` reports the definition
                Kind::Object | Kind::Interface | Kind::Union => {}
            }
        }
    }
}

fn val_kind(v: &Val) -> &'static str {
    match v {
        Val::Null => "null",
        Val::Int(_) => "int",
        Val::Float(_) => "float",
        Val::Str(_) => "string",
        Val::Bool(_) => "boolean",
        Val::Enum(_) => "enum",
        Val::List(_) => "list",
        Val::Obj(_) => "object",
        Val::Var(_) => "variable",
    }
}

/// 5.6.3 Input Object Field Uniqueness — syntactic, every object literal. `typed` tells whether the
/// literal sits at an input-object typed position or inside a custom scalar / untyped position.
fn dup_keys(val: &Val, out: &mut BTreeSet<&'static str>, typed_as_input_object: bool) {
    match val {
        Val::Obj(fields) => {
            if has_dup(fields.iter().map(|(k, _)| k.as_str())) {
                // one class for typed and untyped positions: the rule is syntactic
                let _ = typed_as_input_object;
                out.insert("object-literal");
            }
            for (_, x) in fields {
                dup_keys(x, out, typed_as_input_object);
            }
        }
        Val::List(items) => {
            for x in items {
                dup_keys(x, out, typed_as_input_object);
            }
        }
        _ => {}
    }
}

fn for_each_typed_directive_arg(v: &View, mut f: impl FnMut(&DirSite, &TyRef, &Val)) {
    if !v.params.typecheck_sdl_directive_values {
        return;
    }
    for s in v.dir_sites() {
        for a in &s.apps {
            if let Some(d) = v.directive(&a.name) {
                for (n, val) in &a.args {
                    if let Some(x) = d.args.iter().find(|x| x.name == *n) {
                        f(&s, &x.ty, val);
                    }
                }
            }
        }
    }
}

fn rule_value_type(v: &View, out: &mut Out) {
    for_each_typed_directive_arg(v, |_, ty, val| {
        let mut f = ValueFaults::default();
        check_value(v, ty, val, &mut f);
        for t in f.type_faults {
            out.hit(t);
        }
    });
}

fn rule_value_object_fields_known(v: &View, out: &mut Out) {
    for_each_typed_directive_arg(v, |_, ty, val| {
        let mut f = ValueFaults::default();
        check_value(v, ty, val, &mut f);
        if f.unknown_field {
            out.hit("directive-argument-value");
        }
    });
}

fn rule_value_object_fields_unique(v: &View, out: &mut Out) {
    // syntactic: every object literal in a directive argument, whatever its type
    for s in v.dir_sites() {
        for a in &s.apps {
            let def = v.directive(&a.name);
            for (n, val) in &a.args {
                let typed = def
                    .and_then(|d| d.args.iter().find(|x| x.name == *n))
                    .and_then(|x| v.kind(x.ty.inner_name()))
                    .map(|k| k == Kind::Input)
                    .unwrap_or(false);
                let mut f = ValueFaults::default();
                dup_keys(val, &mut f.duplicate_field, typed);
                for c in f.duplicate_field {
                    out.hit(c);
                }
            }
        }
    }
}

fn rule_value_object_fields_required(v: &View, out: &mut Out) {
    for_each_typed_directive_arg(v, |_, ty, val| {
        let mut f = ValueFaults::default();
        check_value(v, ty, val, &mut f);
        if f.missing_required {
            out.hit("directive-argument-value");
        }
    });
}

// -------------------------------------------------------------------------------------------------
// Don't-care bands
// -------------------------------------------------------------------------------------------------

fn any_value(val: &Val, pred: &dyn Fn(&Val) -> bool) -> bool {
    if pred(val) {
        return true;
    }
    match val {
        Val::List(items) => items.iter().any(|x| any_value(x, pred)),
        Val::Obj(fs) => fs.iter().any(|(_, x)| any_value(x, pred)),
        _ => false,
    }
}

fn dont_care(v: &View) -> BTreeSet<&'static str> {
    let mut dc: BTreeSet<&'static str> = BTreeSet::new();
    if v.doc.defs.iter().any(|d| d.is_executable()) {
        // graphql-js ignores executable definitions when building a schema; apollo rejects them
        dc.insert("executable-definitions");
    }
    for d in &v.doc.defs {
        if let Def::Type(t) = d {
            if t.ext
                && v.ty(&t.name).is_none()
                && (BUILTIN_SCALARS.contains(&t.name.as_str()) || INTROSPECTION_TYPES.iter().any(|(n, _)| *n == t.name))
            {
                // graphql-js: "Cannot extend type because it is not defined"; the spec text has
                // built-in scalars defined in every schema
                dc.insert("extends-built-in-type");
            }
        }
    }
    if v.schema_defs.is_empty() && v.schema_exts.iter().any(|s| !s.roots.is_empty()) {
        // "The Schema must already be defined": implicit schema? graphql-js accepts, apollo
        // accepts only directives (issue 682)
        dc.insert("schema-extension-roots-without-definition");
    }
    if v.schema_defs.is_empty() {
        for n in ["Mutation", "Subscription"] {
            if let Some(t) = v.ty(n) {
                if t.kind != Kind::Object {
                    // graphql-js picks default root names whatever the kind and then rejects
                    dc.insert("default-root-name-on-non-object");
                }
            }
        }
    }
    for s in v.input_sites() {
        if s.def.ty.is_non_null() && s.def.default.is_none() && s.def.dirs.iter().any(|a| a.name == "deprecated") {
            // draft-only rule
            dc.insert("deprecated-on-required");
        }
        if let Some(def) = &s.def.default {
            let mut dups = BTreeSet::new();
            dup_keys(def, &mut dups, true);
            if !dups.is_empty() {
                dc.insert("duplicate-keys-in-default-value");
            }
        }
    }
    for_each_implemented_field(v, |_, ifield, mine| {
        if let Some(mine) = mine {
            for b in &mine.args {
                if !ifield.args.iter().any(|a| a.name == b.name) && b.ty.is_non_null() && b.default.is_some() {
                    dc.insert("extra-argument-non-null-with-default");
                }
            }
        }
    });
    // references to introspection types from user SDL
    let mut refs: Vec<&str> = Vec::new();
    for d in &v.doc.defs {
        match d {
            Def::Type(t) => {
                refs.extend(t.fields.iter().map(|f| f.ty.inner_name()));
                refs.extend(t.members.iter().map(|m| m.as_str()));
                refs.extend(t.implements.iter().map(|m| m.as_str()));
            }
            Def::Schema(s) => refs.extend(s.roots.iter().map(|(_, t)| t.as_str())),
            _ => {}
        }
    }
    for s in v.input_sites() {
        refs.push(s.def.ty.inner_name());
    }
    if refs.iter().any(|r| v.ty(r).is_none() && INTROSPECTION_TYPES.iter().any(|(n, _)| n == r)) {
        dc.insert("references-introspection-type");
    }
    for s in v.dir_sites() {
        for a in &s.apps {
            for (_, val) in &a.args {
                if any_value(val, &|x| matches!(x, Val::Float(f) if !f.parse::<f64>().map(|x| x.is_finite()).unwrap_or(false))) {
                    // graphql-js parseFloat gives Infinity and accepts
                    dc.insert("non-finite-float-literal");
                }
                if any_value(val, &|x| matches!(x, Val::Var(_))) {
                    dc.insert("variable-in-const-context");
                }
            }
        }
    }
    // directive definitions with a location listed twice or no known spec sentence either way
    for d in &v.user_directives {
        if has_dup(d.locations.iter().map(|l| l.as_str())) {
            dc.insert("directive-location-listed-twice");
        }
    }
    dc
}

// -------------------------------------------------------------------------------------------------
// Which rules were decided on a real instance (non-vacuously)
// -------------------------------------------------------------------------------------------------

fn exercised(v: &View) -> BTreeSet<&'static str> {
    let mut e: BTreeSet<&'static str> = BTreeSet::new();
    let roots = v.roots();
    e.insert("query-root");
    e.insert("known-types");
    if !roots.is_empty() {
        e.insert("root-types-object");
    }
    if roots.len() >= 2 {
        e.insert("root-types-distinct");
    }
    if !v.schema_defs.is_empty() {
        e.insert("one-schema-definition");
        let n: usize = v.schema_defs.iter().take(1).chain(v.schema_exts.iter()).map(|s| s.roots.len()).sum();
        if n >= 2 {
            e.insert("unique-operation-types");
        }
    }
    if v.types.len() >= 2 {
        e.insert("unique-type-names");
    }
    if v.types.iter().any(|t| t.kind == Kind::Scalar) {
        e.insert("builtin-scalar-redefined");
    }
    if v.user_directives.len() >= 2 || v.user_directives.iter().any(|d| BUILTIN_DIRECTIVES.contains(&d.name.as_str())) {
        e.insert("unique-directive-names");
    }
    if v.user_directives.iter().any(|d| !d.name.is_empty()) {
        e.insert("reserved-name-directive");
    }
    if v.doc.defs.iter().any(|d| matches!(d, Def::Type(t) if t.ext)) {
        e.insert("extension-target");
    }
    for t in &v.types {
        e.insert("reserved-name-type");
        match t.kind {
            Kind::Object | Kind::Interface => {
                e.insert("non-empty-fields");
                if t.fields().count() >= 2 {
                    e.insert("unique-field-names");
                }
                if t.fields().next().is_some() {
                    e.insert("output-types");
                    e.insert("reserved-name-field");
                }
                if t.fields().any(|f| f.args.len() >= 2) {
                    e.insert("unique-argument-names");
                }
                if t.implements().count() >= 2 {
                    e.insert("unique-implements");
                }
                if t.implements().next().is_some() {
                    e.insert("implements-interface-kind");
                    if t.kind == Kind::Interface {
                        e.insert("no-self-implementation");
                    }
                }
                for i in declared(t) {
                    if let Some(it) = v.ty(i).filter(|x| x.kind == Kind::Interface) {
                        if it.implements().next().is_some() {
                            e.insert("transitive-interfaces");
                        }
                    }
                }
            }
            Kind::Enum => {
                e.insert("non-empty-enum-values");
                if t.values().count() >= 2 {
                    e.insert("unique-enum-values");
                }
                if t.values().next().is_some() {
                    e.insert("reserved-name-enum-value");
                    e.insert("enum-value-keyword");
                }
            }
            Kind::Union => {
                e.insert("non-empty-union-members");
                if t.members().count() >= 2 {
                    e.insert("unique-union-members");
                }
                if t.members().next().is_some() {
                    e.insert("union-members-object");
                }
            }
            Kind::Input => {
                e.insert("non-empty-input-fields");
                if t.input_fields().count() >= 2 {
                    e.insert("unique-input-fields");
                }
                if t.input_fields().any(|f| v.kind(f.ty.inner_name()) == Some(Kind::Input)) {
                    e.insert("input-object-cycles");
                }
            }
            Kind::Scalar => {}
        }
    }
    for s in v.input_sites() {
        e.insert("input-types");
        if s.class == "input-field" {
            e.insert("reserved-name-input-field");
        } else {
            e.insert("reserved-name-argument");
        }
    }
    if v.user_directives.iter().any(|d| d.args.len() >= 2) {
        e.insert("unique-argument-names");
    }
    if v
        .user_directives
        .iter()
        .any(|d| d.args.iter().any(|a| !a.dirs.is_empty() || v.ty(a.ty.inner_name()).is_some()))
    {
        e.insert("directive-cycles");
    }
    for_each_implemented_field(v, |_, ifield, mine| {
        e.insert("interface-fields-present");
        if let Some(mine) = mine {
            e.insert("interface-field-type-covariant");
            if !ifield.args.is_empty() {
                e.insert("interface-args-present");
            }
            if ifield.args.iter().any(|a| mine.args.iter().any(|b| b.name == a.name)) {
                e.insert("interface-arg-type-equal");
            }
            if mine.args.iter().any(|b| !ifield.args.iter().any(|a| a.name == b.name)) {
                e.insert("extra-args-optional");
            }
        }
    });
    for s in v.dir_sites() {
        for a in &s.apps {
            e.insert("directives-known");
            if let Some(d) = v.directive(&a.name) {
                e.insert("directive-location");
                if !d.repeatable && s.apps.len() >= 2 {
                    e.insert("directive-unique");
                }
                if !a.args.is_empty() {
                    e.insert("directive-args-known");
                }
                if a.args.len() >= 2 {
                    e.insert("directive-args-unique");
                }
                if d.args.iter().any(|x| x.ty.is_non_null() && x.default.is_none()) {
                    e.insert("directive-args-required");
                }
                for (n, val) in &a.args {
                    if let Some(x) = d.args.iter().find(|x| x.name == *n) {
                        e.insert("value-type");
                        let is_input = v.kind(x.ty.inner_name()) == Some(Kind::Input);
                        if any_value(val, &|y| matches!(y, Val::Obj(_))) {
                            if is_input {
                                e.insert("value-object-fields-known");
                                e.insert("value-object-fields-required");
                            }
                            if any_value(val, &|y| matches!(y, Val::Obj(fs) if fs.len() >= 2)) {
                                e.insert("value-object-fields-unique");
                            }
                        }
                    }
                }
            }
        }
    }
    e
}
