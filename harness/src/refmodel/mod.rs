//! Independent reference models (DESIGN §5). None of these share code with apollo-rs.
pub mod introspection;
