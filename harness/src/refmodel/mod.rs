//! Independent reference models (DESIGN §5). None of these share code with apollo-rs.
pub mod introspection;
pub mod lexer;
pub mod string;
pub mod grammar;
pub mod schema_rules;
pub mod exec_rules;
pub mod coerce;
pub mod depth;
pub mod linecol;
pub mod typerel;
pub mod executor;
