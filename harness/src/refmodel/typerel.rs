//! RefTypeRel — the three type relations of the October 2021 specification, transcribed step by
//! step from the spec text. Shares no code with apollo-rs (own type representation, own schema
//! model).
//!
//! * `AreTypesCompatible(variableType, locationType)`            — §5.8.5
//! * `IsVariableUsageAllowed(variableDefinition, variableUsage)` — §5.8.5
//! * `IsValidImplementationFieldType(fieldType, implementedFieldType)` — §3.6 (Objects, type validation)

use std::collections::{BTreeMap, BTreeSet};

/// A type reference. Invariant: `NonNull` never directly wraps `NonNull`.
#[derive(Clone, PartialEq, Eq, Debug, Hash, PartialOrd, Ord)]
pub enum Ty {
    Named(String),
    List(Box<Ty>),
    NonNull(Box<Ty>),
}

impl Ty {
    pub fn named(n: &str) -> Ty {
        Ty::Named(n.to_string())
    }
    pub fn list(self) -> Ty {
        Ty::List(Box::new(self))
    }
    pub fn non_null(self) -> Ty {
        match self {
            Ty::NonNull(_) => self,
            other => Ty::NonNull(Box::new(other)),
        }
    }
    pub fn is_non_null(&self) -> bool {
        matches!(self, Ty::NonNull(_))
    }
    pub fn is_list(&self) -> bool {
        matches!(self, Ty::List(_))
    }
    /// The type with one outer Non-Null removed (identity on nullable types).
    pub fn nullable(&self) -> &Ty {
        match self {
            Ty::NonNull(inner) => inner,
            other => other,
        }
    }
    pub fn inner_name(&self) -> &str {
        match self {
            Ty::Named(n) => n,
            Ty::List(i) | Ty::NonNull(i) => i.inner_name(),
        }
    }
    /// GraphQL syntax of the type reference.
    pub fn text(&self) -> String {
        match self {
            Ty::Named(n) => n.clone(),
            Ty::List(i) => format!("[{}]", i.text()),
            Ty::NonNull(i) => format!("{}!", i.text()),
        }
    }
    /// Wrapper shape with the name masked, e.g. `[_!]!` (used in signatures and coverage classes).
    pub fn shape(&self) -> String {
        match self {
            Ty::Named(_) => "_".to_string(),
            Ty::List(i) => format!("[{}]", i.shape()),
            Ty::NonNull(i) => format!("{}!", i.shape()),
        }
    }
    pub fn list_depth(&self) -> usize {
        match self {
            Ty::Named(_) => 0,
            Ty::List(i) => 1 + i.list_depth(),
            Ty::NonNull(i) => i.list_depth(),
        }
    }
}

/// Parse the text produced by `Ty::text` back (for replay).
pub fn parse_ty(s: &str) -> Option<Ty> {
    fn go(b: &[u8], i: &mut usize) -> Option<Ty> {
        let mut t = if b.get(*i) == Some(&b'[') {
            *i += 1;
            let inner = go(b, i)?;
            if b.get(*i) != Some(&b']') {
                return None;
            }
            *i += 1;
            inner.list()
        } else {
            let s = *i;
            while *i < b.len() && (b[*i].is_ascii_alphanumeric() || b[*i] == b'_') {
                *i += 1;
            }
            if s == *i {
                return None;
            }
            Ty::named(std::str::from_utf8(&b[s..*i]).ok()?)
        };
        if b.get(*i) == Some(&b'!') {
            *i += 1;
            t = t.non_null();
        }
        Some(t)
    }
    let b = s.as_bytes();
    let mut i = 0;
    let t = go(b, &mut i)?;
    (i == b.len()).then_some(t)
}

/// All wrappings of `name` with at most `max_lists` list levels (2·(2^(d+1)−1) shapes: 14 for d=2).
pub fn all_wrappings(name: &str, max_lists: usize) -> Vec<Ty> {
    let mut level: Vec<Ty> = vec![Ty::named(name), Ty::named(name).non_null()];
    let mut out = level.clone();
    for _ in 0..max_lists {
        let mut next = Vec::new();
        for t in &level {
            next.push(t.clone().list());
            next.push(t.clone().list().non_null());
        }
        out.extend(next.iter().cloned());
        level = next;
    }
    out
}

/// Why `AreTypesCompatible` answered what it answered (the deciding step of the algorithm).
#[derive(Clone, Copy, PartialEq, Eq, Debug)]
pub enum Compat {
    Yes,
    /// step 1.a: location is Non-Null, variable is not
    NullableIntoNonNull,
    /// step 3.a: location is a list, variable is not
    NamedIntoList,
    /// step 4: variable is a list, location is not
    ListIntoNamed,
    /// step 5: different named types
    DifferentName,
}

impl Compat {
    pub fn ok(self) -> bool {
        self == Compat::Yes
    }
    pub fn id(self) -> &'static str {
        match self {
            Compat::Yes => "compatible",
            Compat::NullableIntoNonNull => "nullable-into-non-null",
            Compat::NamedIntoList => "named-into-list",
            Compat::ListIntoNamed => "list-into-named",
            Compat::DifferentName => "different-named-type",
        }
    }
}

/// AreTypesCompatible(variableType, locationType), October 2021 §5.8.5.
pub fn are_types_compatible(variable: &Ty, location: &Ty) -> Compat {
    // 1. If locationType is a non-null type:
    if let Ty::NonNull(nullable_location) = location {
        // a. If variableType is NOT a non-null type, return false.
        let Ty::NonNull(nullable_variable) = variable else {
            return Compat::NullableIntoNonNull;
        };
        // b-d. unwrap both and recurse
        return are_types_compatible(nullable_variable, nullable_location);
    }
    // 2. Otherwise, if variableType is a non-null type: unwrap it and recurse.
    if let Ty::NonNull(nullable_variable) = variable {
        return are_types_compatible(nullable_variable, location);
    }
    // 3. Otherwise, if locationType is a list type:
    if let Ty::List(item_location) = location {
        // a. If variableType is NOT a list type, return false.
        let Ty::List(item_variable) = variable else {
            return Compat::NamedIntoList;
        };
        return are_types_compatible(item_variable, item_location);
    }
    // 4. Otherwise, if variableType is a list type, return false.
    if variable.is_list() {
        return Compat::ListIntoNamed;
    }
    // 5. Return true if variableType and locationType are identical, otherwise false.
    if variable == location {
        Compat::Yes
    } else {
        Compat::DifferentName
    }
}

/// A default value as far as IsVariableUsageAllowed cares.
#[derive(Clone, Copy, PartialEq, Eq, Debug)]
pub enum DefaultKind {
    None,
    /// a default value that is not the literal `null`
    Literal,
    /// the literal `null`
    Null,
}

#[derive(Clone, Copy, PartialEq, Eq, Debug)]
pub enum Usage {
    Allowed,
    /// step 3.c with no variable default at all and no location default
    NonNullLocationNoDefault,
    /// step 3.c where the only default present is the variable's `null`
    NonNullLocationNullDefault,
    /// step 3.e / 4: AreTypesCompatible said no
    Incompatible(Compat),
}

impl Usage {
    pub fn ok(self) -> bool {
        self == Usage::Allowed
    }
    pub fn id(self) -> String {
        match self {
            Usage::Allowed => "allowed".into(),
            Usage::NonNullLocationNoDefault => "non-null-location,nullable-variable,no-default".into(),
            Usage::NonNullLocationNullDefault => "non-null-location,nullable-variable,null-default-only".into(),
            Usage::Incompatible(c) => format!("types-incompatible:{}", c.id()),
        }
    }
}

/// IsVariableUsageAllowed(variableDefinition, variableUsage), October 2021 §5.8.5.
pub fn is_variable_usage_allowed(
    variable_type: &Ty,
    variable_default: DefaultKind,
    location_type: &Ty,
    location_has_default: bool,
) -> Usage {
    // 3. If locationType is a non-null type AND variableType is NOT a non-null type:
    if location_type.is_non_null() && !variable_type.is_non_null() {
        // a. hasNonNullVariableDefaultValue: a default value exists and is not the value null.
        let has_non_null_variable_default = variable_default == DefaultKind::Literal;
        // b. hasLocationDefaultValue
        // c. If neither, return false.
        if !has_non_null_variable_default && !location_has_default {
            return if variable_default == DefaultKind::Null {
                Usage::NonNullLocationNullDefault
            } else {
                Usage::NonNullLocationNoDefault
            };
        }
        // d-e. compare against the nullable location type
        let c = are_types_compatible(variable_type, location_type.nullable());
        return if c.ok() { Usage::Allowed } else { Usage::Incompatible(c) };
    }
    // 4. Return AreTypesCompatible(variableType, locationType).
    let c = are_types_compatible(variable_type, location_type);
    if c.ok() {
        Usage::Allowed
    } else {
        Usage::Incompatible(c)
    }
}

#[derive(Clone, Copy, PartialEq, Eq, Debug)]
pub enum Kind {
    Scalar,
    Object,
    Interface,
    Union,
    Enum,
    InputObject,
}

/// The part of a schema the subtype relation needs.
#[derive(Clone, Debug, Default)]
pub struct TypeWorld {
    pub kinds: BTreeMap<String, Kind>,
    /// type name → interfaces it *declares* it implements
    pub implements: BTreeMap<String, BTreeSet<String>>,
    /// union name → member types
    pub members: BTreeMap<String, BTreeSet<String>>,
}

impl TypeWorld {
    pub fn add(&mut self, name: &str, kind: Kind) {
        self.kinds.insert(name.to_string(), kind);
    }
    pub fn add_implements(&mut self, ty: &str, iface: &str) {
        self.implements.entry(ty.to_string()).or_default().insert(iface.to_string());
    }
    pub fn add_member(&mut self, union_: &str, member: &str) {
        self.members.entry(union_.to_string()).or_default().insert(member.to_string());
    }
    fn kind(&self, name: &str) -> Option<Kind> {
        self.kinds.get(name).copied()
    }
}

#[derive(Clone, Copy, PartialEq, Eq, Debug)]
pub enum ImplField {
    /// step 3 (same type)
    Same,
    /// step 4 (object is a possible type of the union)
    UnionMember,
    /// step 5 (object/interface declares it implements the interface)
    Implements,
    /// step 6, reached because the nullability differs (implemented is Non-Null, field is not)
    NoNullableForNonNull,
    /// step 6, list against non-list
    NoListMismatch,
    /// step 6, different named types without a subtype relation
    NoUnrelatedNamed,
}

impl ImplField {
    pub fn ok(self) -> bool {
        matches!(self, ImplField::Same | ImplField::UnionMember | ImplField::Implements)
    }
    pub fn id(self) -> &'static str {
        match self {
            ImplField::Same => "same-type",
            ImplField::UnionMember => "object-member-of-union",
            ImplField::Implements => "implements-interface",
            ImplField::NoNullableForNonNull => "nullable-for-non-null",
            ImplField::NoListMismatch => "list-vs-named",
            ImplField::NoUnrelatedNamed => "unrelated-named-type",
        }
    }
}

/// IsValidImplementationFieldType(fieldType, implementedFieldType), October 2021 §3.6.
pub fn is_valid_implementation_field_type(w: &TypeWorld, field: &Ty, implemented: &Ty) -> ImplField {
    // 1. If fieldType is a Non-Null type:
    if let Ty::NonNull(nullable) = field {
        // b. implementedNullableType = unwrapped implementedFieldType if it is Non-Null, else itself
        let implemented_nullable = implemented.nullable();
        return is_valid_implementation_field_type(w, nullable, implemented_nullable);
    }
    // 2. If fieldType is a List type and implementedFieldType is also a List type:
    if let (Ty::List(item), Ty::List(implemented_item)) = (field, implemented) {
        return is_valid_implementation_field_type(w, item, implemented_item);
    }
    // 3. If fieldType is the same type as implementedFieldType then return true.
    if field == implemented {
        return ImplField::Same;
    }
    if let (Ty::Named(f), Ty::Named(i)) = (field, implemented) {
        // 4. fieldType is an Object type, implementedFieldType is a Union type and fieldType is a
        //    possible type of implementedFieldType.
        if w.kind(f) == Some(Kind::Object)
            && w.kind(i) == Some(Kind::Union)
            && w.members.get(i).is_some_and(|m| m.contains(f))
        {
            return ImplField::UnionMember;
        }
        // 5. fieldType is an Object or Interface type, implementedFieldType is an Interface type and
        //    fieldType declares it implements implementedFieldType.
        if matches!(w.kind(f), Some(Kind::Object | Kind::Interface))
            && w.kind(i) == Some(Kind::Interface)
            && w.implements.get(f).is_some_and(|s| s.contains(i))
        {
            return ImplField::Implements;
        }
        return ImplField::NoUnrelatedNamed;
    }
    // 6. Otherwise return false.
    if implemented.is_non_null() {
        // (field is nullable here: step 1 did not apply)
        ImplField::NoNullableForNonNull
    } else {
        ImplField::NoListMismatch
    }
}

#[cfg(test)]
mod tests {
    use super::*;

    #[test]
    fn spec_examples() {
        let int = Ty::named("Int");
        // Int! into Int: ok; Int into Int!: no
        assert!(are_types_compatible(&int.clone().non_null(), &int).ok());
        assert!(!are_types_compatible(&int, &int.clone().non_null()).ok());
        // [Int!] into [Int]: ok; [Int] into [Int!]: no
        assert!(are_types_compatible(&int.clone().non_null().list(), &int.clone().list()).ok());
        assert!(!are_types_compatible(&int.clone().list(), &int.clone().non_null().list()).ok());
        assert_eq!(all_wrappings("A", 2).len(), 14);
        // Int = null into Int!: not allowed; Int = 1 into Int!: allowed; Int into Int! = 1: allowed
        let nn = int.clone().non_null();
        assert!(!is_variable_usage_allowed(&int, DefaultKind::Null, &nn, false).ok());
        assert!(is_variable_usage_allowed(&int, DefaultKind::Literal, &nn, false).ok());
        assert!(is_variable_usage_allowed(&int, DefaultKind::None, &nn, true).ok());
        assert!(is_variable_usage_allowed(&int, DefaultKind::Null, &nn, true).ok());
    }
}
