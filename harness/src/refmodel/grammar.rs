//! `RefGrammar` — an independent recursive-descent RECOGNISER of the GraphQL October 2021 document
//! grammar (spec §2 Language, §3 Type System), written from the specification text. It shares no
//! code with apollo-parser and never calls into it.
//!
//! It answers three questions:
//!   * `accepts_document(s)`  — is `s` a `Document` (`Definition+`)? On accept: the ordered list of
//!     top-level (definition kind, name). On reject: a coarse reason class and the production in
//!     which the first failure happened (used for violation signatures; no offsets or names).
//!   * `accepts_type(s)`      — are the significant tokens of `s` exactly one `Type`?
//!   * `accepts_field_set(s)` — are the significant tokens of `s` exactly one selection set, the
//!     outer braces being optional (federation field-set syntax)?
//!
//! The private lexer below implements §2.1 for the *significant* tokens only (punctuators, Name,
//! IntValue/FloatValue with their lookahead restrictions, StringValue, block strings) and skips the
//! ignored ones (BOM, white space, line terminators, comments, commas).
//!
//! Deliberate choices, with their source:
//!   * SourceCharacter: U+0009, U+000A, U+000D and everything from U+0020 up (the Oct-2021 text
//!     stops at U+FFFF because it counts UTF-16 units; supplementary scalars are accepted here as
//!     every implementation and the later spec do).
//!   * `\uXXXX` escapes that denote a lone surrogate are lexically valid in Oct 2021 but apollo
//!     documents that it rejects them (DESIGN Appendix B): the lexer only *flags* them
//!     (`surrogate_escape`), and the monitors stay out of that band.

use std::fmt;

// ---------------------------------------------------------------------------------------------
// public types
// ---------------------------------------------------------------------------------------------

#[derive(Clone, Copy, Debug, PartialEq, Eq, Hash, PartialOrd, Ord)]
pub enum DefKind {
    Operation,
    Fragment,
    Schema,
    Scalar,
    Object,
    Interface,
    Union,
    Enum,
    InputObject,
    Directive,
    SchemaExtension,
    ScalarExtension,
    ObjectExtension,
    InterfaceExtension,
    UnionExtension,
    EnumExtension,
    InputObjectExtension,
}

impl DefKind {
    pub fn as_str(self) -> &'static str {
        match self {
            DefKind::Operation => "OperationDefinition",
            DefKind::Fragment => "FragmentDefinition",
            DefKind::Schema => "SchemaDefinition",
            DefKind::Scalar => "ScalarTypeDefinition",
            DefKind::Object => "ObjectTypeDefinition",
            DefKind::Interface => "InterfaceTypeDefinition",
            DefKind::Union => "UnionTypeDefinition",
            DefKind::Enum => "EnumTypeDefinition",
            DefKind::InputObject => "InputObjectTypeDefinition",
            DefKind::Directive => "DirectiveDefinition",
            DefKind::SchemaExtension => "SchemaExtension",
            DefKind::ScalarExtension => "ScalarTypeExtension",
            DefKind::ObjectExtension => "ObjectTypeExtension",
            DefKind::InterfaceExtension => "InterfaceTypeExtension",
            DefKind::UnionExtension => "UnionTypeExtension",
            DefKind::EnumExtension => "EnumTypeExtension",
            DefKind::InputObjectExtension => "InputObjectTypeExtension",
        }
    }

    pub const ALL: &'static [DefKind] = &[
        DefKind::Operation,
        DefKind::Fragment,
        DefKind::Schema,
        DefKind::Scalar,
        DefKind::Object,
        DefKind::Interface,
        DefKind::Union,
        DefKind::Enum,
        DefKind::InputObject,
        DefKind::Directive,
        DefKind::SchemaExtension,
        DefKind::ScalarExtension,
        DefKind::ObjectExtension,
        DefKind::InterfaceExtension,
        DefKind::UnionExtension,
        DefKind::EnumExtension,
        DefKind::InputObjectExtension,
    ];
}

impl fmt::Display for DefKind {
    fn fmt(&self, f: &mut fmt::Formatter<'_>) -> fmt::Result {
        f.write_str(self.as_str())
    }
}

/// Why and where the reference rejected. `reason` and `production` are drawn from small fixed
/// vocabularies (they are what violation signatures are made of); `offset` and `found` are for
/// human diagnosis only and must never enter a signature.
#[derive(Clone, Debug, PartialEq, Eq)]
pub struct RejectInfo {
    /// Coarse reason class, e.g. `empty-list`, `expected-colon`, `variable-in-const`,
    /// `lexical:unterminated-string`.
    pub reason: &'static str,
    /// Grammar production in which the failure was detected, e.g. `Arguments`, `SchemaDefinition`.
    pub production: &'static str,
    /// Byte offset of the offending token (or of the lexical error).
    pub offset: usize,
    /// Class of the offending token: `eof`, `name`, `int`, `float`, `string`, or the punctuator.
    pub found: &'static str,
}

impl RejectInfo {
    pub fn is_lexical(&self) -> bool {
        self.reason.starts_with("lexical:")
    }
    /// The reference gave up for its own reasons (nesting cap): not a verdict.
    pub fn is_oracle_limit(&self) -> bool {
        self.reason == "oracle-depth-cap"
    }
    /// `production|reason` — the part of a signature contributed by the reference.
    pub fn site(&self) -> String {
        format!("{}|{}", self.production, self.reason)
    }
}

#[derive(Clone, Debug, PartialEq, Eq)]
pub struct DefInfo {
    pub kind: DefKind,
    pub name: Option<String>,
    /// Byte range from the first to the last significant token of the definition.
    pub start: usize,
    pub end: usize,
}

#[derive(Clone, Debug, Default)]
pub struct DocInfo {
    pub defs: Vec<DefInfo>,
    /// Maximum nesting reached: enclosing selection sets + list values + object values + list
    /// types on one path (a measure of the reference's own recursion, see `MAX_DEPTH`).
    pub max_nesting: usize,
    /// A quoted string contains a `\uXXXX` escape denoting a lone surrogate (don't-care band).
    pub surrogate_escape: bool,
    pub significant_tokens: usize,
}

/// Nesting beyond which the reference refuses to give a verdict (protects its own stack).
pub const MAX_DEPTH: usize = 3000;

pub struct RefGrammar;

impl RefGrammar {
    /// Ordered top-level (kind, name) list on accept; reason class + production on reject.
    pub fn accepts_document(s: &str) -> Result<Vec<(DefKind, Option<String>)>, RejectInfo> {
        Self::parse_document(s).map(|d| d.defs.into_iter().map(|d| (d.kind, d.name)).collect())
    }

    /// Like `accepts_document` with definition spans and the lexer's don't-care flag.
    pub fn parse_document(s: &str) -> Result<DocInfo, RejectInfo> {
        let lexed = lex(s);
        let mut p = P::new(&lexed, s);
        p.document()?;
        Ok(DocInfo {
            defs: std::mem::take(&mut p.defs),
            max_nesting: p.max_depth,
            surrogate_escape: lexed.surrogate_escape,
            significant_tokens: lexed.toks.len() - 1,
        })
    }

    /// Exactly one `Type` and nothing else but ignored tokens.
    pub fn accepts_type(s: &str) -> bool {
        Self::check_type(s).is_ok()
    }

    /// `accepts_type` with the reject information (reason `trailing-tokens` when a complete Type is
    /// followed by further significant tokens).
    pub fn check_type(s: &str) -> Result<(), RejectInfo> {
        let lexed = lex(s);
        let mut p = P::new(&lexed, s);
        p.ty("Type")?;
        p.expect_eof("Type")
    }

    /// The first lexical error of `s` (reason, byte offset), whatever the grammar would say first.
    pub fn first_lexical_error(s: &str) -> Option<(&'static str, usize)> {
        lex(s).toks.iter().find_map(|t| match t.k {
            K::Bad(r) => Some((r, t.start)),
            _ => None,
        })
    }

    /// Exactly one selection set, outer braces optional, and nothing else but ignored tokens.
    pub fn accepts_field_set(s: &str) -> bool {
        Self::check_field_set(s).is_ok()
    }

    pub fn check_field_set(s: &str) -> Result<(), RejectInfo> {
        let lexed = lex(s);
        let mut p = P::new(&lexed, s);
        if p.at_punct(b'{') {
            p.selection_set()?;
            p.expect_eof("FieldSet")
        } else {
            let mut n = 0;
            while !p.at_eof() {
                // Without the outer braces a `}` (or anything that cannot start a Selection)
                // is a stray token.
                if !(p.at_spread() || p.at_any_name()) {
                    return Err(if n == 0 {
                        p.fail("FieldSet", "expected-selection")
                    } else {
                        p.fail_raw("FieldSet", "trailing-tokens")
                    });
                }
                p.selection()?;
                n += 1;
            }
            if n == 0 {
                return Err(p.fail("FieldSet", "empty-list"));
            }
            Ok(())
        }
    }

    /// Did the lexer see a lone-surrogate `\uXXXX` escape (don't-care band)? `false` when the input
    /// does not lex.
    pub fn has_surrogate_escape(s: &str) -> bool {
        lex(s).surrogate_escape
    }
}

// ---------------------------------------------------------------------------------------------
// private lexer (spec §2.1), significant tokens only
// ---------------------------------------------------------------------------------------------

#[derive(Clone, Copy, Debug, PartialEq, Eq)]
enum K {
    /// One of `! $ & ( ) : = @ [ ] { | }`.
    Punct(u8),
    Spread,
    Name,
    Int,
    Float,
    Str,
    BlockStr,
    /// The first lexical error (reason class); lexing stops there. The recogniser reports it only
    /// when it *reaches* it: an earlier grammar error, or trailing-token detection, comes first.
    Bad(&'static str),
    Eof,
}

#[derive(Clone, Copy, Debug)]
struct Tok {
    k: K,
    start: usize,
    end: usize,
}

struct Lexed {
    toks: Vec<Tok>, // always ends with Eof
    surrogate_escape: bool,
}

fn lex_err(reason: &'static str, offset: usize) -> RejectInfo {
    RejectInfo {
        reason,
        production: "Token",
        offset,
        found: "source-text",
    }
}

fn is_name_start(b: u8) -> bool {
    b.is_ascii_alphabetic() || b == b'_'
}

fn is_name_continue(b: u8) -> bool {
    b.is_ascii_alphanumeric() || b == b'_'
}

/// A code point that is not a SourceCharacter: C0 controls other than TAB, LF, CR.
fn is_forbidden_control(c: char) -> bool {
    (c as u32) < 0x20 && c != '\t' && c != '\n' && c != '\r'
}

fn lex(s: &str) -> Lexed {
    let mut toks = Vec::new();
    let mut surrogate_escape = false;
    if let Err(e) = lex_into(s, &mut toks, &mut surrogate_escape) {
        toks.push(Tok {
            k: K::Bad(e.reason),
            start: e.offset,
            end: e.offset,
        });
    }
    toks.push(Tok {
        k: K::Eof,
        start: s.len(),
        end: s.len(),
    });
    Lexed {
        toks,
        surrogate_escape,
    }
}

fn lex_into(s: &str, toks: &mut Vec<Tok>, surrogate_escape: &mut bool) -> Result<(), RejectInfo> {
    let b = s.as_bytes();
    let mut i = 0usize;
    while i < b.len() {
        let c = b[i];
        match c {
            // Ignored: WhiteSpace, LineTerminator, Comma
            b' ' | b'\t' | b'\n' | b'\r' | b',' => i += 1,
            // Ignored: UnicodeBOM (U+FEFF = EF BB BF)
            0xEF if b[i..].starts_with(&[0xEF, 0xBB, 0xBF]) => i += 3,
            // Ignored: Comment — `#` CommentChar* where CommentChar is SourceCharacter but not
            // LineTerminator
            b'#' => {
                i += 1;
                while i < b.len() && b[i] != b'\n' && b[i] != b'\r' {
                    if b[i] < 0x20 && b[i] != b'\t' {
                        return Err(lex_err("lexical:control-character-in-comment", i));
                    }
                    i += 1;
                }
            }
            b'!' | b'$' | b'&' | b'(' | b')' | b':' | b'=' | b'@' | b'[' | b']' | b'{' | b'|'
            | b'}' => {
                toks.push(Tok {
                    k: K::Punct(c),
                    start: i,
                    end: i + 1,
                });
                i += 1;
            }
            b'.' => {
                if b[i..].starts_with(b"...") {
                    toks.push(Tok {
                        k: K::Spread,
                        start: i,
                        end: i + 3,
                    });
                    i += 3;
                } else {
                    return Err(lex_err("lexical:stray-dot", i));
                }
            }
            _ if is_name_start(c) => {
                let start = i;
                while i < b.len() && is_name_continue(b[i]) {
                    i += 1;
                }
                toks.push(Tok {
                    k: K::Name,
                    start,
                    end: i,
                });
            }
            b'-' | b'0'..=b'9' => {
                let start = i;
                let k = lex_number(b, &mut i)?;
                toks.push(Tok { k, start, end: i });
            }
            b'"' => {
                let start = i;
                let k = if b[i..].starts_with(b"\"\"\"") {
                    lex_block_string(s, &mut i)?;
                    K::BlockStr
                } else {
                    lex_string(s, &mut i, surrogate_escape)?;
                    K::Str
                };
                toks.push(Tok { k, start, end: i });
            }
            _ => {
                return Err(lex_err(
                    if c < 0x20 {
                        "lexical:control-character"
                    } else if c < 0x80 {
                        "lexical:unexpected-character"
                    } else {
                        "lexical:non-ascii-outside-string-or-comment"
                    },
                    i,
                ));
            }
        }
    }
    Ok(())
}

/// IntValue / FloatValue with the Oct-2021 lookahead restrictions
/// (`[lookahead != {Digit, ".", NameStart}]` after either).
fn lex_number(b: &[u8], i: &mut usize) -> Result<K, RejectInfo> {
    let at = |j: usize| b.get(j).copied();
    let mut j = *i;
    let mut float = false;
    if at(j) == Some(b'-') {
        j += 1;
    }
    match at(j) {
        Some(b'0') => {
            j += 1;
            if matches!(at(j), Some(b'0'..=b'9')) {
                return Err(lex_err("lexical:number-leading-zero", j));
            }
        }
        Some(b'1'..=b'9') => {
            while matches!(at(j), Some(b'0'..=b'9')) {
                j += 1;
            }
        }
        _ => return Err(lex_err("lexical:number-without-digits", j.min(b.len()))),
    }
    if at(j) == Some(b'.') {
        j += 1;
        if !matches!(at(j), Some(b'0'..=b'9')) {
            return Err(lex_err("lexical:number-fraction-without-digits", j.min(b.len())));
        }
        while matches!(at(j), Some(b'0'..=b'9')) {
            j += 1;
        }
        float = true;
    }
    if matches!(at(j), Some(b'e' | b'E')) {
        j += 1;
        if matches!(at(j), Some(b'+' | b'-')) {
            j += 1;
        }
        if !matches!(at(j), Some(b'0'..=b'9')) {
            return Err(lex_err("lexical:number-exponent-without-digits", j.min(b.len())));
        }
        while matches!(at(j), Some(b'0'..=b'9')) {
            j += 1;
        }
        float = true;
    }
    if let Some(n) = at(j) {
        if n == b'.' || is_name_start(n) || n.is_ascii_digit() {
            return Err(lex_err("lexical:number-followed-by-name-or-dot", j));
        }
    }
    *i = j;
    Ok(if float { K::Float } else { K::Int })
}

/// `"` StringCharacter* `"` on one line.
fn lex_string(s: &str, i: &mut usize, surrogate_escape: &mut bool) -> Result<(), RejectInfo> {
    let b = s.as_bytes();
    let start = *i;
    let mut j = start + 1;
    loop {
        let Some(&c) = b.get(j) else {
            return Err(lex_err("lexical:unterminated-string", start));
        };
        match c {
            b'"' => {
                j += 1;
                break;
            }
            b'\n' | b'\r' => return Err(lex_err("lexical:unterminated-string", start)),
            b'\\' => {
                j += 1;
                match b.get(j) {
                    Some(b'"' | b'\\' | b'/' | b'b' | b'f' | b'n' | b'r' | b't') => j += 1,
                    Some(b'u') => {
                        j += 1;
                        let mut v: u32 = 0;
                        for _ in 0..4 {
                            match b.get(j).and_then(|h| (*h as char).to_digit(16)) {
                                Some(d) => {
                                    v = v * 16 + d;
                                    j += 1;
                                }
                                None => return Err(lex_err("lexical:bad-unicode-escape", j.min(b.len()))),
                            }
                        }
                        if (0xD800..=0xDFFF).contains(&v) {
                            *surrogate_escape = true;
                        }
                    }
                    _ => return Err(lex_err("lexical:bad-escape", j.min(b.len()))),
                }
            }
            _ if c < 0x20 && c != b'\t' => {
                return Err(lex_err("lexical:control-character-in-string", j));
            }
            _ => j += 1, // bytes of multi-byte scalars are all >= 0x80
        }
    }
    *i = j;
    Ok(())
}

/// `"""` BlockStringCharacter* `"""`; `\"""` is the only escape.
fn lex_block_string(s: &str, i: &mut usize) -> Result<(), RejectInfo> {
    let b = s.as_bytes();
    let start = *i;
    let mut j = start + 3;
    loop {
        if j >= b.len() {
            return Err(lex_err("lexical:unterminated-block-string", start));
        }
        if b[j..].starts_with(b"\\\"\"\"") {
            j += 4;
        } else if b[j..].starts_with(b"\"\"\"") {
            j += 3;
            break;
        } else if b[j] < 0x20 && !matches!(b[j], b'\t' | b'\n' | b'\r') {
            return Err(lex_err("lexical:control-character-in-string", j));
        } else {
            j += 1;
        }
    }
    *i = j;
    Ok(())
}

// keep the char-level predicate used (documentation of the SourceCharacter choice)
#[allow(dead_code)]
fn source_character(c: char) -> bool {
    !is_forbidden_control(c)
}

// ---------------------------------------------------------------------------------------------
// recogniser (spec §2.2–§2.12, §3)
// ---------------------------------------------------------------------------------------------

const DIRECTIVE_LOCATIONS: &[&str] = &[
    // ExecutableDirectiveLocation
    "QUERY",
    "MUTATION",
    "SUBSCRIPTION",
    "FIELD",
    "FRAGMENT_DEFINITION",
    "FRAGMENT_SPREAD",
    "INLINE_FRAGMENT",
    "VARIABLE_DEFINITION",
    // TypeSystemDirectiveLocation
    "SCHEMA",
    "SCALAR",
    "OBJECT",
    "FIELD_DEFINITION",
    "ARGUMENT_DEFINITION",
    "INTERFACE",
    "UNION",
    "ENUM",
    "ENUM_VALUE",
    "INPUT_OBJECT",
    "INPUT_FIELD_DEFINITION",
];

type R<T = ()> = Result<T, RejectInfo>;

struct P<'a> {
    toks: &'a [Tok],
    src: &'a str,
    pos: usize,
    depth: usize,
    max_depth: usize,
    defs: Vec<DefInfo>,
}

impl<'a> P<'a> {
    fn new(l: &'a Lexed, src: &'a str) -> Self {
        P {
            toks: &l.toks,
            src,
            pos: 0,
            depth: 0,
            max_depth: 0,
            defs: Vec::new(),
        }
    }

    // ---- token access -----------------------------------------------------------------------

    fn cur(&self) -> Tok {
        self.toks[self.pos.min(self.toks.len() - 1)]
    }
    fn nth(&self, n: usize) -> Tok {
        self.toks[(self.pos + n).min(self.toks.len() - 1)]
    }
    fn text(&self, t: Tok) -> &'a str {
        &self.src[t.start..t.end]
    }
    fn bump(&mut self) -> Tok {
        let t = self.cur();
        if t.k != K::Eof {
            self.pos += 1;
        }
        t
    }
    fn at_eof(&self) -> bool {
        self.cur().k == K::Eof
    }
    fn at_punct(&self, c: u8) -> bool {
        self.cur().k == K::Punct(c)
    }
    fn at_spread(&self) -> bool {
        self.cur().k == K::Spread
    }
    fn at_any_name(&self) -> bool {
        self.cur().k == K::Name
    }
    fn at_name(&self, kw: &str) -> bool {
        let t = self.cur();
        t.k == K::Name && self.text(t) == kw
    }
    fn at_string(&self) -> bool {
        matches!(self.cur().k, K::Str | K::BlockStr)
    }
    fn prev_end(&self) -> usize {
        if self.pos == 0 {
            0
        } else {
            self.toks[self.pos - 1].end
        }
    }

    fn found(&self) -> &'static str {
        match self.cur().k {
            K::Eof => "eof",
            K::Bad(_) => "source-text",
            K::Name => "name",
            K::Int => "int",
            K::Float => "float",
            K::Str | K::BlockStr => "string",
            K::Spread => "...",
            K::Punct(c) => match c {
                b'!' => "!",
                b'$' => "$",
                b'&' => "&",
                b'(' => "(",
                b')' => ")",
                b':' => ":",
                b'=' => "=",
                b'@' => "@",
                b'[' => "[",
                b']' => "]",
                b'{' => "{",
                b'|' => "|",
                b'}' => "}",
                _ => "punct",
            },
        }
    }

    /// A failure at the current token. When that token is the lexical error, the lexical reason
    /// is what is reported (the grammar never got a token to judge).
    fn fail(&self, production: &'static str, reason: &'static str) -> RejectInfo {
        if let K::Bad(lexical) = self.cur().k {
            return lex_err(lexical, self.cur().start);
        }
        self.fail_raw(production, reason)
    }

    fn fail_raw(&self, production: &'static str, reason: &'static str) -> RejectInfo {
        RejectInfo {
            reason,
            production,
            offset: self.cur().start,
            found: self.found(),
        }
    }

    fn expect_punct(&mut self, c: u8, production: &'static str, reason: &'static str) -> R {
        if self.at_punct(c) {
            self.bump();
            Ok(())
        } else {
            Err(self.fail(production, reason))
        }
    }

    fn expect_name(&mut self, production: &'static str, reason: &'static str) -> R<Tok> {
        if self.at_any_name() {
            Ok(self.bump())
        } else {
            Err(self.fail(production, reason))
        }
    }

    fn expect_eof(&mut self, production: &'static str) -> R {
        if self.at_eof() {
            Ok(())
        } else {
            // anything left after a complete construct is trailing input, lexable or not
            Err(self.fail_raw(production, "trailing-tokens"))
        }
    }

    fn enter(&mut self, production: &'static str) -> R {
        self.depth += 1;
        if self.depth > self.max_depth {
            self.max_depth = self.depth;
        }
        if self.depth > MAX_DEPTH {
            return Err(self.fail(production, "oracle-depth-cap"));
        }
        Ok(())
    }
    fn leave(&mut self) {
        self.depth -= 1;
    }

    // ---- Document ---------------------------------------------------------------------------

    /// Document : Definition+
    fn document(&mut self) -> R {
        if self.at_eof() {
            return Err(self.fail("Document", "empty-document"));
        }
        while !self.at_eof() {
            self.definition()?;
        }
        Ok(())
    }

    fn push_def(&mut self, kind: DefKind, name: Option<Tok>, start: usize) {
        let name = name.map(|t| self.text(t).to_string());
        let end = self.prev_end();
        self.defs.push(DefInfo {
            kind,
            name,
            start,
            end,
        });
    }

    /// Definition : ExecutableDefinition | TypeSystemDefinition | TypeSystemExtension
    fn definition(&mut self) -> R {
        let start = self.cur().start;
        if self.at_string() {
            // Description? is only part of the TypeSystemDefinition productions (SchemaDefinition,
            // the six TypeDefinitions, DirectiveDefinition); never of executable definitions or
            // of extensions.
            let next = self.nth(1);
            if next.k == K::Name {
                match self.text(next) {
                    "schema" | "scalar" | "type" | "interface" | "union" | "enum" | "input"
                    | "directive" => {
                        self.bump(); // Description
                        return self.type_system_definition(start);
                    }
                    "query" | "mutation" | "subscription" | "fragment" | "extend" => {
                        return Err(self.fail("Definition", "description-not-allowed"));
                    }
                    _ => {}
                }
            } else if next.k == K::Punct(b'{') {
                return Err(self.fail("Definition", "description-not-allowed"));
            }
            return Err(self.fail("Definition", "description-without-definition"));
        }
        if self.at_punct(b'{') {
            // OperationDefinition : SelectionSet
            self.selection_set()?;
            self.push_def(DefKind::Operation, None, start);
            return Ok(());
        }
        if !self.at_any_name() {
            return Err(self.fail("Definition", "unexpected-token"));
        }
        match self.text(self.cur()) {
            "query" | "mutation" | "subscription" => self.operation_definition(start),
            "fragment" => self.fragment_definition(start),
            "extend" => self.type_system_extension(start),
            "schema" | "scalar" | "type" | "interface" | "union" | "enum" | "input" | "directive" => {
                self.type_system_definition(start)
            }
            _ => Err(self.fail("Definition", "unexpected-name")),
        }
    }

    // ---- Executable definitions -------------------------------------------------------------

    /// OperationDefinition : OperationType Name? VariableDefinitions? Directives? SelectionSet
    fn operation_definition(&mut self, start: usize) -> R {
        self.bump(); // OperationType
        let name = if self.at_any_name() { Some(self.bump()) } else { None };
        if self.at_punct(b'(') {
            self.variable_definitions()?;
        }
        self.directives(false, "Directives")?;
        if !self.at_punct(b'{') {
            return Err(self.fail("OperationDefinition", "expected-selection-set"));
        }
        self.selection_set()?;
        self.push_def(DefKind::Operation, name, start);
        Ok(())
    }

    /// VariableDefinitions : ( VariableDefinition+ )
    fn variable_definitions(&mut self) -> R {
        self.bump(); // (
        let mut n = 0;
        loop {
            if self.at_punct(b')') {
                if n == 0 {
                    return Err(self.fail("VariableDefinitions", "empty-list"));
                }
                self.bump();
                return Ok(());
            }
            if !self.at_punct(b'$') {
                return Err(self.fail("VariableDefinitions", "expected-variable-or-close"));
            }
            self.variable_definition()?;
            n += 1;
        }
    }

    /// VariableDefinition : Variable : Type DefaultValue? Directives[Const]?
    fn variable_definition(&mut self) -> R {
        self.bump(); // $
        self.expect_name("Variable", "expected-name")?;
        self.expect_punct(b':', "VariableDefinition", "expected-colon")?;
        self.ty("VariableDefinition")?;
        if self.at_punct(b'=') {
            self.default_value()?;
        }
        self.directives(true, "Directives[Const]")?;
        Ok(())
    }

    /// DefaultValue : = Value[Const]
    fn default_value(&mut self) -> R {
        self.bump(); // =
        self.value(true, "DefaultValue")
    }

    /// SelectionSet : { Selection+ }
    fn selection_set(&mut self) -> R {
        self.enter("SelectionSet")?;
        self.bump(); // {
        let mut n = 0;
        loop {
            if self.at_punct(b'}') {
                if n == 0 {
                    return Err(self.fail("SelectionSet", "empty-list"));
                }
                self.bump();
                break;
            }
            if !(self.at_spread() || self.at_any_name()) {
                return Err(self.fail("SelectionSet", "expected-selection-or-close"));
            }
            self.selection()?;
            n += 1;
        }
        self.leave();
        Ok(())
    }

    /// Selection : Field | FragmentSpread | InlineFragment
    fn selection(&mut self) -> R {
        if self.at_spread() {
            self.bump();
            if self.at_name("on") {
                // InlineFragment : ... TypeCondition? Directives? SelectionSet
                // (`on` cannot be a FragmentName, so `... on` always starts a TypeCondition)
                self.bump();
                self.expect_name("TypeCondition", "expected-name")?;
                self.directives(false, "Directives")?;
                if !self.at_punct(b'{') {
                    return Err(self.fail("InlineFragment", "expected-selection-set"));
                }
                self.selection_set()
            } else if self.at_any_name() {
                // FragmentSpread : ... FragmentName Directives?
                self.bump();
                self.directives(false, "Directives")?;
                Ok(())
            } else if self.at_punct(b'@') || self.at_punct(b'{') {
                self.directives(false, "Directives")?;
                if !self.at_punct(b'{') {
                    return Err(self.fail("InlineFragment", "expected-selection-set"));
                }
                self.selection_set()
            } else {
                Err(self.fail("Selection", "expected-fragment-after-spread"))
            }
        } else {
            self.field()
        }
    }

    /// Field : Alias? Name Arguments? Directives? SelectionSet?
    fn field(&mut self) -> R {
        self.expect_name("Field", "expected-name")?;
        if self.at_punct(b':') {
            self.bump();
            self.expect_name("Field", "expected-name-after-alias")?;
        }
        if self.at_punct(b'(') {
            self.arguments(false, "Arguments")?;
        }
        self.directives(false, "Directives")?;
        if self.at_punct(b'{') {
            self.selection_set()?;
        }
        Ok(())
    }

    /// Arguments[Const] : ( Argument[?Const]+ )      Argument[Const] : Name : Value[?Const]
    fn arguments(&mut self, konst: bool, ctx: &'static str) -> R {
        self.bump(); // (
        let mut n = 0;
        loop {
            if self.at_punct(b')') {
                if n == 0 {
                    return Err(self.fail("Arguments", "empty-list"));
                }
                self.bump();
                return Ok(());
            }
            if !self.at_any_name() {
                return Err(self.fail("Arguments", "expected-argument-or-close"));
            }
            self.bump();
            self.expect_punct(b':', "Argument", "expected-colon")?;
            self.value(konst, ctx)?;
            n += 1;
        }
    }

    /// FragmentDefinition : fragment FragmentName TypeCondition Directives? SelectionSet
    fn fragment_definition(&mut self, start: usize) -> R {
        self.bump(); // fragment
        if self.at_name("on") {
            return Err(self.fail("FragmentName", "reserved-name-on"));
        }
        let name = self.expect_name("FragmentName", "expected-name")?;
        if !self.at_name("on") {
            return Err(self.fail("TypeCondition", "expected-on"));
        }
        self.bump();
        self.expect_name("TypeCondition", "expected-name")?;
        self.directives(false, "Directives")?;
        if !self.at_punct(b'{') {
            return Err(self.fail("FragmentDefinition", "expected-selection-set"));
        }
        self.selection_set()?;
        self.push_def(DefKind::Fragment, Some(name), start);
        Ok(())
    }

    // ---- Values, types, directives ----------------------------------------------------------

    /// Value[Const]. `ctx` names the const/non-const context for the `variable-in-const` site.
    fn value(&mut self, konst: bool, ctx: &'static str) -> R {
        match self.cur().k {
            K::Punct(b'$') => {
                if konst {
                    return Err(self.fail(ctx, "variable-in-const"));
                }
                self.bump();
                self.expect_name("Variable", "expected-name")?;
                Ok(())
            }
            K::Int | K::Float | K::Str | K::BlockStr => {
                self.bump();
                Ok(())
            }
            // BooleanValue | NullValue | EnumValue: any Name is one of the three
            K::Name => {
                self.bump();
                Ok(())
            }
            K::Punct(b'[') => {
                // ListValue[Const] : [ ] | [ Value[?Const]+ ]
                self.enter("ListValue")?;
                self.bump();
                while !self.at_punct(b']') {
                    if self.at_eof() {
                        return Err(self.fail("ListValue", "expected-value-or-close"));
                    }
                    self.value(konst, ctx)?;
                }
                self.bump();
                self.leave();
                Ok(())
            }
            K::Punct(b'{') => {
                // ObjectValue[Const] : { } | { ObjectField[?Const]+ }
                self.enter("ObjectValue")?;
                self.bump();
                loop {
                    if self.at_punct(b'}') {
                        self.bump();
                        break;
                    }
                    if !self.at_any_name() {
                        return Err(self.fail("ObjectValue", "expected-field-or-close"));
                    }
                    self.bump();
                    self.expect_punct(b':', "ObjectField", "expected-colon")?;
                    self.value(konst, ctx)?;
                }
                self.leave();
                Ok(())
            }
            _ => Err(self.fail("Value", "expected-value")),
        }
    }

    /// Type : NamedType | ListType | NonNullType
    fn ty(&mut self, ctx: &'static str) -> R {
        if self.at_punct(b'[') {
            self.enter("ListType")?;
            self.bump();
            self.ty("ListType")?;
            self.expect_punct(b']', "ListType", "expected-close-bracket")?;
            self.leave();
        } else if self.at_any_name() {
            self.bump();
        } else {
            return Err(self.fail(ctx, "expected-type"));
        }
        if self.at_punct(b'!') {
            self.bump();
        }
        Ok(())
    }

    /// Directives[Const] : Directive[?Const]+       Directive[Const] : @ Name Arguments[?Const]?
    /// (called where the grammar says `Directives?`: zero directives is fine here)
    fn directives(&mut self, konst: bool, ctx: &'static str) -> R<usize> {
        let mut n = 0;
        while self.at_punct(b'@') {
            self.bump();
            self.expect_name("Directive", "expected-name")?;
            if self.at_punct(b'(') {
                self.arguments(konst, ctx)?;
            }
            n += 1;
        }
        Ok(n)
    }

    // ---- Type system ------------------------------------------------------------------------

    /// The current token is the keyword (a Description, if any, has been consumed).
    fn type_system_definition(&mut self, start: usize) -> R {
        let kw = self.text(self.cur());
        match kw {
            "schema" => {
                // SchemaDefinition : Description? schema Directives[Const]? { RootOperationTypeDefinition+ }
                self.bump();
                self.directives(true, "Directives[Const]")?;
                if !self.at_punct(b'{') {
                    return Err(self.fail("SchemaDefinition", "expected-open-brace"));
                }
                self.root_operation_types("SchemaDefinition")?;
                self.push_def(DefKind::Schema, None, start);
            }
            "scalar" => {
                // ScalarTypeDefinition : Description? scalar Name Directives[Const]?
                self.bump();
                let name = self.expect_name("ScalarTypeDefinition", "expected-name")?;
                self.directives(true, "Directives[Const]")?;
                self.push_def(DefKind::Scalar, Some(name), start);
            }
            "type" | "interface" => {
                // ObjectTypeDefinition / InterfaceTypeDefinition :
                //   Description? kw Name ImplementsInterfaces? Directives[Const]? FieldsDefinition
                //   Description? kw Name ImplementsInterfaces? Directives[Const]? [lookahead != {]
                let (kind, prod) = if kw == "type" {
                    (DefKind::Object, "ObjectTypeDefinition")
                } else {
                    (DefKind::Interface, "InterfaceTypeDefinition")
                };
                self.bump();
                let name = self.expect_name(prod, "expected-name")?;
                if self.at_name("implements") {
                    self.implements_interfaces()?;
                }
                self.directives(true, "Directives[Const]")?;
                if self.at_punct(b'{') {
                    self.fields_definition()?;
                }
                self.push_def(kind, Some(name), start);
            }
            "union" => {
                // UnionTypeDefinition : Description? union Name Directives[Const]? UnionMemberTypes?
                self.bump();
                let name = self.expect_name("UnionTypeDefinition", "expected-name")?;
                self.directives(true, "Directives[Const]")?;
                if self.at_punct(b'=') {
                    self.union_member_types()?;
                }
                self.push_def(DefKind::Union, Some(name), start);
            }
            "enum" => {
                self.bump();
                let name = self.expect_name("EnumTypeDefinition", "expected-name")?;
                self.directives(true, "Directives[Const]")?;
                if self.at_punct(b'{') {
                    self.enum_values_definition()?;
                }
                self.push_def(DefKind::Enum, Some(name), start);
            }
            "input" => {
                self.bump();
                let name = self.expect_name("InputObjectTypeDefinition", "expected-name")?;
                self.directives(true, "Directives[Const]")?;
                if self.at_punct(b'{') {
                    self.input_fields_definition()?;
                }
                self.push_def(DefKind::InputObject, Some(name), start);
            }
            "directive" => {
                // DirectiveDefinition :
                //   Description? directive @ Name ArgumentsDefinition? repeatable? on DirectiveLocations
                self.bump();
                self.expect_punct(b'@', "DirectiveDefinition", "expected-at")?;
                let name = self.expect_name("DirectiveDefinition", "expected-name")?;
                if self.at_punct(b'(') {
                    self.arguments_definition()?;
                }
                if self.at_name("repeatable") {
                    self.bump();
                }
                if !self.at_name("on") {
                    return Err(self.fail("DirectiveDefinition", "expected-on"));
                }
                self.bump();
                // DirectiveLocations : DirectiveLocations | DirectiveLocation   |   `|`? DirectiveLocation
                if self.at_punct(b'|') {
                    self.bump();
                }
                loop {
                    let t = self.cur();
                    if t.k != K::Name {
                        return Err(self.fail("DirectiveLocations", "expected-location"));
                    }
                    if !DIRECTIVE_LOCATIONS.contains(&self.text(t)) {
                        return Err(self.fail("DirectiveLocations", "unknown-location"));
                    }
                    self.bump();
                    if self.at_punct(b'|') {
                        self.bump();
                    } else {
                        break;
                    }
                }
                self.push_def(DefKind::Directive, Some(name), start);
            }
            _ => return Err(self.fail("Definition", "unexpected-name")),
        }
        Ok(())
    }

    /// `{ RootOperationTypeDefinition+ }`     RootOperationTypeDefinition : OperationType : NamedType
    fn root_operation_types(&mut self, prod: &'static str) -> R {
        self.bump(); // {
        let mut n = 0;
        loop {
            if self.at_punct(b'}') {
                if n == 0 {
                    return Err(self.fail(prod, "empty-list"));
                }
                self.bump();
                return Ok(());
            }
            if !(self.at_name("query") || self.at_name("mutation") || self.at_name("subscription")) {
                return Err(self.fail("RootOperationTypeDefinition", "expected-operation-type-or-close"));
            }
            self.bump();
            self.expect_punct(b':', "RootOperationTypeDefinition", "expected-colon")?;
            self.expect_name("RootOperationTypeDefinition", "expected-named-type")?;
            n += 1;
        }
    }

    /// ImplementsInterfaces : ImplementsInterfaces & NamedType | implements `&`? NamedType
    fn implements_interfaces(&mut self) -> R {
        self.bump(); // implements
        if self.at_punct(b'&') {
            self.bump();
        }
        loop {
            self.expect_name("ImplementsInterfaces", "expected-named-type")?;
            if self.at_punct(b'&') {
                self.bump();
            } else {
                return Ok(());
            }
        }
    }

    /// UnionMemberTypes : UnionMemberTypes | NamedType   |   = `|`? NamedType
    fn union_member_types(&mut self) -> R {
        self.bump(); // =
        if self.at_punct(b'|') {
            self.bump();
        }
        loop {
            self.expect_name("UnionMemberTypes", "expected-named-type")?;
            if self.at_punct(b'|') {
                self.bump();
            } else {
                return Ok(());
            }
        }
    }

    /// FieldsDefinition : { FieldDefinition+ }
    /// FieldDefinition : Description? Name ArgumentsDefinition? : Type Directives[Const]?
    fn fields_definition(&mut self) -> R {
        self.bump(); // {
        let mut n = 0;
        loop {
            if self.at_punct(b'}') {
                if n == 0 {
                    return Err(self.fail("FieldsDefinition", "empty-list"));
                }
                self.bump();
                return Ok(());
            }
            if self.at_string() {
                self.bump();
                self.expect_name("FieldDefinition", "expected-name-after-description")?;
            } else if self.at_any_name() {
                self.bump();
            } else {
                return Err(self.fail("FieldsDefinition", "expected-field-or-close"));
            }
            if self.at_punct(b'(') {
                self.arguments_definition()?;
            }
            self.expect_punct(b':', "FieldDefinition", "expected-colon")?;
            self.ty("FieldDefinition")?;
            self.directives(true, "Directives[Const]")?;
            n += 1;
        }
    }

    /// ArgumentsDefinition : ( InputValueDefinition+ )
    fn arguments_definition(&mut self) -> R {
        self.bump(); // (
        let mut n = 0;
        loop {
            if self.at_punct(b')') {
                if n == 0 {
                    return Err(self.fail("ArgumentsDefinition", "empty-list"));
                }
                self.bump();
                return Ok(());
            }
            if !(self.at_string() || self.at_any_name()) {
                return Err(self.fail("ArgumentsDefinition", "expected-input-value-or-close"));
            }
            self.input_value_definition()?;
            n += 1;
        }
    }

    /// InputFieldsDefinition : { InputValueDefinition+ }
    fn input_fields_definition(&mut self) -> R {
        self.bump(); // {
        let mut n = 0;
        loop {
            if self.at_punct(b'}') {
                if n == 0 {
                    return Err(self.fail("InputFieldsDefinition", "empty-list"));
                }
                self.bump();
                return Ok(());
            }
            if !(self.at_string() || self.at_any_name()) {
                return Err(self.fail("InputFieldsDefinition", "expected-input-value-or-close"));
            }
            self.input_value_definition()?;
            n += 1;
        }
    }

    /// InputValueDefinition : Description? Name : Type DefaultValue? Directives[Const]?
    fn input_value_definition(&mut self) -> R {
        if self.at_string() {
            self.bump();
            self.expect_name("InputValueDefinition", "expected-name-after-description")?;
        } else {
            self.expect_name("InputValueDefinition", "expected-name")?;
        }
        self.expect_punct(b':', "InputValueDefinition", "expected-colon")?;
        self.ty("InputValueDefinition")?;
        if self.at_punct(b'=') {
            self.default_value()?;
        }
        self.directives(true, "Directives[Const]")?;
        Ok(())
    }

    /// EnumValuesDefinition : { EnumValueDefinition+ }
    /// EnumValueDefinition : Description? EnumValue Directives[Const]?
    /// EnumValue : Name but not `true` or `false` or `null`
    fn enum_values_definition(&mut self) -> R {
        self.bump(); // {
        let mut n = 0;
        loop {
            if self.at_punct(b'}') {
                if n == 0 {
                    return Err(self.fail("EnumValuesDefinition", "empty-list"));
                }
                self.bump();
                return Ok(());
            }
            if self.at_string() {
                self.bump();
                if !self.at_any_name() {
                    return Err(self.fail("EnumValueDefinition", "expected-name-after-description"));
                }
            } else if !self.at_any_name() {
                return Err(self.fail("EnumValuesDefinition", "expected-enum-value-or-close"));
            }
            if matches!(self.text(self.cur()), "true" | "false" | "null") {
                return Err(self.fail("EnumValueDefinition", "reserved-enum-value"));
            }
            self.bump();
            self.directives(true, "Directives[Const]")?;
            n += 1;
        }
    }

    /// TypeSystemExtension : SchemaExtension | TypeExtension — every alternative must add something.
    fn type_system_extension(&mut self, start: usize) -> R {
        self.bump(); // extend
        if !self.at_any_name() {
            return Err(self.fail("TypeSystemExtension", "expected-extension-keyword"));
        }
        let kw = self.text(self.cur());
        match kw {
            "schema" => {
                // SchemaExtension :
                //   extend schema Directives[Const]? { RootOperationTypeDefinition+ }
                //   extend schema Directives[Const] [lookahead != {]
                self.bump();
                let nd = self.directives(true, "Directives[Const]")?;
                if self.at_punct(b'{') {
                    self.root_operation_types("SchemaExtension")?;
                } else if nd == 0 {
                    return Err(self.fail("SchemaExtension", "extension-adds-nothing"));
                }
                self.push_def(DefKind::SchemaExtension, None, start);
            }
            "scalar" => {
                // ScalarTypeExtension : extend scalar Name Directives[Const]
                self.bump();
                let name = self.expect_name("ScalarTypeExtension", "expected-name")?;
                if self.directives(true, "Directives[Const]")? == 0 {
                    return Err(self.fail("ScalarTypeExtension", "extension-adds-nothing"));
                }
                self.push_def(DefKind::ScalarExtension, Some(name), start);
            }
            "type" | "interface" => {
                let (kind, prod) = if kw == "type" {
                    (DefKind::ObjectExtension, "ObjectTypeExtension")
                } else {
                    (DefKind::InterfaceExtension, "InterfaceTypeExtension")
                };
                self.bump();
                let name = self.expect_name(prod, "expected-name")?;
                let mut adds = false;
                if self.at_name("implements") {
                    self.implements_interfaces()?;
                    adds = true;
                }
                if self.directives(true, "Directives[Const]")? > 0 {
                    adds = true;
                }
                if self.at_punct(b'{') {
                    self.fields_definition()?;
                    adds = true;
                }
                if !adds {
                    return Err(self.fail(prod, "extension-adds-nothing"));
                }
                self.push_def(kind, Some(name), start);
            }
            "union" => {
                self.bump();
                let name = self.expect_name("UnionTypeExtension", "expected-name")?;
                let mut adds = self.directives(true, "Directives[Const]")? > 0;
                if self.at_punct(b'=') {
                    self.union_member_types()?;
                    adds = true;
                }
                if !adds {
                    return Err(self.fail("UnionTypeExtension", "extension-adds-nothing"));
                }
                self.push_def(DefKind::UnionExtension, Some(name), start);
            }
            "enum" => {
                self.bump();
                let name = self.expect_name("EnumTypeExtension", "expected-name")?;
                let mut adds = self.directives(true, "Directives[Const]")? > 0;
                if self.at_punct(b'{') {
                    self.enum_values_definition()?;
                    adds = true;
                }
                if !adds {
                    return Err(self.fail("EnumTypeExtension", "extension-adds-nothing"));
                }
                self.push_def(DefKind::EnumExtension, Some(name), start);
            }
            "input" => {
                self.bump();
                let name = self.expect_name("InputObjectTypeExtension", "expected-name")?;
                let mut adds = self.directives(true, "Directives[Const]")? > 0;
                if self.at_punct(b'{') {
                    self.input_fields_definition()?;
                    adds = true;
                }
                if !adds {
                    return Err(self.fail("InputObjectTypeExtension", "extension-adds-nothing"));
                }
                self.push_def(DefKind::InputObjectExtension, Some(name), start);
            }
            _ => return Err(self.fail("TypeSystemExtension", "expected-extension-keyword")),
        }
        Ok(())
    }
}

// ---------------------------------------------------------------------------------------------
// self-checks against the spec text (hand-judged; not derived from apollo-rs)
// ---------------------------------------------------------------------------------------------

#[cfg(test)]
mod tests {
    use super::*;

    fn ok(s: &str) -> Vec<(DefKind, Option<String>)> {
        RefGrammar::accepts_document(s).unwrap_or_else(|e| panic!("{s:?} rejected: {e:?}"))
    }
    fn no(s: &str) -> RejectInfo {
        match RefGrammar::accepts_document(s) {
            Ok(_) => panic!("{s:?} accepted"),
            Err(e) => e,
        }
    }

    #[test]
    fn accepts() {
        for s in [
            "{ a }",
            "query { a }",
            "query Q($v: [Int!]! = [1, 2] @d(x: 1)) @d { a(x: $v) ... F @d ... on T { b } ... @d { c } ... { d } }",
            "fragment F on T @d { a }",
            "fragment fragment on on { on }",
            "{ ... on on { a } }",
            "\"d\" schema @d { query: Q mutation: M }",
            "scalar S scalar S @d",
            "\"\"\"d\"\"\" type T implements & A & B @d { \"d\" f(\"d\" a: Int = 1 @d, b: [T]): T! @d g: Int }",
            "type T",
            "type T implements A",
            "interface I implements A & B { f: Int }",
            "union U union U @d union U = A union U = | A | B",
            "enum E enum E @d enum E { A \"d\" B @d }",
            "input I input I @d { a: Int = {k: [1, \"s\", true, null, E, 1.5e3]} @d }",
            "directive @d on FIELD",
            "\"d\" directive @d(a: Int) repeatable on | FIELD | QUERY",
            "extend schema @d",
            "extend schema { query: Q }",
            "extend schema @d { query: Q }",
            "extend scalar S @d",
            "extend type T implements A",
            "extend type T @d",
            "extend type T { f: Int }",
            "extend interface I implements A extend interface I @d extend interface I { f: Int }",
            "extend union U @d extend union U = A",
            "extend enum E @d extend enum E { A }",
            "extend input I @d extend input I { a: Int }",
            "scalar S { a }",
            "\u{FEFF}{ a, b,,, }# c",
            "{ a(x: \"\\u00e9 \\n\") b(x: \"\"\"a \\\"\"\" b\"\"\") c(x: -0.5E+7, y: -0, z: {}) d(x: []) }",
            "{ a(on: true, null: null, true: false) }",
            "query query { query } mutation mutation { m } subscription on { s }",
        ] {
            ok(s);
        }
        assert_eq!(
            ok("type T { a: Int } query Q { a } { b } extend schema @d directive @x on FIELD fragment F on T { a }"),
            vec![
                (DefKind::Object, Some("T".into())),
                (DefKind::Operation, Some("Q".into())),
                (DefKind::Operation, None),
                (DefKind::SchemaExtension, None),
                (DefKind::Directive, Some("x".into())),
                (DefKind::Fragment, Some("F".into())),
            ]
        );
    }

    #[test]
    fn rejects() {
        for (s, site) in [
            ("", "Document|empty-document"),
            (" # c\n,", "Document|empty-document"),
            ("{ }", "SelectionSet|empty-list"),
            ("query Q", "OperationDefinition|expected-selection-set"),
            ("query Q() { a }", "VariableDefinitions|empty-list"),
            ("{ a() }", "Arguments|empty-list"),
            ("{ a(x) }", "Argument|expected-colon"),
            ("{ a(x: {k}) }", "ObjectField|expected-colon"),
            ("{ a @d() }", "Arguments|empty-list"),
            ("query ($v: Int = $w) { a }", "DefaultValue|variable-in-const"),
            ("query ($v: Int @d(x: $w)) { a }", "Directives[Const]|variable-in-const"),
            ("type T @d(x: [$w]) { a: Int }", "Directives[Const]|variable-in-const"),
            ("fragment on on T { a }", "FragmentName|reserved-name-on"),
            ("fragment F T { a }", "TypeCondition|expected-on"),
            ("fragment F on T", "FragmentDefinition|expected-selection-set"),
            ("{ ... on { a } }", "TypeCondition|expected-name"),
            ("{ ... }", "Selection|expected-fragment-after-spread"),
            ("{ ... @d }", "InlineFragment|expected-selection-set"),
            ("\"d\" query { a }", "Definition|description-not-allowed"),
            ("\"d\" { a }", "Definition|description-not-allowed"),
            ("\"d\" fragment on T { a }", "Definition|description-not-allowed"),
            ("\"d\" extend type T @d", "Definition|description-not-allowed"),
            ("\"d\"", "Definition|description-without-definition"),
            ("schema", "SchemaDefinition|expected-open-brace"),
            ("schema @d", "SchemaDefinition|expected-open-brace"),
            ("schema { }", "SchemaDefinition|empty-list"),
            ("schema { query: }", "RootOperationTypeDefinition|expected-named-type"),
            ("schema { foo: Q }", "RootOperationTypeDefinition|expected-operation-type-or-close"),
            ("extend schema", "SchemaExtension|extension-adds-nothing"),
            ("extend schema @d { }", "SchemaExtension|empty-list"),
            ("extend scalar S", "ScalarTypeExtension|extension-adds-nothing"),
            ("extend type T", "ObjectTypeExtension|extension-adds-nothing"),
            ("extend interface I", "InterfaceTypeExtension|extension-adds-nothing"),
            ("extend union U", "UnionTypeExtension|extension-adds-nothing"),
            ("extend enum E", "EnumTypeExtension|extension-adds-nothing"),
            ("extend input I", "InputObjectTypeExtension|extension-adds-nothing"),
            ("extend foo", "TypeSystemExtension|expected-extension-keyword"),
            ("type T { }", "FieldsDefinition|empty-list"),
            ("type T { a }", "FieldDefinition|expected-colon"),
            ("type T { a() : Int }", "ArgumentsDefinition|empty-list"),
            ("type T implements { a: Int }", "ImplementsInterfaces|expected-named-type"),
            ("type T implements A B { a: Int }", "Definition|unexpected-name"),
            ("type T { a: Int!! }", "FieldsDefinition|expected-field-or-close"),
            ("type T { a: [] }", "ListType|expected-type"),
            ("union U =", "UnionMemberTypes|expected-named-type"),
            ("enum E { }", "EnumValuesDefinition|empty-list"),
            ("enum E { true }", "EnumValueDefinition|reserved-enum-value"),
            ("input I { }", "InputFieldsDefinition|empty-list"),
            ("directive @d FIELD", "DirectiveDefinition|expected-on"),
            ("directive @d on", "DirectiveLocations|expected-location"),
            ("directive @d on FOO", "DirectiveLocations|unknown-location"),
            ("directive d on FIELD", "DirectiveDefinition|expected-at"),
            ("foo", "Definition|unexpected-name"),
            ("{ a } }", "Definition|unexpected-token"),
            ("{ a(x: 1.) }", "Token|lexical:number-fraction-without-digits"),
            ("{ a(x: 01) }", "Token|lexical:number-leading-zero"),
            ("{ a(x: 1a) }", "Token|lexical:number-followed-by-name-or-dot"),
            ("{ a(x: \"a\nb\") }", "Token|lexical:unterminated-string"),
            ("{ a(x: \"\\q\") }", "Token|lexical:bad-escape"),
            ("{ a(x: \"\\u12\") }", "Token|lexical:bad-unicode-escape"),
            ("{ a .. }", "Token|lexical:stray-dot"),
            ("{ é }", "Token|lexical:non-ascii-outside-string-or-comment"),
            ("{ a } \"\"\"x", "Token|lexical:unterminated-block-string"),
        ] {
            assert_eq!(no(s).site(), site, "input {s:?}");
        }
    }

    #[test]
    fn types_and_field_sets() {
        for s in ["Int", " Int! ", "[Int]", "[[Int!]!]!", "# c\n[ T , ] !", "on"] {
            assert!(RefGrammar::accepts_type(s), "{s:?}");
        }
        for s in ["", "Int!!", "Int ]] x", "[Int", "[]", "Int Int", "!", "$Int", "[Int]]", "Int é"] {
            assert!(!RefGrammar::accepts_type(s), "{s:?}");
        }
        assert_eq!(RefGrammar::check_type("Int!!").unwrap_err().reason, "trailing-tokens");
        for s in ["a", "{ a }", "a b", "a { b }", "a { b } c", "{ a { b } ... on T { c } }", "a(x: 1) @d", "... F"] {
            assert!(RefGrammar::accepts_field_set(s), "{s:?}");
        }
        for s in ["", "{ }", "a } b", "{ a } b", "{ a } { b }", "a {", "{ a", "} a", "1", "a 1", "$a", "a(x: $)"] {
            assert!(!RefGrammar::accepts_field_set(s), "{s:?}");
        }
        assert_eq!(RefGrammar::check_field_set("a } b").unwrap_err().reason, "trailing-tokens");
        assert_eq!(RefGrammar::check_field_set("{ a } b").unwrap_err().reason, "trailing-tokens");
    }
}
