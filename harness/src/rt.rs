//! Monitor runtime: per-worker context (counters, coverage classes, samples, violations),
//! panic capture, small-stack execution, in-flight case file, thread CPU time.

use crate::prng::{fnv64, Rng};
use serde_json::{json, Map, Value};
use std::cell::RefCell;
use std::collections::{BTreeMap, BTreeSet, HashSet};
use std::io::{Seek, SeekFrom, Write};
use std::panic::{catch_unwind, AssertUnwindSafe};
use std::time::{Duration, Instant};

#[derive(Clone, Copy, PartialEq, Eq, Debug)]
pub enum Tier {
    Quick,
    Thorough,
}

#[derive(Clone, Debug)]
pub struct Violation {
    pub signature: String,
    pub message: String,
    pub case: Value,
    pub count: u64,
}

#[derive(Clone, Debug)]
pub struct PanicReport {
    pub message: String,
    pub file: String,
    pub line: u32,
}

impl PanicReport {
    /// Signature: file (path under the repository, line numbers dropped) + message with digits
    /// masked and backtick/quote-delimited payloads dropped.
    pub fn signature(&self, entry: &str) -> String {
        format!(
            "panic|{}|{}|{}",
            entry,
            short_file(&self.file),
            mask_message(&self.message)
        )
    }
}

pub fn short_file(f: &str) -> String {
    if let Some(i) = f.find("/crates/") {
        return f[i + 1..].to_string();
    }
    if let Some(i) = f.find("/registry/src/") {
        let rest = &f[i + 14..];
        if let Some(j) = rest.find('/') {
            return rest[j + 1..].to_string();
        }
    }
    f.to_string()
}

pub fn mask_message(m: &str) -> String {
    // digits masked, payloads between backticks or single quotes dropped (they quote input text)
    let mut out = String::new();
    let mut last_hash = false;
    let mut in_tick = false;
    let mut in_quote = false;
    for c in m.chars() {
        if c == '`' && !in_quote {
            in_tick = !in_tick;
            out.push('`');
            continue;
        }
        if c == '\'' && !in_tick {
            in_quote = !in_quote;
            out.push('\'');
            continue;
        }
        if in_tick || in_quote {
            continue;
        }
        if c.is_ascii_digit() {
            if !last_hash {
                out.push('#');
                last_hash = true;
            }
        } else {
            last_hash = false;
            if c == '\n' {
                out.push(' ');
            } else {
                out.push(c);
            }
        }
        if out.len() >= 140 {
            break;
        }
    }
    out
}

thread_local! {
    static LAST_PANIC: RefCell<Option<PanicReport>> = const { RefCell::new(None) };
}

/// Install a quiet panic hook that records message and location per thread.
pub fn install_panic_hook() {
    std::panic::set_hook(Box::new(|info| {
        let message = if let Some(s) = info.payload().downcast_ref::<&str>() {
            s.to_string()
        } else if let Some(s) = info.payload().downcast_ref::<String>() {
            s.clone()
        } else {
            "<non-string panic payload>".to_string()
        };
        let (file, line) = info
            .location()
            .map(|l| (l.file().to_string(), l.line()))
            .unwrap_or_default();
        LAST_PANIC.with(|p| {
            *p.borrow_mut() = Some(PanicReport {
                message,
                file,
                line,
            })
        });
    }));
}

/// Run `f`, converting a panic into a `PanicReport`.
pub fn catch<T>(f: impl FnOnce() -> T) -> Result<T, PanicReport> {
    LAST_PANIC.with(|p| *p.borrow_mut() = None);
    match catch_unwind(AssertUnwindSafe(f)) {
        Ok(v) => Ok(v),
        Err(_) => Err(LAST_PANIC
            .with(|p| p.borrow_mut().take())
            .unwrap_or(PanicReport {
                message: "<panic without hook record>".into(),
                file: String::new(),
                line: 0,
            })),
    }
}

/// Run `f` on a fresh thread with the given stack size (2 MiB = Rust's default for spawned
/// threads, the smallest default stack a user gets), catching panics inside that thread.
pub fn on_stack<T: Send>(bytes: usize, f: impl FnOnce() -> T + Send) -> Result<T, PanicReport> {
    std::thread::scope(|s| {
        let h = std::thread::Builder::new()
            .stack_size(bytes)
            .spawn_scoped(s, move || catch(f))
            .expect("spawn");
        match h.join() {
            Ok(r) => r,
            Err(_) => Err(PanicReport {
                message: "<thread join failed>".into(),
                file: String::new(),
                line: 0,
            }),
        }
    })
}

pub const SMALL_STACK: usize = 2 * 1024 * 1024;
pub const NONTRIVIAL_HASH_CAP: usize = 200_000;

pub fn thread_cpu_ns() -> u64 {
    let mut ts = libc::timespec {
        tv_sec: 0,
        tv_nsec: 0,
    };
    unsafe {
        libc::clock_gettime(libc::CLOCK_THREAD_CPUTIME_ID, &mut ts);
    }
    ts.tv_sec as u64 * 1_000_000_000 + ts.tv_nsec as u64
}

pub struct Ctx {
    pub prop: String,
    pub tier: Tier,
    pub seed: u64,
    pub shard: u64,
    pub nshards: u64,
    pub rng: Rng,
    start: Instant,
    budget: Duration,
    pub evals: u64,
    nontrivial: HashSet<u64>,
    samples: Vec<Value>,
    sample_seen: u64,
    counters: BTreeMap<String, u64>,
    classes: BTreeMap<String, BTreeSet<String>>,
    violations: BTreeMap<String, Violation>,
    inconclusive: Vec<Value>,
    inflight: Option<std::fs::File>,
    notes: BTreeMap<String, Value>,
    pub replay_mode: bool,
}

impl Ctx {
    pub fn new(
        prop: &str,
        tier: Tier,
        seed: u64,
        shard: u64,
        nshards: u64,
        budget_s: f64,
        inflight_path: Option<&str>,
    ) -> Self {
        let inflight = inflight_path.map(|p| {
            std::fs::OpenOptions::new()
                .create(true)
                .write(true)
                .truncate(true)
                .open(p)
                .expect("open inflight")
        });
        Ctx {
            prop: prop.to_string(),
            tier,
            seed,
            shard,
            nshards,
            rng: Rng::derive(seed, prop, shard, 0),
            start: Instant::now(),
            budget: Duration::from_secs_f64(budget_s),
            evals: 0,
            nontrivial: HashSet::new(),
            samples: Vec::new(),
            sample_seen: 0,
            counters: BTreeMap::new(),
            classes: BTreeMap::new(),
            violations: BTreeMap::new(),
            inconclusive: Vec::new(),
            inflight,
            notes: BTreeMap::new(),
            replay_mode: false,
        }
    }

    pub fn quick(&self) -> bool {
        self.tier == Tier::Quick
    }

    /// Fraction of the time budget used so far.
    pub fn used(&self) -> f64 {
        self.start.elapsed().as_secs_f64() / self.budget.as_secs_f64().max(1e-9)
    }

    pub fn time_up(&self) -> bool {
        self.start.elapsed() >= self.budget
    }

    /// True while less than `frac` of the budget is used. Phases use increasing fractions.
    pub fn until(&self, frac: f64) -> bool {
        self.used() < frac
    }

    /// A fresh PRNG stream for sub-generator `label`, case `n`.
    pub fn sub_rng(&self, label: &str, n: u64) -> Rng {
        Rng::derive(self.seed ^ fnv64(self.prop.as_bytes()), label, self.shard, n)
    }

    /// Does enumeration index `i` belong to this shard?
    pub fn mine(&self, i: u64) -> bool {
        i % self.nshards == self.shard
    }

    pub fn eval(&mut self) {
        self.evals += 1;
    }

    /// Distinct non-trivial cases are de-duplicated by hash; at most `NONTRIVIAL_HASH_CAP` hashes
    /// are kept per worker (the orchestrator unions them across workers), further ones are only
    /// counted in `nontrivial_cases_not_hashed_over_cap`, so `distinct_nontrivial` is a lower bound.
    pub fn nontrivial_hash(&mut self, h: u64) {
        if self.nontrivial.len() < NONTRIVIAL_HASH_CAP {
            self.nontrivial.insert(h);
        } else if !self.nontrivial.contains(&h) {
            *self.counters.entry("nontrivial_cases_not_hashed_over_cap".to_string()).or_insert(0) += 1;
        }
    }

    pub fn nontrivial(&mut self, s: &str) {
        self.nontrivial_hash(fnv64(s.as_bytes()));
    }

    pub fn count(&mut self, key: &str, n: u64) {
        *self.counters.entry(key.to_string()).or_insert(0) += n;
    }

    pub fn count_max(&mut self, key: &str, n: u64) {
        let e = self.counters.entry(format!("max:{key}")).or_insert(0);
        if n > *e {
            *e = n;
        }
    }

    pub fn class(&mut self, set: &str, member: &str) {
        let s = self.classes.entry(set.to_string()).or_default();
        if s.len() < 4096 {
            s.insert(member.to_string());
        }
    }

    pub fn class_len(&self, set: &str) -> usize {
        self.classes.get(set).map(|s| s.len()).unwrap_or(0)
    }

    pub fn has_class(&self, set: &str, member: &str) -> bool {
        self.classes
            .get(set)
            .map(|s| s.contains(member))
            .unwrap_or(false)
    }

    pub fn note(&mut self, key: &str, v: Value) {
        self.notes.insert(key.to_string(), v);
    }

    /// Keep a few actual cases for the evidence file (first 3, then reservoir up to 8).
    pub fn sample(&mut self, v: impl FnOnce() -> Value) {
        self.sample_seen += 1;
        if self.samples.len() < 3 {
            self.samples.push(v());
        } else if self.sample_seen.is_power_of_two() && self.samples.len() < 8 {
            self.samples.push(v());
        } else if self.sample_seen.is_power_of_two() {
            let i = 3 + (self.sample_seen.trailing_zeros() as usize % 5);
            self.samples[i] = v();
        }
    }

    pub fn violation(&mut self, signature: impl Into<String>, message: impl Into<String>, case: Value) {
        let signature = signature.into();
        let message = message.into();
        let size = case.to_string().len();
        match self.violations.get_mut(&signature) {
            Some(v) => {
                v.count += 1;
                if size < v.case.to_string().len() {
                    v.case = case;
                    v.message = message;
                }
            }
            None => {
                if self.violations.len() < 200 {
                    self.violations.insert(
                        signature.clone(),
                        Violation {
                            signature,
                            message,
                            case,
                            count: 1,
                        },
                    );
                } else {
                    self.count("violations_dropped_over_200_signatures", 1);
                }
            }
        }
    }

    pub fn violation_count(&self) -> usize {
        self.violations.len()
    }

    pub fn inconclusive(&mut self, why: &str, case: Value) {
        self.count("inconclusive", 1);
        if self.inconclusive.len() < 20 {
            self.inconclusive.push(json!({"why": why, "case": case}));
        }
    }

    /// Record the case about to run so that a crash of the whole process (stack overflow,
    /// allocation abort) can be attributed by the orchestrator.
    pub fn inflight(&mut self, kind: &str, bytes: &[u8]) {
        if let Some(f) = self.inflight.as_mut() {
            let _ = f.seek(SeekFrom::Start(0));
            let mut buf = Vec::with_capacity(bytes.len() + kind.len() + 16);
            buf.extend_from_slice(&(kind.len() as u32).to_le_bytes());
            buf.extend_from_slice(&(bytes.len() as u32).to_le_bytes());
            buf.extend_from_slice(kind.as_bytes());
            buf.extend_from_slice(bytes);
            let _ = f.write_all(&buf);
        }
    }

    pub fn finish(self, out: &str) {
        let mut hashes: Vec<u8> = Vec::with_capacity(self.nontrivial.len() * 8);
        for h in &self.nontrivial {
            hashes.extend_from_slice(&h.to_le_bytes());
        }
        std::fs::write(format!("{out}.hashes"), hashes).expect("write hashes");
        let mut classes = Map::new();
        for (k, v) in &self.classes {
            classes.insert(k.clone(), json!(v.iter().collect::<Vec<_>>()));
        }
        let violations: Vec<Value> = self
            .violations
            .values()
            .map(|v| {
                json!({"signature": v.signature, "message": v.message, "case": v.case, "count": v.count})
            })
            .collect();
        let v = json!({
            "prop": self.prop,
            "shard": self.shard,
            "evaluations": self.evals,
            "distinct_nontrivial_local": self.nontrivial.len(),
            "samples": self.samples,
            "counters": self.counters,
            "classes": classes,
            "violations": violations,
            "inconclusive": self.inconclusive,
            "notes": self.notes,
            "wall_s": self.start.elapsed().as_secs_f64(),
        });
        std::fs::write(out, serde_json::to_string(&v).unwrap()).expect("write out");
    }
}

/// Truncate a string for evidence/diagnostic output on a char boundary.
pub fn clip(s: &str, n: usize) -> String {
    if s.len() <= n {
        return s.to_string();
    }
    let mut e = n;
    while !s.is_char_boundary(e) {
        e -= 1;
    }
    format!("{}…(+{} bytes)", &s[..e], s.len() - e)
}
