//! Corpora read from /repo at run time. Used as seeds and calibration sets, never as expected output.

use std::path::{Path, PathBuf};

#[derive(Clone, Debug)]
pub struct CorpusFile {
    pub group: &'static str,
    pub name: String,
    pub text: String,
}

pub fn repo_root() -> PathBuf {
    PathBuf::from(std::env::var("VERIF_REPO").unwrap_or_else(|_| "/repo".to_string()))
}

const GROUPS: &[(&str, &str)] = &[
    ("lexer_ok", "crates/apollo-parser/test_data/lexer/ok"),
    ("lexer_err", "crates/apollo-parser/test_data/lexer/err"),
    ("parser_ok", "crates/apollo-parser/test_data/parser/ok"),
    ("parser_err", "crates/apollo-parser/test_data/parser/err"),
    ("compiler_ok", "crates/apollo-compiler/test_data/ok"),
    ("compiler_diag", "crates/apollo-compiler/test_data/diagnostics"),
    ("compiler_ser", "crates/apollo-compiler/test_data/serializer"),
    ("compiler_introspection", "crates/apollo-compiler/test_data/introspection"),
    ("examples_parser", "crates/apollo-parser/examples"),
    ("examples_compiler", "crates/apollo-compiler/examples"),
    ("examples_compiler_docs", "crates/apollo-compiler/examples/documents"),
    ("examples_smith", "crates/apollo-smith/examples"),
];

fn read_dir(group: &'static str, dir: &Path, out: &mut Vec<CorpusFile>) {
    let Ok(rd) = std::fs::read_dir(dir) else {
        return;
    };
    let mut names: Vec<PathBuf> = rd.filter_map(|e| e.ok().map(|e| e.path())).collect();
    names.sort();
    for p in names {
        if p.extension().and_then(|e| e.to_str()) != Some("graphql") {
            continue;
        }
        if let Ok(text) = std::fs::read_to_string(&p) {
            out.push(CorpusFile {
                group,
                name: p.file_name().unwrap().to_string_lossy().to_string(),
                text,
            });
        }
    }
}

/// All corpus files, in a deterministic order.
pub fn all() -> Vec<CorpusFile> {
    let root = repo_root();
    let mut out = Vec::new();
    for (g, d) in GROUPS {
        read_dir(g, &root.join(d), &mut out);
    }
    out
}

pub fn group(files: &[CorpusFile], g: &str) -> Vec<CorpusFile> {
    files.iter().filter(|f| f.group == g).cloned().collect()
}
