//! Worker binary: `vrun <Cxx> --tier T --seed S --shard i/n --budget-s B --out FILE [--inflight FILE] [--replay FILE] [--mode M | --miri]`

use serde_json::Value;
use vharness::monitors;
use vharness::rt::{self, Ctx, Tier};

fn main() {
    let args: Vec<String> = std::env::args().collect();
    if args.len() < 2 {
        eprintln!("usage: vrun <property> [--tier quick|thorough] [--seed N] [--shard i/n] [--budget-s S] --out FILE [--inflight FILE] [--replay FILE]");
        std::process::exit(2);
    }
    let prop = args[1].clone();
    if prop == "--list" {
        for (n, _, _) in monitors::REGISTRY {
            println!("{n}");
        }
        return;
    }
    let mut tier = Tier::Quick;
    let mut seed = 1u64;
    let mut shard = 0u64;
    let mut nshards = 1u64;
    let mut budget = 20.0f64;
    let mut out = String::from("/dev/null");
    let mut inflight: Option<String> = None;
    let mut replay: Option<String> = None;
    let mut stack_mb = 64usize;
    let mut mode = String::new();
    let mut i = 2;
    while i < args.len() {
        let a = args[i].as_str();
        let v = args.get(i + 1).cloned().unwrap_or_default();
        match a {
            "--tier" => tier = if v == "thorough" { Tier::Thorough } else { Tier::Quick },
            "--seed" => seed = v.parse().expect("seed"),
            "--shard" => {
                let (a, b) = v.split_once('/').expect("shard i/n");
                shard = a.parse().unwrap();
                nshards = b.parse().unwrap();
            }
            "--budget-s" => budget = v.parse().expect("budget"),
            "--out" => out = v,
            "--inflight" => inflight = Some(v),
            "--replay" => replay = Some(v),
            "--stack-mb" => stack_mb = v.parse().expect("stack"),
            "--mode" => mode = v,
            // flag without a value: the tiny workload for `cargo miri run` (an argv flag, not an
            // environment variable, because Miri isolates the environment by default)
            "--miri" => {
                mode = "miri".to_string();
                i += 1;
                continue;
            }
            _ => {
                eprintln!("unknown argument {a}");
                std::process::exit(2);
            }
        }
        i += 2;
    }
    let Some((run, replay_fn)) = monitors::find(&prop) else {
        eprintln!("no monitor for {prop}");
        std::process::exit(2);
    };
    rt::install_panic_hook();
    // The monitor loop runs on a thread with a generous stack for the harness's own reference
    // models; monitors that judge stack safety run the code under test on a 2 MiB thread.
    let handle = std::thread::Builder::new()
        .stack_size(stack_mb * 1024 * 1024)
        .spawn(move || {
            let mut ctx = Ctx::new(&prop, tier, seed, shard, nshards, budget, inflight.as_deref());
            ctx.mode = mode;
            if let Some(path) = replay {
                ctx.replay_mode = true;
                let text = std::fs::read_to_string(&path).expect("read replay");
                let v: Value = serde_json::from_str(&text).expect("replay json");
                let case = v.get("case").cloned().unwrap_or(v);
                replay_fn(&mut ctx, &case);
            } else {
                run(&mut ctx);
            }
            if ctx.mode == "miri" {
                // `-Zmiri-many-seeds` runs this program once per seed with the same arguments:
                // report on stdout/stderr and through the exit code, not only through `--out`.
                let r = ctx.summary_json();
                println!("VERIF-MIRI-SUMMARY {}", serde_json::to_string(&r).unwrap());
                let n = ctx.violation_count();
                // `--out` is not written in this mode (interpreted file I/O and a second
                // serialization cost seconds per seed); the orchestrator reads stdout.
                if n > 0 {
                    eprintln!("VERIF-VIOLATION {n} violation signature(s) observed by the monitor under Miri");
                    std::process::exit(1);
                }
                return;
            }
            ctx.finish(&out);
        })
        .expect("spawn monitor thread");
    if handle.join().is_err() {
        eprintln!("monitor thread panicked (harness bug)");
        std::process::exit(3);
    }
}
